/-
  C09 - Record values copy deeply and compare as a total order.
  Property theorems only; helper lemmas live in Stef/Proofs/Cmp.lean and Stef/Proofs/CmpCopy.lean.

  `TotalOrderCmp P c` (Stef/Proofs/Cmp.lean) bundles the four laws of the property for a three-way
  comparison `c` on the values satisfying `P`:
      refl        : c a a = 0
      antisymm    : c a b = -(c b a)
      trans       : c a b ≤ 0 → c b d ≤ 0 → c a d ≤ 0
      eq_zero_iff : c a b = 0 ↔ a = b            ("0 only for values holding the same data")
  `TotalOrderUpTo P key c` is the same with `eq_zero_iff : c a b = 0 ↔ key a = key b`; for record
  trees `key` is `data` (Stef/Cmp.lean): the tree with the values STORED in absent optional fields
  erased - they are hidden state, not data (the getter's result is meaningless when Has<Field>() is
  false, no encoder writes them, IsEqual ignores them).

  The primitive comparators are the functions regenerated from go/pkg/types.go (Stef.Gen.*); the
  structural comparison `cmp`, `isEqual`, `clone`, `copyFrom` are the transcription of the stefc
  templates in Stef/Cmp.lean. (Convention where the code violates the property: the full statement
  is refuted from a witness, `..._false`, and a `..._partial` version carries the excluding
  hypothesis. Nothing of this file is refuted any more: every statement below is for ALL values.)

  History: until /repo commit 05846e0 pkg.Float64Compare used Go's `<`/`>` (NaN compared 0 with
  everything, -0 = +0) and this file refuted the order laws for floats. The fix compares the
  IEEE-754 totalOrder key of the bit patterns; the laws below are now proved for ALL bit patterns
  and the structural theorems carry no float hypothesis any more. Commit 59db810 replaced the
  `!=` guards of the generated setters and copy loops by pkg.<T>Equal, so the copy theorems hold
  for all float bit patterns too. Until 82431a4 <Struct>.Clone dropped `optionalFieldsPresent`
  (`clone_equal` was refuted, finding clone-loses-optional-presence) and Cmp<Struct> compared the
  values stored in optional fields absent on both sides (IsEqual values with Cmp ≠ 0, finding
  cmp-stale-optional): Cmp separated more than the data. Since that commit Cmp = 0 ⇔ same data ⇔
  IsEqual, and Clone / CopyFrom / copyToNew results compare 0 with their source, for ALL values.
  Commit d9a1aae replaced the last Go `!=` on field values (primitive keys/values in copy<Multimap>
  and its computeDiff) by pkg.<T>Equal: `copyFrom_equal` lost its hypothesis (no -0.0 float directly
  as multimap key/value) and its refutation `copyFrom_equal_false` is gone; no `!=` / `==` on a
  field value is left in stefc/templates/go/{struct,oneof,array,multimap}.go.tmpl (only presence
  bits, lengths, typ and nil pointers are compared with Go operators).
-/
import Stef.Proofs.Cmp
import Stef.Proofs.CmpCopy

namespace Stef.Props.C09
open Stef Stef.Cmp

/-! ## 1. regenerated primitive comparators -/

/-- pkg.Uint64Compare is a total order on all of uint64. -/
theorem uint64Compare_total_order : TotalOrderCmp (fun _ : BitVec 64 => True) Gen.uint64Compare :=
  u64Exact.toTotal

example : Gen.uint64Compare 3#64 0xffffffffffffffff#64 = -1 ∧ Gen.uint64Compare 7#64 7#64 = 0 := by decide

/-- pkg.Int64Compare is a total order on all of int64 (two's complement patterns, signed order). -/
theorem int64Compare_total_order : TotalOrderCmp (fun _ : BitVec 64 => True) Gen.int64Compare :=
  i64Exact.toTotal

example : Gen.int64Compare 3#64 0xffffffffffffffff#64 = 1 ∧       -- 3 > -1
    Gen.int64Compare 0x8000000000000000#64 0x7fffffffffffffff#64 = -1 := by decide

/-- pkg.BoolCompare is a total order (false < true). -/
theorem boolCompare_total_order : TotalOrderCmp (fun _ : Bool => True) Gen.boolCompare :=
  boolExact.toTotal

example : Gen.boolCompare false true = -1 ∧ Gen.boolCompare true false = 1 := by decide

/-- pkg.StringCompare / pkg.BytesCompare (strings.Compare: lexicographic on bytes) is a total order. -/
theorem strCompare_total_order : TotalOrderCmp (fun _ : Bytes => True) strCompare :=
  strExact.toTotal

example : strCompare [0x61#8] [0x61#8, 0x00#8] = -1 ∧ strCompare [0xff#8] [0x61#8, 0x62#8] = 1 := by decide

/-! ### Float64Compare / Float64Equal on bit patterns (all of them: NaNs, -0, +0, infinities) -/

/-- a quiet NaN, +0, -0, 1.0, 2.0 as bit patterns -/
def nan : BitVec 64 := 0x7ff8000000000000#64
def posZero : BitVec 64 := 0#64
def negZero : BitVec 64 := 0x8000000000000000#64
def one : BitVec 64 := 0x3ff0000000000000#64
def two : BitVec 64 := 0x4000000000000000#64

/-- pkg.Float64Compare is a total order on ALL float64 bit patterns: reflexive-zero, antisymmetric,
    transitive, and 0 only for bit-identical values. (`float64OrderKey` is injective and
    Float64Compare is the unsigned comparison of the keys.) -/
theorem float64Compare_total_order : TotalOrderCmp (fun _ : BitVec 64 => True) Gen.float64Compare :=
  f64Exact.toTotal

/-- the former counterexamples are now ordered: -0 < +0, 1.0 < 2.0 < NaN, two NaN payloads differ -/
example : Gen.float64Compare negZero posZero = -1 ∧ Gen.float64Compare two nan = -1 ∧
    Gen.float64Compare nan one = 1 ∧ Gen.float64Compare two one = 1 ∧
    Gen.float64Compare nan 0x7ff8000000000001#64 = -1 ∧ Gen.float64Compare nan nan = 0 := by decide

/-- pkg.Float64Equal is true exactly for identical bit patterns (NaN equals itself, -0 ≠ +0). -/
theorem float64Equal_exact (a b : BitVec 64) : Gen.float64Equal a b = true ↔ a = b := by
  unfold Gen.float64Equal; exact beq_iff_eq

example : Gen.float64Equal nan nan = true ∧ Gen.float64Equal negZero posZero = false := by decide

/-- "Ordinary numbers compare as with < and >": when neither value is a NaN and they are not both
    zeros, Float64Compare is Go's IEEE-754 comparison (`if l > r {1} else if l < r {-1} else 0`). -/
theorem float64Compare_ieee_on_numbers (a b : BitVec 64)
    (ha : Flt.isNaN a = false) (hb : Flt.isNaN b = false)
    (hz : ¬ (Flt.isZero a = true ∧ Flt.isZero b = true)) :
    Gen.float64Compare a b = (if Flt.gt a b then 1 else if Flt.lt a b then -1 else 0) := by
  rw [float64Compare_key, f64Key_ieee a b hz]
  unfold sgnCmp Flt.gt Flt.lt
  simp only [ha, hb, Bool.not_false, Bool.true_and, decide_eq_true_eq]

/-- non-vacuity: -inf, a subnormal and -0 against 1.0 -/
example : Flt.isNaN 0xfff0000000000000#64 = false ∧ Flt.isNaN 0x0000000000000001#64 = false ∧
    ¬ (Flt.isZero negZero = true ∧ Flt.isZero one = true) ∧
    Gen.float64Compare 0xfff0000000000000#64 0x0000000000000001#64 = -1 := by decide

/-! ## 2. the generated structural comparison, generically over the leaf laws -/

/-- MAIN LIFTING THEOREM. For any leaf type and leaf operations: if the leaf comparison is a total
    order on the leaves satisfying `P`, then the generated structural comparison (struct with
    optional presence, oneof, array, multimap, nil dictionary pointers; Stef.Cmp.cmp) is a total
    order on ALL record trees whose leaves satisfy `P` - whatever their shapes - and it returns 0
    exactly for trees holding the same data (`data`: everything but the values stored in absent
    optional fields). So a dictionary lookup or a grouping tree keyed by `cmp` never substitutes one
    value for a different one. -/
theorem cmp_total_order {α : Type} (P : α → Prop) (o : LeafOps α) (h : TotalOrderCmp P o.cmp) :
    TotalOrderUpTo (Value.All P) data (cmp o) where
  refl a ha := cmp_refl h.toExact.toLeafOrder a ha
  antisymm a b ha hb := cmp_antisymm h.toExact.toLeafOrder a b ha hb
  trans a b d ha hb hd := (cmp_tri h.toExact.toLeafOrder a b d ha hb hd).le
  eq_zero_iff a b ha hb :=
    ⟨cmp_data_of_zero h.toExact a b ha hb, cmp_zero_of_data h.toExact.toLeafOrder a b ha⟩

/-- non-vacuity: the hypothesis is met by uint64 leaves under pkg.Uint64Compare, and the conclusion
    then covers e.g. a struct holding an optional field, a oneof and an array -/
example : TotalOrderUpTo (Value.All (fun _ : BitVec 64 => True)) data
    (cmp { cmp := Gen.uint64Compare, eq := Gen.uint64Equal, zero := fun _ => 0 }) :=
  cmp_total_order _ _ uint64Compare_total_order
example : (Value.struct (.cons .req (.leaf 5#64) (.cons .present (.choice 2#8 (.leaf 7#64))
    (.cons .req (.arr (.cons (.leaf 1#64) .nil)) .nil)))).All (fun _ : BitVec 64 => True) :=
  all_true _

/-- On trees without hidden state - no optional field absent anywhere, e.g. every type without
    optional fields - "the same data" is "identical": `data` is the identity there. -/
theorem data_eq_self_of_no_absent {α : Type} (v : Value α) (h : v.NoAbsent) : data v = v :=
  data_noAbsent v h

/-- ... so there Cmp = 0 only for identical trees (the statement that held for all trees while
    Cmp<Struct> still compared the stored values of absent fields). -/
theorem cmp_zero_identical {α : Type} (P : α → Prop) (o : LeafOps α) (h : TotalOrderCmp P o.cmp)
    (a b : Value α) (ha : a.All P) (hb : b.All P) (na : a.NoAbsent) (nb : b.NoAbsent) :
    cmp o a b = 0 ↔ a = b := by
  rw [(cmp_total_order P o h).eq_zero_iff a b ha hb, data_noAbsent a na, data_noAbsent b nb]

example : (Value.struct (.cons .req (.leaf 5#64) (.cons .present (.choice 2#8 (.leaf 7#64))
    (.cons .req (.arr (.cons (.leaf 1#64) .nil)) .nil)))).NoAbsent := by
  simp [Value.NoAbsent, Fields.NoAbsent, Values.NoAbsent]

/-- The order part (reflexive, antisymmetric, transitive) needs only a total PREORDER on the leaves
    (`LeafOrder`: the comparison agrees with some integer key); exactness is not used. -/
theorem cmp_preorder {α : Type} (P : α → Prop) (o : LeafOps α) (h : LeafOrder P o.cmp)
    (a b c : Value α) (ha : a.All P) (hb : b.All P) (hc : c.All P) :
    cmp o a a = 0 ∧ cmp o a b = -(cmp o b a) ∧ (cmp o a b ≤ 0 → cmp o b c ≤ 0 → cmp o a c ≤ 0) :=
  ⟨cmp_refl h a ha, cmp_antisymm h a b ha hb, (cmp_tri h a b c ha hb hc).le⟩

example : LeafOrder (fun _ : PrimVal => True) primOps.cmp := primExact.toLeafOrder

/-! ## 3. instantiated with the generated primitives (`primOps`: pkg.*Compare / pkg.*Equal) -/

/-- The leaf comparison of the generated code (pkg.Uint64/Int64/Bool/Float64/String/BytesCompare)
    is a total order on all primitive values. -/
theorem primCompare_total_order : TotalOrderCmp (fun _ : PrimVal => True) primCompare :=
  primExact.toTotal

/-- THE PROPERTY for the comparison: over the real primitive comparators the generated structural
    Cmp is a total order on ALL record trees - every float bit pattern, every shape, optional
    presence, nil dictionary pointers - and returns 0 exactly for trees holding the same data.
    No hypothesis. -/
theorem cmp_prim_total_order : TotalOrderUpTo (fun _ : Value PrimVal => True) data (cmp primOps) := by
  have h := cmp_total_order (fun _ : PrimVal => True) primOps primCompare_total_order
  exact {
    refl := fun a _ => h.refl a (all_true a)
    antisymm := fun a b _ _ => h.antisymm a b (all_true a) (all_true b)
    trans := fun a b d _ _ _ => h.trans a b d (all_true a) (all_true b) (all_true d)
    eq_zero_iff := fun a b _ _ => h.eq_zero_iff a b (all_true a) (all_true b) }

/-- a Point-like record: uint64 timestamps, a oneof holding a histogram struct with an optional
    float sum that is present, an absent optional with a stored value, and bucket counts -/
def samplePoint (sum : BitVec 64) : Value PrimVal :=
  .struct (.cons .req (.leaf (.u64 17)) (.cons .req (.leaf (.u64 18))
    (.cons .req (.choice 2#8 (.struct (.cons .req (.leaf (.i64 5)) (.cons .present (.leaf (.f64 sum))
      (.cons .absent (.leaf (.f64 one)) (.cons .req (.arr (.cons (.leaf (.u64 1)) (.cons (.leaf (.u64 2)) .nil))) .nil))))))
    (.cons .req (.mmap (.cons (.leaf (.str [0x6b#8])) (.choice 0#8 (.leaf (.str [0x76#8]))) .nil)) .nil))))

/-- the triples and pairs that used to refute the property are now ordered consistently -/
example : cmp primOps (samplePoint one) (samplePoint two) = -1 ∧
    cmp primOps (samplePoint two) (samplePoint nan) = -1 ∧
    cmp primOps (samplePoint one) (samplePoint nan) = -1 ∧
    cmp primOps (samplePoint negZero) (samplePoint posZero) = -1 ∧
    cmp primOps (samplePoint nan) (samplePoint nan) = 0 := by with_unfolding_all decide

/-! ## 4. Cmp = 0, IsEqual and the visible data -/

/-- IsEqual decides equality of the visible data (stored values of absent optional fields are not
    part of the data), for all values - NaN and -0 leaves included. -/
theorem isEqual_iff_same_data (a b : Value PrimVal) :
    isEqual primOps a b = true ↔ data a = data b :=
  isEqual_iff_data (P := fun _ => True) (fun x y _ _ => primEqual_iff x y) a b (all_true a) (all_true b)

example : isEqual primOps (samplePoint nan) (samplePoint nan) = true ∧
    isEqual primOps (samplePoint negZero) (samplePoint posZero) = false := by with_unfolding_all decide

/-- Cmp = 0 exactly for values holding the same data, for all values. -/
theorem cmp_zero_iff_same_data (a b : Value PrimVal) :
    cmp primOps a b = 0 ↔ data a = data b :=
  cmp_prim_total_order.eq_zero_iff a b trivial trivial

/-- Cmp and IsEqual agree on ALL values: Cmp(a, b) = 0 ⇔ a.IsEqual(b). (Until /repo 82431a4 only
    `→` held: Cmp<Struct> compared the values stored in optional fields absent on both sides,
    finding cmp-stale-optional.) -/
theorem cmp_zero_iff_isEqual (a b : Value PrimVal) :
    cmp primOps a b = 0 ↔ isEqual primOps a b = true := by
  rw [cmp_zero_iff_same_data, isEqual_iff_same_data]

example : cmp primOps (samplePoint two) (samplePoint two) = 0 := by with_unfolding_all decide

/-- two histogram-like structs that differ only in the value stored in an ABSENT optional field
    (the state after Set(5); Unset against a fresh value): the former witness of cmp-stale-optional -/
def staleA : Value PrimVal := .struct (.cons .req (.leaf (.i64 1)) (.cons .absent (.leaf (.u64 5)) .nil))
def staleB : Value PrimVal := .struct (.cons .req (.leaf (.i64 1)) (.cons .absent (.leaf (.u64 0)) .nil))

/-- non-vacuity of the `←` direction on hidden state: different trees, same data, IsEqual, Cmp = 0;
    and a present field is still compared -/
example : staleA ≠ staleB := by simp [staleA, staleB]
example : data staleA = data staleB := by with_unfolding_all rfl
example : isEqual primOps staleA staleB = true ∧ cmp primOps staleA staleB = 0 ∧
    cmp primOps (.struct (.cons .req (.leaf (.i64 1)) (.cons .present (.leaf (.u64 5)) .nil))) staleA = 1 ∧
    cmp primOps (.struct (.cons .req (.leaf (.i64 1)) (.cons .present (.leaf (.u64 5)) .nil)))
      (.struct (.cons .req (.leaf (.i64 1)) (.cons .present (.leaf (.u64 6)) .nil))) = -1 := by
  with_unfolding_all decide

/-! ## 5. CopyFrom and Clone

  Since /repo commit 59db810 the generated setters and copy loops are guarded by pkg.<T>Equal (bit
  equality for floats since 05846e0), and since d9a1aae so is the primitive key/value branch of
  copy<Multimap>: copies are exact for every float bit pattern everywhere. "Equal to the source" is
  stated three ways each time: same data, IsEqual, Cmp = 0. -/

/-- every record tree is equal to itself under IsEqual (NaN leaves included) -/
theorem isEqual_refl (v : Value PrimVal) : isEqual primOps v v = true :=
  (isEqual_iff_same_data v v).mpr rfl

example : isEqual primOps (samplePoint nan) (samplePoint nan) = true := by with_unfolding_all decide

/-- copyToNew (the copy into a fresh value that Clone and the decoders' dictionaries use): the copy
    holds the same data, IsEqual(copy, source) and Cmp(copy, source) = 0 - for ALL values, no
    hypothesis (absent optional fields holding stale values included). -/
theorem copyNew_equal (s : Value PrimVal) :
    data (copyNew primOps s) = data s ∧ isEqual primOps (copyNew primOps s) s = true ∧
    cmp primOps (copyNew primOps s) s = 0 := by
  have e := data_copyNew primEq s
  exact ⟨e, (isEqual_iff_same_data _ _).mpr e, (cmp_zero_iff_same_data _ _).mpr e⟩

example : isEqual primOps (copyNew primOps (samplePoint negZero)) (samplePoint negZero) = true ∧
    isEqual primOps (copyNew primOps (samplePoint nan)) (samplePoint nan) = true ∧
    cmp primOps (copyNew primOps staleA) staleA = 0 := by
  with_unfolding_all decide
/-- ... where the copy is NOT the same tree: copyToNew leaves the zero in the absent field -/
example : copyNew primOps staleA = staleB := by with_unfolding_all rfl

/-- CopyFrom: whatever dst held before (any shape, any content), after `dst.CopyFrom(src)` dst holds
    exactly the data of src, IsEqual(dst, src) is true and Cmp(dst, src) = 0 - for ALL values, no
    hypothesis: NaN and -0.0 anywhere (struct fields, oneofs, arrays, multimap keys and values),
    stale values in absent optional fields, destinations of another shape. (Until /repo d9a1aae a
    -0.0 float directly used as multimap key/value was not copied over a +0.0: Go's `!=`.) -/
theorem copyFrom_equal (d s : Value PrimVal) :
    data (copyFrom primOps d s) = data s ∧ isEqual primOps (copyFrom primOps d s) s = true ∧
    cmp primOps (copyFrom primOps d s) s = 0 := by
  have e := data_copyFrom primEq s d
  exact ⟨e, (isEqual_iff_same_data _ _).mpr e, (cmp_zero_iff_same_data _ _).mpr e⟩

/-- non-vacuity: the Point-like sample with a -0.0 and with a NaN in its float field is copied
    exactly over another value; the former witness of "Cmp(copy, source) ≠ 0" (a fresh value over
    which a value with a stale absent field is copied) compares 0 -/
example : isEqual primOps (copyFrom primOps (samplePoint posZero) (samplePoint negZero)) (samplePoint negZero) = true ∧
    cmp primOps (copyFrom primOps (samplePoint two) (samplePoint nan)) (samplePoint nan) = 0 ∧
    cmp primOps (copyFrom primOps staleB staleA) staleA = 0 := by
  with_unfolding_all decide
example : copyFrom primOps staleB staleA = staleB := by with_unfolding_all rfl

/-- a multimap with a float64 VALUE (not a oneof): +0.0 in the destination, -0.0 / NaN in the
    source: the former witness of `copyFrom_equal_false` -/
def mapPos : Value PrimVal := .mmap (.cons (.leaf (.str [0x6b#8])) (.leaf (.f64 posZero)) .nil)
def mapNeg : Value PrimVal := .mmap (.cons (.leaf (.str [0x6b#8])) (.leaf (.f64 negZero)) .nil)
def mapNaN : Value PrimVal := .mmap (.cons (.leaf (.str [0x6b#8])) (.leaf (.f64 nan)) .nil)

/-- the -0.0 is copied over the +0.0 (and the other way round), a NaN value is kept as it is -/
example : copyFrom primOps mapPos mapNeg = mapNeg ∧ copyFrom primOps mapNeg mapPos = mapPos ∧
    copyFrom primOps mapNaN mapNaN = mapNaN ∧ copyFrom primOps mapNaN mapNeg = mapNeg := by
  refine ⟨?_, ?_, ?_, ?_⟩ <;> with_unfolding_all rfl
example : isEqual primOps (copyFrom primOps mapPos mapNeg) mapNeg = true ∧
    cmp primOps (copyFrom primOps mapPos mapNeg) mapNeg = 0 := by with_unfolding_all decide

/-- a histogram-like struct with an optional field that is PRESENT, one that is absent with a stale
    stored value, and a nested struct with both: the former witness of clone-loses-optional-presence -/
def withPresent : Value PrimVal :=
  .struct (.cons .req (.leaf (.i64 1)) (.cons .present (.leaf (.u64 5)) (.cons .absent (.leaf (.f64 two))
    (.cons .req (.struct (.cons .present (.leaf (.f64 nan)) (.cons .absent (.leaf (.u64 9)) .nil))) .nil))))

/-- Clone (<Struct>.Clone / <Oneof>.Clone): the clone holds the same data as its source, IsEqual(clone,
    source) is true and Cmp(clone, source) = 0 - for ALL values: every float bit pattern, optional
    fields present or absent (with whatever stale value stored) at the top level or nested, nil
    dictionary pointers. No hypothesis. (Until /repo 82431a4 Clone dropped `optionalFieldsPresent`
    and this was refuted by `withPresent`.) -/
theorem clone_equal (v : Value PrimVal) :
    data (clone primOps v) = data v ∧ isEqual primOps (clone primOps v) v = true ∧
    cmp primOps (clone primOps v) v = 0 := by
  have e := data_clone primEq v
  exact ⟨e, (isEqual_iff_same_data _ _).mpr e, (cmp_zero_iff_same_data _ _).mpr e⟩

/-- non-vacuity: presence marks survive (top level: verbatim, stale value included; nested: copyToNew
    leaves the zero in the absent field, which is not data), floats -0.0 / NaN are kept -/
example : clone primOps withPresent =
    .struct (.cons .req (.leaf (.i64 1)) (.cons .present (.leaf (.u64 5)) (.cons .absent (.leaf (.f64 two))
      (.cons .req (.struct (.cons .present (.leaf (.f64 nan)) (.cons .absent (.leaf (.u64 0)) .nil))) .nil)))) := by
  with_unfolding_all rfl
example : isEqual primOps (clone primOps withPresent) withPresent = true ∧
    cmp primOps (clone primOps withPresent) withPresent = 0 ∧
    isEqual primOps (clone primOps (samplePoint negZero)) (samplePoint negZero) = true := by
  with_unfolding_all decide

/-- For clean values (absent optional primitives hold their zero value: the state after init/reset
    and any number of Set calls, not after Set + Unset) copyToNew and Clone reproduce the STATE of
    the source, hidden values included. -/
theorem copy_clean_identical (s : Value PrimVal) (cs : s.Clean primOps) :
    copyNew primOps s = s ∧ clone primOps s = s :=
  ⟨copyNew_clean primEq s cs, clone_clean primEq s cs⟩

example : (Value.struct (.cons .req (.leaf (.f64 negZero)) (.cons .absent (.leaf (.u64 0)) .nil))).Clean primOps := by
  simp [Value.Clean, Fields.Clean, primOps, primZero]

end Stef.Props.C09
