/-
  C13, print/parse and wire-order half, for the functions REGENERATED from the current Go source
  (Stef/Gen/PrintFlow.lean, written by extract/printflow.go from go/pkg/schema/schema.go, wireschema.go and
  structcounttree.go; proved equal to the hand models in Proofs/PrintFlowGen). The theorems of Props/C13
  (print_parse, print_parse_print, print_parse_safe, wire_order, wire_order_counts) restated for
  `Gen.PrintFlow.prettyPrint` (<- Schema.PrettyPrint and its helpers) and `Gen.PrintFlow.newWireSchema`
  (<- NewWireSchema, schemaToStructCountTree, setStructCountsFromTree). Property theorems only.
-/
import Stef.Props.C13
import Stef.Proofs.PrintFlowGen

namespace Stef.Props.C13PrintGen
open Stef.Idl Stef.PrintFlowSem Stef.Props.C13 Stef.Proofs.PrintFlowGen

/-- the three maps of a schema with distinct top-level names have distinct keys. -/
theorem maps_nodup {σ : Schema} (h : σ.topNames.Nodup) :
    (σ.enums.map (·.name)).Nodup ∧ (σ.multimaps.map (·.name)).Nodup ∧ (σ.structs.map (·.name)).Nodup := by
  simp only [Schema.topNames, List.nodup_append] at h
  exact ⟨h.2.1, h.1.2.1, h.1.1⟩

/-- The regenerated `Schema.PrettyPrint` prints, for every schema the parser accepts, exactly the text of the hand
    model the print/parse theorems are about. -/
theorem gen_prettyPrint_parsed (t : List Char) (σ : Schema) (h : parse t = .ok σ) :
    Gen.PrintFlow.prettyPrint σ = prettyPrint σ :=
  let ⟨he, hm, hs⟩ := maps_nodup (Stef.Props.C12.parse_ok_wf t σ h).top_unique
  prettyPrint_eq σ he hm hs

/-- non-vacuity: the sample of C12 (enum, dictionaries, arrays, recursion, a oneof, two roots). -/
example : Gen.PrintFlow.prettyPrint sampleSchema = prettyPrint sampleSchema :=
  gen_prettyPrint_parsed _ _ sample_parsed

/-- PRINT -> PARSE ROUND TRIP for the regenerated printer: for every schema `σ` returned by `parse`, the text the
    regenerated `PrettyPrint` produces is accepted and parses to `σ` with its definitions sorted by name. -/
theorem gen_print_parse (t : List Char) (σ : Schema) (h : parse t = .ok σ) :
    parse (Gen.PrintFlow.prettyPrint σ) = .ok σ.norm := by
  rw [gen_prettyPrint_parsed t σ h]; exact print_parse t σ h

example : parse (Gen.PrintFlow.prettyPrint sampleSchema) = .ok sampleSchema.norm :=
  gen_print_parse _ _ sample_parsed

/-- the printed form of the empty schema (regenerated printer) is its package clause and parses back. -/
theorem gen_print_parse_empty :
    Gen.PrintFlow.prettyPrint { pkg := [['a']] } = "package a".toList ∧
    parse (Gen.PrintFlow.prettyPrint { pkg := [['a']] }) = .ok { pkg := [['a']] } := by
  have e : Gen.PrintFlow.prettyPrint { pkg := [['a']] } = prettyPrint { pkg := [['a']] } :=
    prettyPrint_eq _ (by simp) (by simp) (by simp)
  rw [e]; exact ⟨print_empty, print_parse_empty⟩

/-- printing is stable (regenerated printer): the re-parsed schema prints to the same text. -/
theorem gen_print_parse_print (t : List Char) (σ : Schema) (h : parse t = .ok σ) :
    Gen.PrintFlow.prettyPrint σ.norm = Gen.PrintFlow.prettyPrint σ := by
  have h' := print_parse t σ h
  rw [gen_prettyPrint_parsed _ σ.norm h', gen_prettyPrint_parsed t σ h]
  exact print_parse_print t σ h

example : Gen.PrintFlow.prettyPrint sampleSchema.norm = Gen.PrintFlow.prettyPrint sampleSchema :=
  gen_print_parse_print _ _ sample_parsed

/-- The regenerated `NewWireSchema` returns, without a panic, exactly the counts the hand model lists (in order of
    first entry) whenever the hand model succeeds. -/
theorem gen_newWireSchema (σ : Schema) (root : Name) (c : List Nat) (h : wire σ root = .ok c) :
    Gen.PrintFlow.newWireSchema σ root = .ok ⟨c⟩ := by
  unfold wire at h
  cases hw : wireEntries σ root with
  | error e => simp [hw, Except.map] at h
  | ok w =>
    simp only [hw, Except.map, Except.ok.injEq] at h
    subst h
    exact newWireSchema_eq σ root w hw

/-- non-vacuity: mutual recursion, recursion through arrays and through a multimap. -/
example : Gen.PrintFlow.newWireSchema recSchema ['R'] = .ok ⟨[4, 1, 3, 0]⟩ :=
  gen_newWireSchema recSchema ['R'] _ (by decide)

/-- WIRE ORDER for the regenerated `NewWireSchema`: the generated `Init` code consumes exactly the counts that the
    regenerated `NewWireSchema` lists, in the same order - recursion through structs, arrays and multimaps included.
    (Side conditions as in `wire_order`; they hold for every schema the parser accepts.) -/
theorem gen_wire_order_counts (σ : Schema) (root : Name)
    (hnd : σ.topNames.Nodup)
    (hs : ∀ s ∈ σ.structs, s.name.head? ≠ some '[')
    (hm : ∀ m ∈ σ.multimaps, m.name.head? ≠ some '[')
    (hroot : root ≠ []) (c : List Nat) (h1 : wire σ root = .ok c) :
    Gen.PrintFlow.newWireSchema σ root = .ok ⟨c⟩ ∧ initCounts σ root = .ok c :=
  ⟨gen_newWireSchema σ root c h1, wire_order_counts σ root hnd hs hm hroot c h1⟩

example : Gen.PrintFlow.newWireSchema recSchema ['R'] = .ok ⟨[4, 1, 3, 0]⟩ ∧ initCounts recSchema ['R'] = .ok [4, 1, 3, 0] :=
  gen_wire_order_counts recSchema ['R'] (by decide) (by decide) (by decide) (by decide) _ (by decide)

/-- the same for every schema ACCEPTED BY THE PARSER and every root of it. -/
theorem gen_wire_order_parsed (t : List Char) (σ : Schema) (h : parse t = .ok σ)
    (root : Name) (hr : root ∈ σ.rootNames) (w : List (Name × Nat)) (h1 : wireEntries σ root = .ok w) :
    Gen.PrintFlow.newWireSchema σ root = .ok ⟨w.map (·.2)⟩ ∧ initEntries σ root = .ok w :=
  ⟨newWireSchema_eq σ root w h1, wire_order_parsed t σ h root hr w h1⟩

/-- non-vacuity: a parsed recursive schema and its root `R`. -/
example : Gen.PrintFlow.newWireSchema sampleSchema ['R'] = .ok ⟨[1, 5, 2]⟩ ∧
    initEntries sampleSchema ['R'] = .ok [(['R'], 1), (['A'], 5), (['O'], 2)] :=
  gen_wire_order_parsed _ _ sample_parsed ['R'] (by decide +kernel) [(['R'], 1), (['A'], 5), (['O'], 2)]
    (by decide +kernel)

/-- The property C13 (print/parse half), the full statement, for the regenerated functions: for every accepted
    schema the text of the regenerated printer is accepted, the result is equivalent, and for every root for which
    the hand model's `wire` is defined the regenerated `NewWireSchema` gives the same counts for both schemas. -/
theorem gen_print_parse_safe (t : List Char) (σ : Schema) (h : parse t = .ok σ) :
    ∃ σ', parse (Gen.PrintFlow.prettyPrint σ) = .ok σ' ∧ σ'.Equiv σ ∧
      ∀ r ∈ σ.rootNames, ∀ c, wire σ r = .ok c →
        Gen.PrintFlow.newWireSchema σ' r = .ok ⟨c⟩ ∧ Gen.PrintFlow.newWireSchema σ r = .ok ⟨c⟩ := by
  obtain ⟨σ', hp, he, hw⟩ := print_parse_safe t σ h
  refine ⟨σ', by rw [gen_prettyPrint_parsed t σ h]; exact hp, he, ?_⟩
  intro r hr c hc
  exact ⟨gen_newWireSchema σ' r c (by rw [hw r hr]; exact hc), gen_newWireSchema σ r c hc⟩

example : ∃ σ', parse (Gen.PrintFlow.prettyPrint sampleSchema) = .ok σ' ∧ σ'.Equiv sampleSchema ∧
    ∀ r ∈ sampleSchema.rootNames, ∀ c, wire sampleSchema r = .ok c →
      Gen.PrintFlow.newWireSchema σ' r = .ok ⟨c⟩ ∧ Gen.PrintFlow.newWireSchema sampleSchema r = .ok ⟨c⟩ :=
  gen_print_parse_safe _ _ sample_parsed

/-- the hypothesis `wire sampleSchema r = .ok c` of the example above is satisfiable for a root. -/
example : wire sampleSchema ['R'] = .ok [1, 5, 2] := by decide +kernel

/-- the text of `panic("unknown FieldType")` and of the printer's fallback, as the source spells them (regenerated
    literals; the hand model's `sUnknown` is the second one). -/
theorem gen_literals_present :
    "unknown FieldType" ∈ Gen.PrintFlow.literals ∧ "unknown" ∈ Gen.PrintFlow.literals := by decide

end Stef.Props.C13PrintGen
