/-
  C18 - Every OTLP span becomes exactly one STEF record with all its content.
  Property theorems only (helper lemmas: Stef/Proofs/Otlp*.lean). The model is
  Stef/Otlp/Traces.lean: `tracesToStef sorted t` = the logical value of the record at every
  `Write()` of go/pdata/traces.OtlpToStefUnsorted{Sorted: sorted}.Convert, `none` when the sorting
  mode panics in otlptools.CmpVal.
-/
import Stef.Proofs.OtlpTracesSort

namespace Stef.Props.C18
open Stef.Otlp

/-- the record the property asks for, for a span with its resource and scope: every field
    unchanged, ids as the converter stores them (`idText`: hex text, empty for the zero id),
    span attributes in key order in the sorting mode. -/
def expected (sortedAttrs : Bool) (x : ResourceSpans × ScopeSpans × Span) : SpanRecord :=
  expectedRecord x.1 x.2.1 x.2.2 sortedAttrs

/-- One record per span, in both modes, for every batch (no side condition): whenever the converter
    returns, the number of records written is the number of spans. -/
theorem one_record_per_span (sorted : Bool) (t : Traces) (recs : List SpanRecord)
    (h : tracesToStef sorted t = some recs) : recs.length = (flattenSpans t).length := by
  cases sorted
  · simp only [tracesToStef] at h
    simp at h; subst h
    simp [writeResourceSpans_len, flattenSpans_length]
  · simp only [tracesToStef] at h
    simp only [if_true] at h
    split at h
    · simp at h
    · rename_i t' ht
      simp at h; subst h
      simp [writeResourceSpans_len, flattenSpans_length, sortTraces_count t t' ht]

/-- the plain mode always returns -/
theorem plain_mode_total (t : Traces) : ∃ recs, tracesToStef false t = some recs := by
  simp [tracesToStef]

/-- Content, plain mode, FULL statement (holds for every batch since repo commit 571960a, which
    fixed the nested-map index of otlpval2tef.go; no side condition): the records are exactly the
    spans in document order, each with its resource, scope, ids (as `idText`), name, kind, times,
    trace state, flags, attributes (including nested arrays and maps of any size),
    dropped-attributes counts, status, events and links. -/
theorem span_content (t : Traces) :
    tracesToStef false t = some ((flattenSpans t).map (expected false)) := by
  simp only [tracesToStef]
  simp only [Bool.false_eq_true, if_false]
  rw [tracesToStef_records false t]
  rfl

/-- Content, sorting mode: whenever it returns, the records are exactly the spans of the sorted and
    merged batch (`sortTraces`), with span attributes in key order. -/
theorem span_content_sorted (t t' : Traces) (h : sortTraces t = some t') :
    tracesToStef true t = some ((flattenSpans t').map (expected true)) := by
  simp only [tracesToStef, if_true, h]
  rw [tracesToStef_records true t']
  rfl

/-- The record has no place for Span.DroppedEventsCount / DroppedLinksCount: batches that differ
    only there give the same records (finding span-dropped-events-links-count-lost). -/
theorem dropped_event_link_counts_lost :
    ∃ t₁ t₂ : Traces, t₁ ≠ t₂ ∧ tracesToStef false t₁ = tracesToStef false t₂ :=
  ⟨{ rss := [{ scopes := [{ spans := [{ droppedEvents := 1, droppedLinks := 2 }] }] }] },
   { rss := [{ scopes := [{ spans := [{}] }] }] }, by decide, by decide⟩

/-- ids: the stored text determines the id (a reader recovers trace and span ids exactly). -/
theorem id_text_injective (n : Nat) (a b : Str) (ha : idOk n a = true) (hb : idOk n b = true)
    (h : idText a = idText b) : a = b :=
  idText_inj n a b ha hb h

/-- Sorting mode, full statement: the records are a permutation of the spans' records. FALSE as
    written, twice: (1) resources that differ only in their dropped-attributes count are merged
    (CmpResourceSpans does not look at it) ... -/
def mergeWitness : Traces :=
  { rss := [{ dropped := 0, scopes := [{ spans := [{ name := [97] }] }] },
            { dropped := 1, scopes := [{ spans := [{ name := [98] }] }] }] }

theorem sorted_same_multiset_false_merge :
    ∃ recs, tracesToStef true mergeWitness = some recs ∧
      ¬ recs.Perm ((flattenSpans mergeWitness).map (expected true)) := by
  refine ⟨_, rfl, ?_⟩
  decide

/-- ... (2) the sorting mode panics when two resources with the same keys hold a double (bytes, map)
    attribute value: otlptools.CmpVal has no case for these kinds. -/
def panicWitness : Traces :=
  { rss := [{ attrs := .cons [107] (.dbl 0x3ff0000000000000) .nil }, { attrs := .cons [107] (.dbl 0x4000000000000000) .nil }] }

theorem sorted_mode_panics : tracesToStef true panicWitness = none := by decide

/-- Sorting mode, for every batch in which the sorting mode only merges resources and scopes
    that a record cannot tell apart (`ResMergeOK`, `ScopeMergeOK`: equal under the comparison implies
    equal url/attributes/dropped count): whenever the converter returns, the records are a
    permutation of the records of the spans (span attributes in key order). -/
theorem sorted_same_multiset (t : Traces) (recs : List SpanRecord)
    (hr : ResMergeOK t) (hs : ScopeMergeOK t) (h : tracesToStef true t = some recs) :
    recs.Perm ((flattenSpans t).map (expected true)) := by
  simp only [tracesToStef, if_true] at h
  split at h
  · simp at h
  · rename_i t' ht
    simp at h; subst h
    rw [tracesToStef_records true t']
    have p := sortTraces_triples t t' hr hs ht
    show ((flattenSpans t').map fun x => expectedRecord x.1 x.2.1 x.2.2 true).Perm
      ((flattenSpans t).map fun x => expectedRecord x.1 x.2.1 x.2.2 true)
    rw [flattenSpans_expected, flattenSpans_expected, expected_via_triples, expected_via_triples]
    exact List.Perm.map _ p

/-! ### non-vacuity -/

/-- a batch with a repeated resource that the sorting mode merges, spans with differing numbers of
    events and links, a nested map of three entries (one of them a -0.0 double) and a nested array -/
def sample : Traces :=
  let res : ResourceSpans := { url := [117], dropped := 3, attrs := .cons [107] (.str [118]) .nil }
  let id16 := List.replicate 16 7
  let id8 := List.replicate 8 9
  let sp1 : Span :=
    { traceID := id16, spanID := id8, parent := List.replicate 8 0, name := [97],
      attrs := .cons [122] (.map (.cons [120] (.dbl negZero) (.cons [121] (.int 2) (.cons [119] .empty .nil)))) (.cons [97] (.slice (.cons (.int 1) (.cons .empty .nil))) .nil),
      events := [{ name := [101] }, { name := [102], attrs := .cons [107] (.bool true) .nil }],
      links := [{ traceID := id16, spanID := id8 }] }
  let sp2 : Span := { traceID := id16, spanID := id8, parent := id8, name := [98], events := [{ name := [103] }] }
  let sp3 : Span := { traceID := id16, spanID := id8, parent := id8 }
  let sp4 : Span := { traceID := id16, spanID := id8, parent := id8, name := [99] }
  { rss := [{ res with scopes := [{ name := [115], spans := [sp1, sp2] }] },
            { url := [118], scopes := [{ spans := [sp3] }] },
            { res with scopes := [{ name := [115], spans := [sp4] }] }] }

example : (flattenSpans sample).length = 4 ∧
    tracesToStef false sample = some ((flattenSpans sample).map (expected false)) :=
  ⟨by decide, span_content sample⟩

/-- the hypotheses of `sorted_same_multiset` hold for `sample`, the sorting mode returns, and it does
    reorder and merge (its output differs from the plain mode's) -/
example : ResMergeOK sample ∧ ScopeMergeOK sample ∧ (∃ recs, tracesToStef true sample = some recs) ∧
    tracesToStef true sample ≠ tracesToStef false sample := by
  refine ⟨?_, ?_, ⟨_, rfl⟩, by decide⟩
  · unfold ResMergeOK; decide
  · unfold ScopeMergeOK; decide

example : idOk 16 (List.replicate 16 7) = true ∧ idText (List.replicate 8 0) = [] := by decide

end Stef.Props.C18
