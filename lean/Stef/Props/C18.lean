/-
  C18 - Every OTLP span becomes exactly one STEF record with all its content.
  Property theorems only (helper lemmas: Stef/Proofs/Otlp*.lean). The model is
  Stef/Otlp/Traces.lean: `tracesToStef sorted t` = the logical value of the record at every
  `Write()` of go/pdata/traces.OtlpToStefUnsorted{Sorted: sorted}.Convert (total since repo commit
  679d5d5: otlptools.CmpVal no longer panics).
-/
import Stef.Proofs.OtlpTracesSort

namespace Stef.Props.C18
open Stef.Otlp

/-- the record the property asks for, for a span with its resource and scope: every field
    unchanged, ids as the converter stores them (`idText`: hex text, empty for the zero id),
    span attributes in key order in the sorting mode. -/
def expected (sortedAttrs : Bool) (x : ResourceSpans × ScopeSpans × Span) : SpanRecord :=
  expectedRecord x.1 x.2.1 x.2.2 sortedAttrs

/-- One record per span, in both modes, for every batch (no side condition). -/
theorem one_record_per_span (sorted : Bool) (t : Traces) :
    (tracesToStef sorted t).length = (flattenSpans t).length := by
  cases sorted
  · simp [tracesToStef, writeResourceSpans_len, flattenSpans_length]
  · simp [tracesToStef, writeResourceSpans_len, flattenSpans_length, sortTraces_count t]

/-- Content, plain mode, FULL statement (every batch, no side condition): the records are exactly the
    spans in document order, each with its resource, scope, ids (as `idText`), name, kind, times,
    trace state, flags, attributes (including nested arrays and maps of any size),
    dropped-attributes counts, status, events and links. -/
theorem span_content (t : Traces) : tracesToStef false t = (flattenSpans t).map (expected false) := by
  simp only [tracesToStef, Bool.false_eq_true, if_false]
  rw [tracesToStef_records false t]
  rfl

/-- Content, sorting mode (every batch): the records are exactly the spans of the sorted and merged
    batch (`sortTraces`), with span attributes in key order. -/
theorem span_content_sorted (t : Traces) :
    tracesToStef true t = (flattenSpans (sortTraces t)).map (expected true) := by
  simp only [tracesToStef, if_true]
  rw [tracesToStef_records true (sortTraces t)]
  rfl

/-- The record has no place for Span.DroppedEventsCount / DroppedLinksCount: batches that differ
    only there give the same records (finding span-dropped-events-links-count-lost). -/
theorem dropped_event_link_counts_lost :
    ∃ t₁ t₂ : Traces, t₁ ≠ t₂ ∧ tracesToStef false t₁ = tracesToStef false t₂ :=
  ⟨{ rss := [{ scopes := [{ spans := [{ droppedEvents := 1, droppedLinks := 2 }] }] }] },
   { rss := [{ scopes := [{ spans := [{}] }] }] }, by decide, by decide⟩

/-- ids: the stored text determines the id (a reader recovers trace and span ids exactly). -/
theorem id_text_injective (n : Nat) (a b : Str) (ha : idOk n a = true) (hb : idOk n b = true)
    (h : idText a = idText b) : a = b :=
  idText_inj n a b ha hb h

/-- The sorting mode merges exactly the resources and scopes a record cannot tell apart: its
    comparison functions return 0 only for equal url / name / version / attributes / dropped count
    (since repo commit 679d5d5: CmpVal compares every kind, the dropped-attributes count is compared;
    before it resources differing only in that count were merged, and double / bytes / map values
    made the sort panic). `b64`: the numbers in the attributes are 64-bit patterns. -/
theorem merge_only_equal_resources (x y : ResourceSpans) (hx : x.attrs.b64 = true) (hy : y.attrs.b64 = true)
    (h : cmpResourceSpans x y = 0) : x.url = y.url ∧ x.attrs = y.attrs ∧ x.dropped = y.dropped := by
  have := cmpResourceSpans_faithful x y hx hy h
  simpa [rKey] using this

theorem merge_only_equal_scopes (x y : ScopeSpans) (hx : x.attrs.b64 = true) (hy : y.attrs.b64 = true)
    (h : cmpScopeSpans x y = 0) :
    x.name = y.name ∧ x.ver = y.ver ∧ x.url = y.url ∧ x.attrs = y.attrs ∧ x.dropped = y.dropped := by
  have := cmpScopeSpans_faithful x y hx hy h
  simpa [sKey] using this

/-- Sorting mode, FULL statement: for every batch (whose resource and scope attribute numbers are
    64-bit patterns - `keysB64`, a typing condition of the model, not an exclusion) the records are a
    permutation of the records of the spans (span attributes in key order). -/
theorem sorted_same_multiset (t : Traces) (hb : t.keysB64 = true) :
    (tracesToStef true t).Perm ((flattenSpans t).map (expected true)) := by
  rw [span_content_sorted]
  have p := sortTraces_triples t hb
  show ((flattenSpans (sortTraces t)).map fun x => expectedRecord x.1 x.2.1 x.2.2 true).Perm
    ((flattenSpans t).map fun x => expectedRecord x.1 x.2.1 x.2.2 true)
  rw [flattenSpans_expected, flattenSpans_expected, expected_via_triples, expected_via_triples]
  exact List.Perm.map _ p

/-! ### non-vacuity -/

/-- a batch with a repeated resource that the sorting mode merges, spans with differing numbers of
    events and links, a nested map of three entries (one of them a -0.0 double) and a nested array -/
def sample : Traces :=
  let res : ResourceSpans := { url := [117], dropped := 3, attrs := .cons [107] (.str [118]) .nil }
  let id16 := List.replicate 16 7
  let id8 := List.replicate 8 9
  let sp1 : Span :=
    { traceID := id16, spanID := id8, parent := List.replicate 8 0, name := [97],
      attrs := .cons [122] (.map (.cons [120] (.dbl negZero) (.cons [121] (.int 2) (.cons [119] .empty .nil)))) (.cons [97] (.slice (.cons (.int 1) (.cons .empty .nil))) .nil),
      events := [{ name := [101] }, { name := [102], attrs := .cons [107] (.bool true) .nil }],
      links := [{ traceID := id16, spanID := id8 }] }
  let sp2 : Span := { traceID := id16, spanID := id8, parent := id8, name := [98], events := [{ name := [103] }] }
  let sp3 : Span := { traceID := id16, spanID := id8, parent := id8 }
  let sp4 : Span := { traceID := id16, spanID := id8, parent := id8, name := [99] }
  { rss := [{ res with scopes := [{ name := [115], spans := [sp1, sp2] }] },
            { url := [118], scopes := [{ spans := [sp3] }] },
            { res with scopes := [{ name := [115], spans := [sp4] }] }] }

example : (flattenSpans sample).length = 4 ∧
    tracesToStef false sample = (flattenSpans sample).map (expected false) :=
  ⟨by decide, span_content sample⟩

/-- `sample` satisfies the typing condition, and the sorting mode does reorder and merge on it (its
    output differs from the plain mode's, the two equal resources become one) -/
example : sample.keysB64 = true ∧ tracesToStef true sample ≠ tracesToStef false sample ∧
    (sortTraces sample).rss.length = 2 := by decide

/-- resources that differ only in their dropped-attributes count, or in a double attribute value,
    are kept apart (they were merged / made the sort panic before 679d5d5) -/
example :
    let t : Traces := { rss := [{ dropped := 0, attrs := .cons [107] (.dbl 0x3ff0000000000000) .nil, scopes := [{ spans := [{ name := [97] }] }] },
                                { dropped := 1, attrs := .cons [107] (.dbl 0x3ff0000000000000) .nil, scopes := [{ spans := [{ name := [98] }] }] },
                                { dropped := 0, attrs := .cons [107] (.dbl 0x4000000000000000) .nil, scopes := [{ spans := [{ name := [99] }] }] }] }
    (sortTraces t).rss.length = 3 := by decide

example : idOk 16 (List.replicate 16 7) = true ∧ idText (List.replicate 8 0) = [] := by decide

end Stef.Props.C18
