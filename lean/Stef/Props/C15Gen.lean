/-
  C15 (regenerated) - the chunk transport theorems of Props/C15.lean restated for the functions that
  /verif/extract translates from the CURRENT Go source (Stef/Gen/ChunkFlow.lean, generator ChunkFlow):
  `read` / `run` (chunkAssembler.Read over chunkAssembler.recvMsg over grpcChunkSource.recvMsg),
  `writeChunk` / `writeAll` (grpcWriter.WriteChunk), `newChunkAssembler` and the fact
  `streamFreshAssembler`. They are corollaries of Proofs/ChunkGen (regenerated = hand model
  Stef/Chunk.lean, on every state) and Props/C15.

  A wire message is `Wire` (`StefBytes` nil or not, `IsEndOfChunk`); `toMsg` forgets the nil / non-nil
  distinction, which the theorems show to be irrelevant. A consumer is a list of buffers `ps`
  (any lengths, nil allowed, any previous content); what it gets from a `Read` is `p[:n]`.
-/
import Stef.Proofs.ChunkGen
import Stef.Props.C15

namespace Stef.Props.C15Gen
open Stef Stef.Chunk Stef.ChunkFlowSem Stef.Proofs.ChunkGen

/-- the regenerated functions ARE the hand model (restated from Proofs/ChunkGen): one `Read` ... -/
theorem gen_read_is_hand_model (g : AsmG) (p : Sl) :
    (Gen.ChunkFlow.read g p).fine = true ∧
    (abs (Gen.ChunkFlow.read g p).g,
      if (Gen.ChunkFlow.read g p).err then none else some (Gen.ChunkFlow.read g p).out) = (abs g).read p.len :=
  ⟨(read_eq g p).1, (read_eq g p).2.1⟩

/-- ... a whole run of `Read` calls ... -/
theorem gen_run_is_hand_model (g : AsmG) (ps : List Sl) :
    (Gen.ChunkFlow.run g ps).1 = ((abs g).run (ps.map Sl.len)).1 ∧
    abs (Gen.ChunkFlow.run g ps).2.1 = ((abs g).run (ps.map Sl.len)).2.1 ∧
    (Gen.ChunkFlow.run g ps).2.2 = ((abs g).run (ps.map Sl.len)).2.2 := run_eq g ps

/-- ... and `WriteChunk`: one message `header ++ content` flagged end of chunk per successful call. -/
theorem gen_writeChunk_is_hand_model (w : Wr) (h c : Sl) :
    (Gen.ChunkFlow.writeChunk w h c).2.2 = true ∧ (Gen.ChunkFlow.writeChunk w h c).2.1 = w.sendFails ∧
    (Gen.ChunkFlow.writeChunk w h c).1.sent.map toMsg =
      w.sent.map toMsg ++ (if w.sendFails then [] else [Chunk.writeChunk (h.getD []) (c.getD [])]) :=
  ⟨(writeChunk_eq w h c).1, (writeChunk_eq w h c).2.1, (writeChunk_eq w h c).2.2.2⟩

/-- `Read` never panics (no slice out of range), never leaves `statsMux` locked, never writes the
    statistics without it, its loop ends, it returns `n ≤ len(p)` and leaves the caller's buffer its
    length - from EVERY assembler state, reachable or not. -/
theorem gen_read_safe (g : AsmG) (p : Sl) :
    (Gen.ChunkFlow.read g p).fine = true ∧ (Gen.ChunkFlow.read g p).n ≤ p.len ∧
    (Gen.ChunkFlow.read g p).p.len = p.len := by
  obtain ⟨h1, _, h3, h4, _⟩ := read_eq g p
  refine ⟨h1, ?_, h4⟩
  rw [h3, ← h4]
  simp [ReadResult.out, Sl.len]
  omega

/-- a stream as `StreamServer.Stream` sets it up (regenerated facts): a new assembler over a new
    source is the hand model's initial assembler. -/
theorem gen_fresh_per_stream (ws : List Wire) :
    Gen.ChunkFlow.streamFreshAssembler = true ∧
    abs (Gen.ChunkFlow.newChunkAssembler { stream := ws }) = { src := ws.map toMsg } := ⟨rfl, rfl⟩

/-- **bytes_unchanged** for the regenerated transport: for every sequence of wire messages (any
    splitting, empty and nil messages included) and every sequence of caller buffers, the bytes handed
    out so far followed by what the assembler still owes equal the concatenation of all complete
    chunks; once the stream has ended (the read that returns the error) exactly that concatenation
    has been handed out. -/
theorem gen_bytes_unchanged (ws : List Wire) (ps : List Sl) :
    let r := Gen.ChunkFlow.run (Gen.ChunkFlow.newChunkAssembler { stream := ws }) ps
    r.1.flatten ++ (abs r.2.1).owed = (chunks (ws.map toMsg)).flatten ∧
    (r.2.2 = true → r.1.flatten = (chunks (ws.map toMsg)).flatten) := by
  obtain ⟨h1, h2, h3⟩ := run_eq (Gen.ChunkFlow.newChunkAssembler { stream := ws }) ps
  have h := C15.bytes_unchanged (ws.map toMsg) (ps.map Sl.len)
  simp only [(gen_fresh_per_stream ws).2] at h1 h2 h3
  simp only [h1, h2, h3]
  exact h

/-- **gen_drain_delivers_everything**: the liveness statement of Props/C15 for the regenerated
    `chunkAssembler.Read`: a consumer that keeps calling Read with a non-empty buffer `p` reaches the
    end of the stream after at most `bytes + messages + 1` calls and has then been handed exactly the
    concatenation of all complete chunks. -/
theorem gen_drain_delivers_everything (ws : List Wire) (p : Sl) (hp : 0 < p.len) :
    let N := msgBytes (ws.map toMsg) + (ws.map toMsg).length + 1
    let r := Gen.ChunkFlow.run (Gen.ChunkFlow.newChunkAssembler { stream := ws }) (List.replicate N p)
    r.2.2 = true ∧ r.1.flatten = (chunks (ws.map toMsg)).flatten := by
  intro N r
  obtain ⟨h1, _, h3⟩ := run_eq (Gen.ChunkFlow.newChunkAssembler { stream := ws }) (List.replicate N p)
  have h := C15.drain_delivers_everything (ws.map toMsg) p.len hp
  simp only [(gen_fresh_per_stream ws).2, List.map_replicate] at h1 h3
  simp only [r, N, h1, h3]
  exact h

/-- the delivered bytes are always a prefix of the concatenation of the complete chunks. -/
theorem gen_delivered_is_prefix (ws : List Wire) (ps : List Sl) :
    (Gen.ChunkFlow.run (Gen.ChunkFlow.newChunkAssembler { stream := ws }) ps).1.flatten
      <+: (chunks (ws.map toMsg)).flatten :=
  ⟨_, (gen_bytes_unchanged ws ps).1⟩

/-- **chunk_aligned** for the regenerated transport: in an error-free run the stream has been
    consumed up to a chunk boundary, and what was handed out plus the unread rest of the buffer is
    exactly the content of the chunks whose end-of-chunk message has been consumed. -/
theorem gen_chunk_aligned (ws : List Wire) (ps : List Sl) :
    let r := Gen.ChunkFlow.run (Gen.ChunkFlow.newChunkAssembler { stream := ws }) ps
    r.2.2 = false →
    ∃ pre, ws.map toMsg = pre ++ (abs r.2.1).src ∧ Boundary pre ∧
      r.1.flatten ++ (abs r.2.1).buf.drop (abs r.2.1).readIndex = (chunks pre).flatten := by
  obtain ⟨h1, h2, h3⟩ := run_eq (Gen.ChunkFlow.newChunkAssembler { stream := ws }) ps
  have h := C15.chunk_aligned (ws.map toMsg) (ps.map Sl.len)
  simp only [(gen_fresh_per_stream ws).2] at h1 h2 h3
  simp only [h1, h2, h3]
  exact h

/-- **writer_one_message_per_chunk** for the regenerated `WriteChunk`: a producer whose sends all
    succeed leaves on the wire exactly one message per chunk, and the chunk list the assembler
    sees is the list written. -/
theorem gen_writer_one_message_per_chunk (cs : List (Sl × Sl)) :
    (Gen.ChunkFlow.writeAll {} cs).sent.length = cs.length ∧
    chunks ((Gen.ChunkFlow.writeAll {} cs).sent.map toMsg) = cs.map (fun c => c.1.getD [] ++ c.2.getD []) := by
  have h := writeAll_eq {} rfl cs
  constructor
  · have := congrArg List.length h
    simpa using this
  · rw [h]
    have := C15.writer_one_message_per_chunk (cs.map (fun c => (c.1.getD [], c.2.getD [])))
    simpa [List.map_map, Function.comp_def] using this

/-- **end to end** (regenerated writer -> FIFO stream -> regenerated assembler): whatever buffers the
    consumer reads with, it receives a prefix of the concatenation of the chunks written, and all of
    it once the stream has ended. -/
theorem gen_end_to_end (cs : List (Sl × Sl)) (ps : List Sl) :
    let r := Gen.ChunkFlow.run (Gen.ChunkFlow.newChunkAssembler { stream := (Gen.ChunkFlow.writeAll {} cs).sent }) ps
    r.1.flatten <+: (cs.map (fun c => c.1.getD [] ++ c.2.getD [])).flatten ∧
    (r.2.2 = true → r.1.flatten = (cs.map (fun c => c.1.getD [] ++ c.2.getD [])).flatten) := by
  have h := gen_bytes_unchanged (Gen.ChunkFlow.writeAll {} cs).sent ps
  rw [(gen_writer_one_message_per_chunk cs).2] at h
  exact ⟨⟨_, h.1⟩, h.2⟩

/-- closed facts about the regenerated `WriteChunk`: one `Send` per call, no loop, and the message
    is built in the request's own buffer (`x[:0]`, `append(x, ..)`) - a caller's slice is never
    handed to gRPC. -/
theorem gen_writer_shape :
    Gen.ChunkFlow.writeChunkBody.sends = 1 ∧ Gen.ChunkFlow.writeChunkBody.hasLoop = false ∧
    Gen.ChunkFlow.writeChunkBody.ownsRequestBuffer = true := writeChunk_shape

/-- the source counts the messages it hands out: `messagesReceived + len(stream)` is invariant
    under `grpcChunkSource.recvMsg`. -/
theorem gen_source_counts (r : Src) :
    (Gen.ChunkFlow.srcRecvMsg r).1.messagesReceived + (Gen.ChunkFlow.srcRecvMsg r).1.stream.length
      = r.messagesReceived + r.stream.length := by
  rw [srcRecvMsg_eq]
  rcases r with ⟨st, k⟩
  cases st <;> simp [recvOne]
  omega

-- non-vacuity: two chunks over three wire messages (one nil, one split), read with buffers of
-- lengths 1, 2, 8, 8 (dirty) and drained.
example :
    let ws : List Wire := [⟨some [1#8, 2#8], false⟩, ⟨some [3#8], true⟩, ⟨none, true⟩, ⟨some [4#8], true⟩]
    let dirty : Sl := some (List.replicate 8 0xff#8)
    let r := Gen.ChunkFlow.run (Gen.ChunkFlow.newChunkAssembler { stream := ws })
      [some [0#8], some [0#8, 0#8], dirty, dirty, dirty, dirty]
    r.1.flatten = [1#8, 2#8, 3#8, 4#8] ∧ r.2.2 = true ∧ r.2.1.source.messagesReceived = 4 ∧
    Gen.ChunkFlow.stats r.2.1 = (3, 4) := by decide

-- the regenerated writer feeding the regenerated assembler
example :
    let w := Gen.ChunkFlow.writeAll {} [(some [1#8], some [2#8, 3#8]), (none, some [4#8])]
    w.sent = [⟨some [1#8, 2#8, 3#8], true⟩, ⟨some [4#8], true⟩] ∧
    (Gen.ChunkFlow.run (Gen.ChunkFlow.newChunkAssembler { stream := w.sent })
      [some [0#8, 0#8], some [0#8, 0#8], some [0#8, 0#8]]).1 = [[1#8, 2#8], [3#8], [4#8]] := by decide

-- a failing Send: an error, nothing on the wire
example : (Gen.ChunkFlow.writeChunk { sendFails := true } (some [1#8]) none).2.1 = true ∧
    (Gen.ChunkFlow.writeChunk { sendFails := true } (some [1#8]) none).1.sent = [] := by decide

end Stef.Props.C15Gen
