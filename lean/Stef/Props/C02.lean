/-
  C02 - Emitted bytes are the STEF wire format of the specification, and stay so.

  The independent decoder is `Stef.Spec.decodeStream` (generic in the schema, written from
  stef-spec/specification.md + the implementation notes of DESIGN.md appendix D, sharing no code
  with the library). The tie to the Go writer is the h_codec correspondence: every stream the real
  writer emits for generated histories is decoded by `decodeStream`, and the result must equal
  the records that were set (and a golden corpus recorded at the pinned commit must keep decoding).
  Proved here for all inputs: the layout lemmas relating the framing the model reader parses
  to the specification's parser, and the dictionary-reference rule of the string codec.

  The decoder also COUNTS the specification violations that do not stop decoding
  (`Decoded.dictViolations`, printed as `dv=` by the driver; the harness expects 0): direct string
  encodings of a value already in its dictionary, and values-only multimap encodings against a
  previous value of more than 62 pairs (specification, MultiMap codec: "Value-only encoding can be
  used if the number of key-value pairs in the MultiMap is less than or equal to 62 ... more than 62
  key-value pairs then Full MultiMap Encoding is always used"). `values_only_over_62_is_violation`
  states the second rule at the node level for every schema / node / state;
  `specenc_values_only_within_62` and `specenc_stream_counts_nothing` say that the proved encoder
  (Stef/SpecEnc.lean) never produces such an encoding.
-/
import Stef.Proofs.Reader
import Stef.Proofs.Codec
import Stef.Spec
import Stef.Proofs.SpecViolations
import Stef.Proofs.SpecEncStream

namespace Stef.Props.C02
open Stef

theorem needVar_encodeNat (n : Nat) (rest : Bytes) (hn : n < 2 ^ 64) :
    Spec.needVar (Varint.encodeNat n ++ rest) = .ok (n, rest) := by
  unfold Spec.needVar Varint.decode
  rw [Varint.decodeAux_encodeNat n 0 0 0 rest (by omega) (by simpa using hn)]
  simp
  omega

/-- **fixed header layout**: "STEF", content size 2, version/type byte 0, flags byte with the
    compression method: what the writer emits is what the specification parser accepts. -/
theorem fixed_header_layout (rest : Bytes) :
    Spec.readFixedHeader (Reader.fixedHeaderBytes ++ rest) = .ok (0, rest) := by
  rfl

/-- **frame layout**: flags byte, U64 size, content - one well-formed frame of the model writer is
    parsed back by the specification parser with the same flags and content. -/
theorem frame_layout (f : Reader.FrameSpec) (rest : Bytes) (hwf : f.Wf) (fuel : Nat) :
    ∃ content, content = Varint.encodeNat f.nrec ++ f.body ∧
      Spec.readFrames (fuel + 1) (Reader.encFrame f ++ rest) [] =
        Spec.readFrames fuel rest [{ flags := f.flags, content := content }] := by
  obtain ⟨hfl, hn, hsz⟩ := hwf
  refine ⟨_, rfl, ?_⟩
  have hflag : (BitVec.ofNat 8 f.flags).toNat = f.flags := by
    simp only [BitVec.toNat_ofNat]
    have : Gen.frameFlagsMask = 7 := rfl
    omega
  have hlim : Gen.frameSizeLimit = 67108864 := rfl
  unfold Reader.encFrame
  simp only [List.cons_append, List.nil_append, List.append_assoc, Spec.readFrames, hflag]
  have h7 : ¬ f.flags > 7 := by have : Gen.frameFlagsMask = 7 := rfl; omega
  simp only [h7, ↓reduceIte, pure_bind]
  rw [needVar_encodeNat _ _ (by omega)]
  simp only [bind, Except.bind]
  have hsz' : ¬ (Varint.encodeNat f.nrec ++ f.body).length > 67108864 := by omega
  simp only [hsz', ↓reduceIte, pure, Except.pure]
  have htake : Spec.needTake (Varint.encodeNat f.nrec ++ f.body).length
      (Varint.encodeNat f.nrec ++ (f.body ++ rest)) = .ok (Varint.encodeNat f.nrec ++ f.body, rest) := by
    have : ∀ (a rest acc : Bytes), Spec.takeBytes a.length (a ++ rest) acc = some (acc.reverse ++ a, rest) := by
      intro a
      induction a with
      | nil => intro rest acc; simp [Spec.takeBytes]
      | cons x a ih => intro rest acc; simp [Spec.takeBytes, ih]
    unfold Spec.needTake
    rw [← List.append_assoc, this]
    simp
  rw [htake]

/-- a string or bytes value that is present in its dictionary is always written as a
    reference, never again in full (writer side of the dictionary string codec). -/
theorem dict_ref_always (d : List Bytes) (v : Bytes) (h : v ∈ d) :
    ∃ i, (Codec.strDictEncode d v).2.1 = Varint.encodeSigned (0#64 - BitVec.ofNat 64 i - 1#64) ∧
      d[i]? = some v := Codec.strDict_ref_when_present d v h

/-- dictionary admission at length ≥ 2 exactly (and only for values not yet present). -/
theorem dict_admission (d : List Bytes) (v : Bytes) (h : v ∉ d) :
    (Codec.strDictEncode d v).1 = (if v.length > 1 then d ++ [v] else d) := by
  unfold Codec.strDictEncode Codec.WDict.find
  have : List.findIdx? (fun x => decide (x = v)) d = none := by
    rw [List.findIdx?_eq_none_iff]
    intro x hx
    simp
    intro hxv; subst hxv; exact h hx
  rw [this]
  simp only
  split <;> rfl

/-! ## values-only multimap encodings of more than 62 pairs -/

/-- the pairs of the previous value that the multimap decoder walks (anything that is not a
    multimap counts as empty, as in `Spec.decodeNode`) -/
def prevPairs : Spec.St → List (Spec.St × Spec.St)
  | .mmap ps => ps
  | _ => []

/-- **values_only_over_62_is_violation**: a multimap node whose header is a values-only header (a
    non-zero even number `x`; `x >>> 1` is the mask of the changed values) is decoded against the
    previous value `cur`. If `cur` has MORE than 62 pairs, the header itself counts one
    specification violation: the values are decoded from a state whose counter is one higher, and
    the counter of the final state is at least one higher than before the node (it never decreases
    afterwards, `Proofs/SpecViolations.lean`). If `cur` has AT MOST 62 pairs the header counts
    nothing: the result is exactly the result of decoding the values from the header-consumed
    state. Decoding continues in both cases (same values). Every schema, environment, column
    state, fuel. -/
theorem values_only_over_62_is_violation (σ : Spec.Schema) (fuel : Nat) (env : List (String × Spec.Node))
    (col : Nat) (name : String) (kty vty : Spec.Ty) (k v : Spec.Node) (cur : Spec.St) (ds : Spec.DS)
    (x : Word) (rest : Bytes) (val : Spec.St) (ds' : Spec.DS)
    (hx : Varint.decode (ds.col col).bytes = some (x, rest)) (h0 : x ≠ 0#64) (hl : x.getLsbD 0 = false)
    (h : Spec.decodeNode σ (fuel + 1) env (.mmap col name kty vty k v) cur ds = .ok (val, ds')) :
    (62 < (prevPairs cur).length →
      (∃ ps, Spec.decodeValuesOnly σ fuel ((name, Spec.Node.mmap col name kty vty k v) :: env) v (x >>> 1).toNat 0
          (prevPairs cur)
          { ds.setCol col { ds.col col with bytes := rest } with dictViolations := ds.dictViolations + 1 } = .ok (ps, ds') ∧
        val = .mmap ps) ∧
      ds.dictViolations + 1 ≤ ds'.dictViolations) ∧
    ((prevPairs cur).length ≤ 62 →
      ∃ ps, Spec.decodeValuesOnly σ fuel ((name, Spec.Node.mmap col name kty vty k v) :: env) v (x >>> 1).toNat 0
          (prevPairs cur) (ds.setCol col { ds.col col with bytes := rest }) = .ok (ps, ds') ∧
        val = .mmap ps) := by
  have hpp : Proofs.Forward.mmapPairs cur = prevPairs cur := by cases cur <;> rfl
  rw [Proofs.Forward.decodeNode_mmap, hpp] at h
  simp only [hx, Spec.needBytes, bind, Except.bind, h0, hl, if_false, Bool.false_eq_true] at h
  refine ⟨fun hgt => ?_, fun hle => ?_⟩
  · rw [if_pos hgt] at h
    split at h
    · cases h
    · rename_i r hr
      obtain ⟨ps, d1⟩ := r
      injection h with h; injection h with h1 h2; subst h1; subst h2
      exact ⟨⟨ps, hr, rfl⟩, Proofs.SpecViolations.decodeValuesOnly_dv_mono _ _ _ _ _ _ _ _ _ _ hr⟩
  · have hng : ¬ (prevPairs cur).length > 62 := by omega
    rw [if_neg hng] at h
    split at h
    · cases h
    · rename_i r hr
      obtain ⟨ps, d1⟩ := r
      injection h with h; injection h with h1 h2; subst h1; subst h2
      exact ⟨ps, hr, rfl⟩

/-! non-vacuity: a multimap of int64 keys and values (columns 0, 1, 2), header `2` (values-only,
    value 0 changed), one value byte; previous value of 63 pairs: one violation; of 62 pairs: none -/

namespace VO
def node : Spec.Node := .mmap 0 "M" (.prim .i64 none) (.prim .i64 none) (.prim 1 .i64 none) (.prim 2 .i64 none)
def prev (n : Nat) : Spec.St := .mmap (List.replicate n (.i 0#64, .i 0#64))
def ds : Spec.DS := { cols := #[{ bytes := [2#8] }, {}, { bytes := [2#8] }] }
def dvAfter (n : Nat) : Option Nat :=
  match Spec.decodeNode { defs := [] } 100 [] node (prev n) ds with
  | .ok (_, d) => some d.dictViolations
  | .error _ => none
end VO

example : VO.dvAfter 63 = some 1 ∧ VO.dvAfter 62 = some 0 :=
  ⟨by with_unfolding_all rfl, by with_unfolding_all rfl⟩

example : ∃ val ds', Spec.decodeNode { defs := [] } 100 [] VO.node (VO.prev 63) VO.ds = .ok (val, ds') ∧
    VO.ds.dictViolations + 1 ≤ ds'.dictViolations := by
  cases h : Spec.decodeNode { defs := [] } 100 [] VO.node (VO.prev 63) VO.ds with
  | error e =>
    have : VO.dvAfter 63 = some 1 := by with_unfolding_all rfl
    simp [VO.dvAfter, h] at this
  | ok r =>
    obtain ⟨val, ds'⟩ := r
    refine ⟨val, ds', rfl, ?_⟩
    exact ((values_only_over_62_is_violation { defs := [] } 99 [] 0 "M" _ _ _ _ (VO.prev 63) VO.ds 2#64 [] val ds'
      (by decide +kernel) (by decide) (by decide) h).1 (by simp [prevPairs, VO.prev])).2

/-- **specenc_values_only_within_62**: the proved encoder (Stef/SpecEnc.lean) writes the values-only
    form only against a previous value of at most 62 pairs (it returns `none` otherwise); the
    decoder reads the node back into the encoder's state, and the violation counter is unchanged. -/
theorem specenc_values_only_within_62 (σ : Spec.Schema) (fuel : Nat) (env : List (String × Spec.Node))
    (col : Nat) (name : String) (kty vty : Spec.Ty) (k v : Spec.Node) (cur new : Spec.St) (changed : Nat)
    (subs : List SpecEnc.Mk) (ds : Spec.DS) (evs : List SpecEnc.Ev) (ds' : Spec.DS) (eff : Spec.St)
    (h : SpecEnc.encodeNode σ fuel env (.mmap col name kty vty k v) cur new (.mmapVals changed subs) ds = some (evs, ds', eff)) :
    (prevPairs cur).length ≤ 62 ∧
    Spec.decodeNode σ fuel env (.mmap col name kty vty k v) cur (SpecEnc.feed evs ds) = .ok (eff, ds') ∧
    ds'.dictViolations = ds.dictViolations := by
  have hpp : SpecEnc.mmapPairs cur = prevPairs cur := by cases cur <;> rfl
  refine ⟨?_, ?_, ?_⟩
  · cases fuel with
    | zero => simp [SpecEnc.encodeNode] at h
    | succ fuel =>
      simp only [SpecEnc.encodeNode] at h
      split at h
      · split at h
        · split at h
          · rename_i hc
            rw [← hpp]
            exact hc.2.2
          · simp at h
        · simp at h
      · simp at h
  · have := (SpecEnc.roundtrip_all σ fuel).1 env _ cur new _ ds evs ds' eff [] h
    simpa using this
  · exact (SpecEnc.preserves_all (fun d => d.dictViolations = ds.dictViolations) (fun d i c hd => hd)
      (fun d a ha hd => by rw [← hd]; exact ha) σ fuel).1 env _ cur new _ ds evs ds' eff h rfl

/-- **specenc_stream_counts_nothing**: every stream the proved encoder produces is decoded by the
    specification decoder with the violation counter 0 - in particular without a values-only
    multimap encoding of more than 62 pairs (restatement of `C01Enc.stream_roundtrip`, third part,
    under the counter's present meaning). -/
theorem specenc_stream_counts_nothing (σ : Spec.Schema) (rootName : String) (ins : List SpecEnc.FrameIn) (bytes : Bytes)
    (effss : List (List Spec.St)) (h : SpecEnc.encodeStream σ rootName ins = some (bytes, effss)) :
    (Spec.decodeStream σ rootName bytes).dictViolations = 0 :=
  (SpecEnc.stream_roundtrip σ rootName ins bytes effss h).2.2

-- non-vacuity
example : Spec.readFixedHeader (Reader.fixedHeaderBytes ++ [7#8]) = .ok (0, [7#8]) := fixed_header_layout _

end Stef.Props.C02
