/-
  C02 - Emitted bytes are the STEF wire format of the specification, and stay so.

  The independent decoder is `Stef.Spec.decodeStream` (generic in the schema, written from
  stef-spec/specification.md + the implementation notes of DESIGN.md appendix D, sharing no code
  with the library). The tie to the Go writer is the h_codec correspondence: every stream the real
  writer emits for generated histories is decoded by `decodeStream`, and the result must equal
  the records that were set (and a golden corpus recorded at the pinned commit must keep decoding).
  Proved here for all inputs: the layout lemmas relating the framing the model reader parses
  to the specification's parser, and the dictionary-reference rule of the string codec.
-/
import Stef.Proofs.Reader
import Stef.Proofs.Codec
import Stef.Spec

namespace Stef.Props.C02
open Stef

theorem needVar_encodeNat (n : Nat) (rest : Bytes) (hn : n < 2 ^ 64) :
    Spec.needVar (Varint.encodeNat n ++ rest) = .ok (n, rest) := by
  unfold Spec.needVar Varint.decode
  rw [Varint.decodeAux_encodeNat n 0 0 0 rest (by omega) (by simpa using hn)]
  simp
  omega

/-- **fixed header layout**: "STEF", content size 2, version/type byte 0, flags byte with the
    compression method: what the writer emits is what the specification parser accepts. -/
theorem fixed_header_layout (rest : Bytes) :
    Spec.readFixedHeader (Reader.fixedHeaderBytes ++ rest) = .ok (0, rest) := by
  rfl

/-- **frame layout**: flags byte, U64 size, content - one well-formed frame of the model writer is
    parsed back by the specification parser with the same flags and content. -/
theorem frame_layout (f : Reader.FrameSpec) (rest : Bytes) (hwf : f.Wf) (fuel : Nat) :
    ∃ content, content = Varint.encodeNat f.nrec ++ f.body ∧
      Spec.readFrames (fuel + 1) (Reader.encFrame f ++ rest) [] =
        Spec.readFrames fuel rest [{ flags := f.flags, content := content }] := by
  obtain ⟨hfl, hn, hsz⟩ := hwf
  refine ⟨_, rfl, ?_⟩
  have hflag : (BitVec.ofNat 8 f.flags).toNat = f.flags := by
    simp only [BitVec.toNat_ofNat]
    have : Gen.frameFlagsMask = 7 := rfl
    omega
  have hlim : Gen.frameSizeLimit = 67108864 := rfl
  unfold Reader.encFrame
  simp only [List.cons_append, List.nil_append, List.append_assoc, Spec.readFrames, hflag]
  have h7 : ¬ f.flags > 7 := by have : Gen.frameFlagsMask = 7 := rfl; omega
  simp only [h7, ↓reduceIte, pure_bind]
  rw [needVar_encodeNat _ _ (by omega)]
  simp only [bind, Except.bind]
  have hsz' : ¬ (Varint.encodeNat f.nrec ++ f.body).length > 67108864 := by omega
  simp only [hsz', ↓reduceIte, pure, Except.pure]
  have htake : Spec.needTake (Varint.encodeNat f.nrec ++ f.body).length
      (Varint.encodeNat f.nrec ++ (f.body ++ rest)) = .ok (Varint.encodeNat f.nrec ++ f.body, rest) := by
    have : ∀ (a rest acc : Bytes), Spec.takeBytes a.length (a ++ rest) acc = some (acc.reverse ++ a, rest) := by
      intro a
      induction a with
      | nil => intro rest acc; simp [Spec.takeBytes]
      | cons x a ih => intro rest acc; simp [Spec.takeBytes, ih]
    unfold Spec.needTake
    rw [← List.append_assoc, this]
    simp
  rw [htake]

/-- a string or bytes value that is present in its dictionary is always written as a
    reference, never again in full (writer side of the dictionary string codec). -/
theorem dict_ref_always (d : List Bytes) (v : Bytes) (h : v ∈ d) :
    ∃ i, (Codec.strDictEncode d v).2.1 = Varint.encodeSigned (0#64 - BitVec.ofNat 64 i - 1#64) ∧
      d[i]? = some v := Codec.strDict_ref_when_present d v h

/-- dictionary admission at length ≥ 2 exactly (and only for values not yet present). -/
theorem dict_admission (d : List Bytes) (v : Bytes) (h : v ∉ d) :
    (Codec.strDictEncode d v).1 = (if v.length > 1 then d ++ [v] else d) := by
  unfold Codec.strDictEncode Codec.WDict.find
  have : List.findIdx? (fun x => decide (x = v)) d = none := by
    rw [List.findIdx?_eq_none_iff]
    intro x hx
    simp
    intro hxv; subst hxv; exact h hx
  rw [this]
  simp only
  split <;> rfl

-- non-vacuity
example : Spec.readFixedHeader (Reader.fixedHeaderBytes ++ [7#8]) = .ok (0, [7#8]) := fixed_header_layout _

end Stef.Props.C02
