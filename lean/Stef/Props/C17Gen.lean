/-
  C17 (regenerated) - the per-point part of the metrics converters, restated for the functions that
  /verif/extract translates from the CURRENT Go source (Stef/Gen/PointFlow.lean, generator PointFlow):

    go/pdata/metrics/internal/baseotlptostef.go   ConvertNumDatapoint, ConvertExemplars, ConvertHistogram,
                                                  ConvertExpHistogram (with expBucketsToStef), ConvertSummary,
                                                  AggregationTemporalityToStef
    go/pdata/metrics/internal/basesteftotolp.go   convertNumberPoint, convertExemplars, ConvertExemplar,
                                                  convertHistogramPoint, convertExpHistogramPoint (with
                                                  expBucketsFromStef), convertSumaryPoint (with
                                                  quantilesFromStef), aggregationTemporalityToOtlp

  They are corollaries of Proofs/PointFlowGen (regenerated = hand model Stef/Otlp/Metrics.lean, on every
  input and every state of the re-used destination) and of the lemmas under Props/C17
  (Proofs/OtlpMetricsWrite). `AppendOTLPPoint` is translated too (Gen.PointFlow.S2O.appendOTLPPoint); its
  switch over the metric type is repeated by hand in `genReadPoint` below, that the two agree is not proved.

  A "call" of a regenerated function is `(f refs.. args..).run heap`; `.res` reads its outcome:
  `none` = panic, `some none` = an error was returned, `some (some x)` = nil was returned and the written
  objects are `x`.
-/
import Stef.Proofs.PointFlowGen
import Stef.Props.C17

namespace Stef.Props.C17Gen
open Stef.Otlp Stef.PointFlowSem Stef.Gen.PointFlow Stef.Proofs.PointFlowGen

/-! ### the regenerated functions ARE the hand model -/

/-- ConvertNumDatapoint, on every source point and every previous content of the re-used `otelstef.Point`
    (the converter's `TempAttrs` are not touched): never a panic, an error exactly when the hand model has
    one, otherwise the same point. -/
theorem gen_convertNumDatapoint_is_hand_model (src : Point) (cv : Conv) (p : SPoint) (ms : List KVs) :
    ((O2S.convertNumDatapoint cL pL src).run ⟨(cv, p), ms⟩).res
      = some ((convNumber src p).toOption.map fun p' => (cv, p')) := convertNumDatapoint_eq src cv p ms

/-- ConvertHistogram: SetType / Histogram() / SetCount / Set- or Unset- Sum, Min, Max / the length check /
    CopyFromSlice, on every source point and every previous content of the re-used point (a previous
    histogram with optional fields present included). -/
theorem gen_convertHistogram_is_hand_model (src : Point) (cv : Conv) (p : SPoint) (ms : List KVs) :
    ((O2S.convertHistogram cL pL src).run ⟨(cv, p), ms⟩).res
      = some ((convHistogram src p).toOption.map fun p' => (cv, p')) := convertHistogram_eq src cv p ms

/-- ConvertExpHistogram (and expBucketsToStef, twice). -/
theorem gen_convertExpHistogram_is_hand_model (src : Point) (cv : Conv) (p : SPoint) (ms : List KVs) :
    ((O2S.convertExpHistogram cL pL src).run ⟨(cv, p), ms⟩).res
      = some ((convExpHistogram src p).toOption.map fun p' => (cv, p')) := convertExpHistogram_eq src cv p ms

/-- ConvertSummary, the quantile loop included (EnsureLen, then At(i).SetQuantile / SetValue for every i):
    it never fails and never panics (no index out of range). -/
theorem gen_convertSummary_is_hand_model (src : Point) (cv : Conv) (p : SPoint) (ms : List KVs) :
    ((O2S.convertSummary cL pL src).run ⟨(cv, p), ms⟩).res = some (some (cv, convSummary src p)) :=
  convertSummary_eq src cv p ms

/-- ConvertExemplars, the loop included: EnsureLen, then for every exemplar MapSorted into the scratch
    `TempAttrs`, CopyFrom it, ids, value - on every exemplar list, every previous content of the exemplar
    array (hidden elements included) and of the scratch attributes. No `At(i)` is out of range. -/
theorem gen_convertExemplars_is_hand_model (src : List Exemplar) (cv : Conv) (p : SPoint) (ms : List KVs) :
    ((O2S.convertExemplars cL (pL ⬝ OPoint.exemplars) src).run ⟨(cv, p), ms⟩).res
      = some ((convExemplars src cv.tempAttrs p).toOption.map fun r => (⟨r.1⟩, r.2)) :=
  convertExemplars_eq src cv p ms

/-- the two temporality conversions are the identity on 0, 1, 2 and an error elsewhere (`tempOk`). -/
theorem gen_temporality (t : Nat) (h : Heap Unit) :
    (O2S.aggregationTemporalityToStef t).run h
        = .ret (if t ≤ 2 then (t, none) else (0, some "unexpected aggregation temporality: %v")) h ∧
    (S2O.aggregationTemporalityToOtlp t).run h
        = .ret (if t ≤ 2 then (t, none) else (0, some "unexpected aggregation temporality %d")) h :=
  ⟨aggregationTemporalityToStef_eq t h, aggregationTemporalityToOtlp_eq t h⟩

/-- convertNumberPoint (with convertExemplars / ConvertExemplar under it) on a new data point that holds
    the attributes: what the hand model's `pointToOtlp` gives for a gauge or sum, for EVERY record point. -/
theorem gen_convertNumberPoint_is_hand_model (t : MType) (ht : t = .gauge ∨ t = .sum) (metric : SMetric) (src : SPoint)
    (attrs : SAttrs) (ms : List KVs) :
    ((S2O.convertNumberPoint src objL).run ⟨{ attrs := attrs.toOtlp }, ms⟩).res
      = some (pointToOtlp t metric attrs src).toOption := convertNumberPoint_eq t ht metric src attrs ms

/-- convertHistogramPoint: bucket counts from the Point (all of them, whatever the bounds), bounds from
    the Metric (all of them, whatever the buckets), optional sum / min / max, exemplars - for every record
    point whose value is a histogram or None. -/
theorem gen_convertHistogramPoint_is_hand_model (metric : SMetric) (src : SPoint) (attrs : SAttrs) (ms : List KVs)
    (hty : src.value = .none ∨ ∃ h, src.value = .hist h) :
    ((S2O.convertHistogramPoint metric src objL).run ⟨{ attrs := attrs.toOtlp }, ms⟩).res
      = some (pointToOtlp .hist metric attrs src).toOption := convertHistogramPoint_eq metric src attrs ms hty

/-- the type hypothesis is needed: the Go function does not look at the value type (other than None). On
    a record whose point value is, say, an int it returns nil and a point made of the blank histogram
    alternative, where the hand model answers "value-type-mismatch". The converters never write such a
    record; a hostile stream can hold one. -/
theorem gen_convertHistogramPoint_ignores_value_type (metric : SMetric) (ms : List KVs) :
    ((S2O.convertHistogramPoint metric { value := .int 7 } objL).run ⟨{}, ms⟩).res
        = some (some { bounds := metric.bounds }) ∧
      (pointToOtlp .hist metric {} { value := .int 7 }).toOption = none :=
  convertHistogramPoint_type_mismatch metric ms

example : (SPoint.value { value := .hist { count := 3, sum := some 5, buckets := [1, 2] } } = .none ∨
    ∃ h, SPoint.value { value := .hist { count := 3, sum := some 5, buckets := [1, 2] } } = .hist h) := .inr ⟨_, rfl⟩

theorem gen_convertExpHistogramPoint_is_hand_model (metric : SMetric) (src : SPoint) (attrs : SAttrs) (ms : List KVs)
    (hty : src.value = .none ∨ ∃ e, src.value = .exp e) :
    ((S2O.convertExpHistogramPoint src objL).run ⟨{ attrs := attrs.toOtlp }, ms⟩).res
      = some (pointToOtlp .exp metric attrs src).toOption := convertExpHistogramPoint_eq metric src attrs ms hty

theorem gen_convertSumaryPoint_is_hand_model (metric : SMetric) (src : SPoint) (attrs : SAttrs) (ms : List KVs)
    (hty : src.value = .none ∨ ∃ s, src.value = .summary s) :
    ((S2O.convertSumaryPoint src objL).run ⟨{ attrs := attrs.toOtlp }, ms⟩).res
      = some (pointToOtlp .summary metric attrs src).toOption := convertSumaryPoint_eq metric src attrs ms hty

/-- ConvertExemplar into the element `AppendEmpty()` has just made: ids of length 0 are left empty, of
    length 16 / 8 converted (no panic in the slice-to-array conversion), any other length is an error; the
    attributes go through a new map. -/
theorem gen_convertExemplar_is_hand_model (src : SExemplar) (p : Point) (exs : List Exemplar) (ms : List KVs)
    (hp : p.exemplars = exs ++ [PExemplarSlice.dflt]) :
    (∀ e', exemplarToOtlp src = .ok e' →
      (S2O.convertExemplar src (xL exs.length)).run ⟨p, ms⟩ = .ret none ⟨{ p with exemplars := exs ++ [e'] }, ms ++ [.nil]⟩) ∧
    (∀ x, exemplarToOtlp src = .error x →
      ∃ m h', (S2O.convertExemplar src (xL exs.length)).run ⟨p, ms⟩ = .ret (some m) h') :=
  convertExemplar_run src p exs ms hp

/-! ### one data point through the regenerated functions, both ways -/

/-- what the unsorted writer's two calls for one data point - `ConvertX(point, src)` then
    `ConvertExemplars(point.Exemplars(), src.Exemplars())` - leave in the re-used point and in `TempAttrs`
    (`none`: an error or a panic). -/
def genWritePoint (conv : Ref WS Conv → Ref WS SPoint → Point → M WS Err Unit) (p : Point) (tmp : SAttrs) (old : SPoint) :
    Option (SAttrs × SPoint) :=
  match ((conv cL pL p).run ⟨(⟨tmp⟩, old), []⟩).res with
  | some (some (cv, pt)) =>
    match ((O2S.convertExemplars cL (pL ⬝ OPoint.exemplars) p.exemplars).run ⟨(cv, pt), []⟩).res with
    | some (some (cv', pt')) => some (cv'.tempAttrs, pt')
    | _ => none
  | _ => none

/-- the data point the reader's per-type function makes of a record's point, into a new pdata point that
    holds the record's attributes (the switch of AppendOTLPPoint, repeated by hand). -/
def genReadPoint (t : MType) (metric : SMetric) (attrs : SAttrs) (pt : SPoint) : Option Point :=
  (match t with
    | .gauge | .sum => ((S2O.convertNumberPoint pt objL).run ⟨{ attrs := attrs.toOtlp }, []⟩).res
    | .hist => ((S2O.convertHistogramPoint metric pt objL).run ⟨{ attrs := attrs.toOtlp }, []⟩).res
    | .exp => ((S2O.convertExpHistogramPoint pt objL).run ⟨{ attrs := attrs.toOtlp }, []⟩).res
    | .summary => ((S2O.convertSumaryPoint pt objL).run ⟨{ attrs := attrs.toOtlp }, []⟩).res).join

theorem genWritePoint_eq (conv : Ref WS Conv → Ref WS SPoint → Point → M WS Err Unit) (hand : Point → SPoint → Except String SPoint)
    (hconv : ∀ src cv p ms, ((conv cL pL src).run ⟨(cv, p), ms⟩).res = some ((hand src p).toOption.map fun p' => (cv, p')))
    (p : Point) (tmp : SAttrs) (old pt pt' : SPoint) (tmp' : SAttrs)
    (h1 : hand p old = .ok pt) (h2 : convExemplars p.exemplars tmp pt = .ok (tmp', pt')) :
    genWritePoint conv p tmp old = some (tmp', pt') := by
  simp [genWritePoint, hconv, h1, Except.toOption, convertExemplars_eq, h2]

theorem read_of_pointOfRecord (r : SRecord) (d : DataPoint) (h : pointOfRecord r = .ok d) :
    ∃ m q, metricToOtlp r.metric = .ok m ∧ pointToOtlp m.type r.metric r.attrs r.point = .ok q ∧
      d = dataPoint r.resource.id r.scope.id m q := by
  unfold pointOfRecord at h
  split at h
  · cases h
  · rename_i m hm
    split at h
    · cases h
    · rename_i q hq
      injection h with h
      exact ⟨m, q, hm, hq, h.symm⟩

/-- **Number point round trip through the regenerated functions.** The writer's record shows resource,
    scope and a gauge / sum metric `m` (`Shows`, whatever else it holds from earlier points: a previous
    value of any type, hidden exemplars, stale scratch attributes). For every clean number point `p` the
    regenerated ConvertNumDatapoint + ConvertExemplars succeed, and the regenerated convertNumberPoint
    applied to what they left makes a data point that IS `p` (exemplar attributes in key order). -/
theorem gen_number_point_roundtrip (p : Point) (st : WState) (rid : ResId) (sid : ScopeId) (m : Metric)
    (ht : m.type = .gauge ∨ m.type = .sum) (hc : p.cleanNum = true) (hs : Shows st.cur rid sid m) :
    ∃ tmp' pt h q, genWritePoint O2S.convertNumDatapoint p st.tmp st.cur.point = some (tmp', pt) ∧
      metricToOtlp st.cur.metric = .ok h ∧ h.type = m.type ∧
      genReadPoint h.type st.cur.metric (SAttrs.mapUnsorted p.attrs st.cur.attrs) pt = some q ∧
      dataPoint st.cur.resource.id st.cur.scope.id h q = (dataPoint rid sid m p).sortExAttrs := by
  obtain ⟨hvt, hevt⟩ := cleanNum_vt hc
  have hw := genWritePoint_eq O2S.convertNumDatapoint convNumber convertNumDatapoint_eq p st.tmp st.cur.point _ _ _
    (convNumber_eq p st.cur.point hvt) (convExemplars_eq p.exemplars st.tmp _ hevt)
  obtain ⟨h, q, hm, hq, hd⟩ := read_of_pointOfRecord _ _ (numRecord_spec p st rid sid m ht hc hs)
  obtain ⟨_, _, h', hm', _, hty⟩ := hs
  have hm2 : metricToOtlp st.cur.metric = .ok h := by simpa [numRecord] using hm
  have hh : h' = h := by rw [hm2] at hm'; injection hm' with e; exact e.symm
  subst hh
  refine ⟨_, _, h', q, hw, hm2, hty, ?_, by simpa [numRecord] using hd.symm⟩
  have hr := convertNumberPoint_eq h'.type (hty ▸ ht) st.cur.metric (numRecord p st).point (numRecord p st).attrs []
  rcases ht with ht | ht <;>
    simp [genReadPoint, hty, ht, numRecord] at hr hq ⊢ <;> simp [hr, hq, Except.toOption]

/-- **Histogram point round trip through the regenerated functions**: as above for a histogram metric and
    every clean histogram point (flagged or not, optional sum / min / max present or not, with or without
    buckets, the re-used point holding ANY previous histogram); the bounds are those the writer stored in
    the record's Metric. -/
theorem gen_histogram_point_roundtrip (p : Point) (st : WState) (rid : ResId) (sid : ScopeId) (m : Metric)
    (ht : m.type = .hist) (hc : p.cleanHist = true) (hs : Shows st.cur rid sid m) :
    ∃ tmp' pt h q, genWritePoint O2S.convertHistogram p st.tmp st.cur.point = some (tmp', pt) ∧
      metricToOtlp st.cur.metric = .ok h ∧ h.type = m.type ∧
      genReadPoint .hist { st.cur.metric with bounds := setFSlice st.cur.metric.bounds p.bounds }
        (SAttrs.mapUnsorted p.attrs st.cur.attrs) pt = some q ∧
      dataPoint st.cur.resource.id st.cur.scope.id h q = (dataPoint rid sid m p).sortExAttrs := by
  obtain ⟨hlen, hevt⟩ := cleanHist_ok hc
  have hw := genWritePoint_eq O2S.convertHistogram convHistogram convertHistogram_eq p st.tmp st.cur.point _ _ _
    (convHistogram_eq p st.cur.point hlen) (convExemplars_eq p.exemplars st.tmp _ hevt)
  obtain ⟨h, q, hm, hq, hd⟩ := read_of_pointOfRecord _ _ (histRecord_spec p st rid sid m ht hc hs).1
  obtain ⟨_, _, h', hm', _, hty⟩ := hs
  have hm2 : metricToOtlp st.cur.metric = .ok h := by simpa [histRecord, metricToOtlp] using hm
  have hh : h' = h := by rw [hm2] at hm'; injection hm' with e; exact e.symm
  subst hh
  refine ⟨_, _, h', q, hw, hm2, hty, ?_, by simpa [histRecord] using hd.symm⟩
  have hv : (histRecord p st).point.value = .none ∨ ∃ x, (histRecord p st).point.value = .hist x := by
    simp only [histRecord, pointWithEx_value, histValueInto_spec]
    split
    · exact .inl rfl
    · exact .inr ⟨_, rfl⟩
  have hr := convertHistogramPoint_eq (histRecord p st).metric (histRecord p st).point (histRecord p st).attrs [] hv
  simp [genReadPoint, hty, ht, histRecord] at hr hq ⊢
  simp [hr, hq, Except.toOption]

/-- **Exponential histogram point round trip through the regenerated functions** (scale and offsets within
    int32: `cleanExp`). -/
theorem gen_exp_histogram_point_roundtrip (p : Point) (st : WState) (rid : ResId) (sid : ScopeId) (m : Metric)
    (ht : m.type = .exp) (hc : p.cleanExp = true) (hs : Shows st.cur rid sid m) :
    ∃ tmp' pt h q, genWritePoint O2S.convertExpHistogram p st.tmp st.cur.point = some (tmp', pt) ∧
      metricToOtlp st.cur.metric = .ok h ∧ h.type = m.type ∧
      genReadPoint .exp st.cur.metric (SAttrs.mapUnsorted p.attrs st.cur.attrs) pt = some q ∧
      dataPoint st.cur.resource.id st.cur.scope.id h q = (dataPoint rid sid m p).sortExAttrs := by
  have hevt := cleanExp_ok hc
  have hw := genWritePoint_eq O2S.convertExpHistogram convExpHistogram convertExpHistogram_eq p st.tmp st.cur.point _ _ _
    (convExpHistogram_eq p st.cur.point) (convExemplars_eq p.exemplars st.tmp _ hevt)
  obtain ⟨h, q, hm, hq, hd⟩ := read_of_pointOfRecord _ _ (expRecord_spec p st rid sid m ht hc hs)
  obtain ⟨_, _, h', hm', _, hty⟩ := hs
  have hm2 : metricToOtlp st.cur.metric = .ok h := by simpa [expRecord] using hm
  have hh : h' = h := by rw [hm2] at hm'; injection hm' with e; exact e.symm
  subst hh
  refine ⟨_, _, h', q, hw, hm2, hty, ?_, by simpa [expRecord] using hd.symm⟩
  have hv : (expRecord p st).point.value = .none ∨ ∃ x, (expRecord p st).point.value = .exp x := by
    simp only [expRecord, pointWithEx_value, expValueInto]
    split
    · exact .inl rfl
    · exact .inr ⟨_, rfl⟩
  have hr := convertExpHistogramPoint_eq (expRecord p st).metric (expRecord p st).point (expRecord p st).attrs [] hv
  simp [genReadPoint, hty, ht, expRecord] at hr hq ⊢
  simp [hr, hq, Except.toOption]

/-- **Summary point round trip through the regenerated functions** (the writer does not convert exemplars
    for summaries: ConvertSummary alone). -/
theorem gen_summary_point_roundtrip (p : Point) (st : WState) (rid : ResId) (sid : ScopeId) (m : Metric)
    (ht : m.type = .summary) (hc : p.cleanSummary = true) (hs : Shows st.cur rid sid m) :
    ∃ pt h q, ((O2S.convertSummary cL pL p).run ⟨(⟨st.tmp⟩, st.cur.point), []⟩).res = some (some (⟨st.tmp⟩, pt)) ∧
      metricToOtlp st.cur.metric = .ok h ∧ h.type = m.type ∧
      genReadPoint .summary st.cur.metric (SAttrs.mapUnsorted p.attrs st.cur.attrs) pt = some q ∧
      dataPoint st.cur.resource.id st.cur.scope.id h q = (dataPoint rid sid m p).sortExAttrs := by
  obtain ⟨h, q, hm, hq, hd⟩ := read_of_pointOfRecord _ _ (summaryRecord_spec p st rid sid m ht hc hs)
  obtain ⟨_, _, h', hm', _, hty⟩ := hs
  have hm2 : metricToOtlp st.cur.metric = .ok h := by simpa [summaryRecord] using hm
  have hh : h' = h := by rw [hm2] at hm'; injection hm' with e; exact e.symm
  subst hh
  refine ⟨_, h', q, convertSummary_eq p ⟨st.tmp⟩ st.cur.point [], hm2, hty, ?_, by simpa [summaryRecord] using hd.symm⟩
  have hv : (summaryRecord p st).point.value = .none ∨ ∃ x, (summaryRecord p st).point.value = .summary x := by
    simp only [summaryRecord, convSummary_eq]
    split
    · exact .inl rfl
    · exact .inr ⟨_, rfl⟩
  have hr := convertSumaryPoint_eq (summaryRecord p st).metric (summaryRecord p st).point (summaryRecord p st).attrs [] hv
  simp [genReadPoint, hty, ht, summaryRecord] at hr hq ⊢
  simp [hr, hq, Except.toOption]

/-! ### non-vacuity: a writer state that shows a histogram metric and holds a stale histogram with all
    optional fields present, and a clean point without them -/

def staleState : WState :=
  { cur := { metric := { name := [104], type := 2, temp := 1, bounds := [7] },
             point := { ts := 1, value := .hist { count := 9, sum := some 1, min := some 2, max := some 3, buckets := [4, 5] },
                        exStore := [{ ts := 3, traceID := List.replicate 16 1, spanID := List.replicate 8 2 }], exLen := 1 } },
    tmp := SAttrs.mapSorted (.cons [122] (.int 1) .nil) {} }

def plainPoint : Point := { ts := 6, count := 1, buckets := [1], bounds := [] }

example : plainPoint.cleanHist = true ∧
    Shows staleState.cur (SResource.id {}) (SScope.id {}) { name := [104], type := .hist, temp := 1 } := by
  refine ⟨by decide, rfl, rfl, { name := [104], type := .hist, temp := 1 }, rfl, rfl, rfl⟩

/-- on that state the regenerated writer functions drop the stale optional fields and the regenerated
    reader functions return the single bucket without bounds -/
example : ((genWritePoint O2S.convertHistogram plainPoint staleState.tmp staleState.cur.point).map fun r => r.2.value)
      = some (.hist { count := 1, buckets := [1] }) ∧
    ((genWritePoint O2S.convertHistogram plainPoint staleState.tmp staleState.cur.point).bind fun r =>
        genReadPoint .hist { staleState.cur.metric with bounds := [] } {} r.2).map (fun q => (q.buckets, q.bounds, q.hasSum))
      = some ([1], [], false) := by
  decide

end Stef.Props.C17Gen
