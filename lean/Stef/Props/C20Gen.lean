/-
  C20 (float64 codec) for the functions REGENERATED from go/pkg/codecs/float64.go
  (Stef/Gen/FloatCodec.lean; vocabulary Stef/FloatCodecSem.lean). Property theorems only; the
  equations regenerated = hand model are in Stef/Proofs/FloatCodecGen.lean.

  `gorilla_is_spec` / `gorilla_roundtrip` of Props/C20.lean speak about the hand transcription
  `F64.encodeW`; here they are restated for `Float64Encoder.encode` as translated from the source,
  on the regenerated state (Go `int` window fields, the `pkg.BitsWriter` register, the frame bits
  accounted in the limiter).
-/
import Stef.Proofs.FloatCodecGen

namespace Stef.Props.C20Gen
open Stef Stef.Spec Stef.Codec Stef.Gen.FloatCodec Stef.Proofs.FloatCodecGen

/-- the window stored in the encoder is a real window (holds after `Reset` and is kept by `Encode`:
    `gen_reset_window`, `gen_gorilla_is_spec`). -/
def Window (e : Float64Encoder) : Prop :=
  0 ≤ e.leadingBits ∧ e.leadingBits ≤ 31 ∧ 0 ≤ e.trailingBits ∧ e.leadingBits + e.trailingBits ≤ 63

/-- the codec state (last value, window) of a regenerated encoder state. -/
def stateOf (e : Float64Encoder) : F64 := ⟨e.lastVal, e.leadingBits.toNat, e.trailingBits.toNat⟩

theorem window_ok (e : Float64Encoder) (hw : Window e) : (stateOf e).Ok := by
  obtain ⟨h1, h2, h3, h4⟩ := hw
  simp only [F64.Ok, stateOf]; omega

theorem ok_window (c : F64) (w : BitsWriter) (n : Nat) (h : c.Ok) : Window (encOf c w n) := by
  obtain ⟨h1, h2⟩ := h
  simp only [Window, encOf]; omega

theorem stateOf_encOf (c : F64) (w : BitsWriter) (n : Nat) : stateOf (encOf c w n) = c := by
  simp [stateOf, encOf]

/-- **gen_encode_is_model**: the regenerated `Float64Encoder.Encode` is the hand model `F64.encodeW`
    (state, writer register, accounted bits) on every state with non-negative window fields, every
    writer, every value; it never panics. -/
theorem gen_encode_is_model (c : F64) (w : BitsWriter) (lim : Nat) (v : Word) :
    (encOf c w lim).encode v =
      some (encOf (c.encodeW w v).1 (c.encodeW w v).2.1 (lim + (c.encodeW w v).2.2)) :=
  encode_eq c w lim v

/-- **gen_encode_never_panics**: neither `panic("unexpected")` nor a negative shift count is reachable
    from a state whose window fields are not negative (whatever their size). -/
theorem gen_encode_never_panics (e : Float64Encoder) (v : Word) (h1 : 0 ≤ e.leadingBits) (h2 : 0 ≤ e.trailingBits) :
    (e.encode v).isSome = true := by
  rw [encOf_surj e h1 h2, encode_eq]; rfl

/-- **gen_gorilla_is_spec**: from every state with a real window and every register fill level, the
    regenerated `Encode(v)` appends exactly the bits of the specification-level encoder
    (`F64.encodeBits`: scheme choice, the size rule, the clamp at 31), moves to the specification's
    next state, keeps the writer and the window invariants, and accounts in the limiter exactly the
    number of bits it appended. -/
theorem gen_gorilla_is_spec (e : Float64Encoder) (v : Word) (hw : Window e) (hI : e.buf.Inv) :
    ∃ e', e.encode v = some e' ∧
      e'.buf.toBits = e.buf.toBits ++ ((stateOf e).encodeBits v).2 ∧
      stateOf e' = ((stateOf e).encodeBits v).1 ∧ e'.buf.Inv ∧ Window e' ∧
      e'.limiter = e.limiter + ((stateOf e).encodeBits v).2.length := by
  have hok := window_ok e hw
  obtain ⟨s1, s2, s3⟩ := f64_encodeW_spec (stateOf e) e.buf v hok hI
  have hok' : ((stateOf e).encodeW e.buf v).1.Ok := by
    rw [s2]
    exact (f64_step (stateOf e) { fLast := e.lastVal, fLead := e.leadingBits.toNat, fTrail := e.trailingBits.toNat }
      v [] hok ⟨rfl, rfl, rfl⟩).2.1
  refine ⟨_, by rw [encOf_surj e hw.1 hw.2.2.1]; exact encode_eq _ _ _ _, s1, ?_, s3, ok_window _ _ _ hok', ?_⟩
  · rw [stateOf_encOf]; exact s2
  · show e.limiter + _ = _
    rw [encodeW_bits_count]; rfl

/-- **gen_reset_window**: `Reset` gives the zero codec state (last value 0, empty window), which
    has a real window; writer and limiter are untouched. -/
theorem gen_reset_window (e e' : Float64Encoder) (h : e.reset = some e') :
    Window e' ∧ stateOf e' = {} ∧ e'.buf = e.buf ∧ e'.limiter = e.limiter := by
  rw [encoder_reset_eq] at h
  cases h
  exact ⟨ok_window _ _ _ f64_ok_init, stateOf_encOf _ _ _, rfl, rfl⟩

/-- **gen_gorilla_roundtrip**: every sequence of bit patterns written by the regenerated `Encode`
    from a state with a real window (in particular after `Reset`): no call panics, and the
    specification's decoder, in sync with the state before, reads the values back from the appended
    bits, consumes exactly those and ends in sync with the encoder's final state. -/
theorem gen_gorilla_roundtrip (e : Float64Encoder) (cs : ColSt) (vs : List Word) (rest : Bits)
    (hw : Window e) (hI : e.buf.Inv) (hs : Sync cs (stateOf e)) :
    ∃ e' bits, encodeAll e vs = some e' ∧ e'.buf.toBits = e.buf.toBits ++ bits ∧ Window e' ∧ e'.buf.Inv ∧
      ∃ cs', f64DecodeAll { cs with bits := bits ++ rest } vs.length = some (cs', vs) ∧
        cs'.bits = rest ∧ Sync cs' (stateOf e') := by
  have hok := window_ok e hw
  obtain ⟨a1, a2, a3, a4⟩ := encodeAllW_spec (stateOf e) e.buf e.limiter vs hok hI
  obtain ⟨cs', r1, r2, r3⟩ := f64_roundtrip (stateOf e) cs vs rest hok hs
  refine ⟨_, (F64.encodeAllBits (stateOf e) vs).2,
    by rw [encOf_surj e hw.1 hw.2.2.1]; exact encodeAll_eq _ _ _ _, a1, ok_window _ _ _ a4, a3, cs', r1, r2, ?_⟩
  rw [stateOf_encOf, a2]; exact r3

/-- **gen_decode_is_model**: the regenerated `Float64Decoder.Decode` is the hand model `F64.decodeR`
    (the function the harness lines `cx f64` are replayed on) on every reader state, every header -
    hostile ones included - and every decoder state reachable from `Reset`; it never panics. -/
theorem gen_decode_is_model (d : Float64Decoder) (dst : Word) (hl : d.leadingBits.toNat ≤ 31) :
    (d.decode dst).map (fun p => (toF64 p.1, p.1.buf, p.2.1, p.2.2)) =
      some (((toF64 d).decodeR d.buf).1, ((toF64 d).decodeR d.buf).2.1, ((toF64 d).decodeR d.buf).2.2,
            ((toF64 d).decodeR d.buf).2.1.err) :=
  decode_eq d dst hl

/-- the hypothesis of `gen_decode_is_model` is an invariant: it holds after `Reset` and `Decode` keeps it. -/
theorem gen_decode_invariant :
    (∀ d d' : Float64Decoder, d.reset = some d' → d'.leadingBits.toNat ≤ 31) ∧
    (∀ (d d' : Float64Decoder) (dst v : Word) (e : Bool), d.leadingBits.toNat ≤ 31 →
        d.decode dst = some (d', v, e) → d'.leadingBits.toNat ≤ 31) :=
  ⟨fun d d' h => (decoder_reset_state d d' h).2.2, fun d d' dst v e hl h => decode_leading_le d dst hl d' v e h⟩

-- non-vacuity: the state after `Reset` of a fresh encoder has a real window and a writer that
-- satisfies the register invariant; one real `Encode` from it (a NaN payload) starts a new window.
example : Window (encOf {} {} 0) ∧ (encOf {} {} 0).buf.Inv ∧ Sync {} (stateOf (encOf {} {} 0)) :=
  ⟨ok_window _ _ _ f64_ok_init, BitsWriter.inv_init, ⟨rfl, rfl, rfl⟩⟩

example : ∃ e', (encOf {} {} 0).encode 0x7ff8000000000001#64 = some e' ∧ Window e' ∧ e'.buf.Inv :=
  let ⟨e', h, _, _, hI, hW, _⟩ := gen_gorilla_is_spec (encOf {} {} 0) 0x7ff8000000000001#64
    (ok_window _ _ _ f64_ok_init) BitsWriter.inv_init
  ⟨e', h, hW, hI⟩

-- non-vacuity of the decoder hypothesis: the state after `Reset`, over a reader with two bytes
example : ∃ d', (Float64Decoder.mk { buf := [0xFF#8, 0xFF#8] } 7#64 99#64 99#64).reset = some d' ∧
    d'.leadingBits.toNat ≤ 31 := ⟨_, rfl, Nat.zero_le _⟩

end Stef.Props.C20Gen
