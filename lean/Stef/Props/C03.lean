/-
  C03 - Decoding and converting untrusted bytes never panics, hangs or over-allocates.

  PARTIAL by nature (DESIGN.md section 6, C03): Go memory safety is not derivable from a model.
  What is proved here, for ALL inputs, on the models of the frame loader and of the allocation
  accounting; the decoder bodies and the converters are covered by the hostile-input runs of the
  harnesses (h_codec hostile, h_otlp), not by theorems.
-/
import Stef.Proofs.Alloc
import Stef.Proofs.ReaderProgress
import Stef.Proofs.Sizes
import Stef.Proofs.StrBound
import Stef.Spec

namespace Stef.Props.C03
open Stef

/-- **progress**: loading a frame consumes input - at least three bytes per loaded frame, for
    every byte string and every read schedule; so the `Read` loop cannot spin on a fixed input. -/
theorem frame_load_consumes_input (sites : Reader.Sites) (r : Reader.Rd) (fl : Nat)
    (h : (Reader.nextFrame sites r).2 = .ok fl) :
    (Reader.nextFrame sites r).1.src.data.length + 3 ≤ r.src.data.length :=
  (Reader.nextFrame_progress sites r fl h).1

/-- **frame bound**: whatever the size fields of the input claim, a loaded frame's content is
    at most FrameSizeLimit (64 MiB) bytes. -/
theorem frame_load_bounded (sites : Reader.Sites) (r : Reader.Rd) (fl : Nat)
    (h : (Reader.nextFrame sites r).2 = .ok fl) :
    (Reader.nextFrame sites r).1.body.length ≤ Gen.frameSizeLimit :=
  (Reader.nextFrame_progress sites r fl h).2

/-- **alloc_bound**: all allocation requests of one record that were granted sum up to at most
    RecordAllocLimit (32 MiB); the accounting neither wraps nor forgets. -/
theorem alloc_bound (reqs : List Alloc.Req) (hwf : ∀ r ∈ reqs, r.wf)
    (h : (Alloc.grant {} reqs).2 = false) :
    (reqs.map Alloc.Req.bytes).sum ≤ Gen.recordAllocLimit := by
  have := Alloc.grant_bound reqs {} (by simp) hwf h
  have h1 := this.1
  have h2 := this.2
  simp only [Nat.zero_add] at h1
  omega

/-- **column buffers of a frame**: `ReadBufs.ReadFrom` allocates every column's buffer while it
    parses the size table, before any column data is read. For every column tree, every input
    and every `readLimit` (the frame's remaining size), the size-table buffer plus all column
    buffers it allocates - on the error paths too - is at most `readLimit`: sibling columns share
    one budget, so N columns cannot each claim the whole frame. -/
theorem frame_columns_alloc_bounded (t : Sizes.ColTree) (input : Bytes) (readLimit : Nat) :
    (Sizes.readFrom t input readLimit).temp + (Sizes.readFrom t input readLimit).alloc.sum ≤ readLimit :=
  Sizes.readFrom_alloc_bounded t input readLimit

/-- what is granted to the columns is exactly what leaves the shared budget. -/
theorem column_budget_conserved (t : Sizes.ColTree) (s : Sizes.St) :
    (Sizes.readSizes t s).1.alloc.sum + (Sizes.readSizes t s).1.limit = s.alloc.sum + s.limit :=
  Sizes.readSizes_conserve t s

/-- **string / bytes decoder stays inside its column**: whatever length the untrusted column
    announces (up to 2^63-1, where the Go bounds check used to overflow: fix 13475f4), a decoded string
    and the remaining column are disjoint parts of the column - a value is never fabricated from
    memory outside it; a length beyond the column is an error. The model is tied to the Go decoders
    on hostile columns op for op (h_prim `dechostile`). -/
theorem string_decode_within_column (buf v rest : Bytes) (h : Codec.strDecode buf = .ok (v, rest)) :
    v.length + rest.length < buf.length := Codec.strDecode_within buf v rest h

/-- the dictionary string decoder returns an entry of its dictionary or a part of the column, and its
    dictionary grows only by values read from the column. -/
theorem dict_string_decode_within_column (d d' : List Bytes) (buf v rest : Bytes)
    (h : Codec.strDictDecode d buf = .ok (d', v, rest)) :
    rest.length < buf.length ∧ (v ∈ d ∨ v.length + rest.length < buf.length) ∧ (d' = d ∨ d' = d ++ [v]) :=
  Codec.strDictDecode_within d d' buf v rest h

/-- the allocation counter saturates instead of wrapping. -/
theorem alloc_counter_saturates (a : Alloc.Checker) (size : Nat) (ha : a.allocatedSize ≤ Alloc.maxUint) :
    a.allocatedSize ≤ (a.addAllocSize size).allocatedSize ∧
    (a.addAllocSize size).allocatedSize ≤ Alloc.maxUint := Alloc.add_monotone a size ha

/-- a multimap announcing 1024 or more pairs is refused by the specification decoder before any
    pair is decoded (Stef.Spec.decodeNode, full-encoding branch). -/
theorem limits_are_from_source : Gen.multimapElemCountLimit = 1024 ∧ Gen.frameSizeLimit = 67108864 ∧
    Gen.recordAllocLimit = 33554432 ∧ Gen.varHdrContentSizeLimit = 1048576 := by decide

-- non-vacuity
-- a length prefix of 2^63-1 (zig-zag 0xfe ff.. 01) over a 2-byte remainder is an error, not a string
example : (match Codec.strDecode [0xfe#8, 0xff#8, 0xff#8, 0xff#8, 0xff#8, 0xff#8, 0xff#8, 0xff#8, 0xff#8, 0x01#8, 0x41#8, 0x42#8] with
    | .error .eof => true | _ => false) = true := by
  with_unfolding_all decide
example : (match Codec.strDecode [0x04#8, 0x41#8, 0x42#8, 0x43#8] with
    | .ok (v, rest) => v == [0x41#8, 0x42#8] && rest == [0x43#8] | _ => false) = true := by
  with_unfolding_all decide
-- three columns each claiming 3 bytes of a budget of 8 (size table 0x77 0x70): each claim fits
-- alone, the third is refused, and what was allocated before the refusal is 2 + 3 + 3 <= 10
example : (Sizes.readFrom (.node [.node [], .node []]) [0x02#8, 0x77#8, 0x70#8] 10).outcome = .errColLimit ∧
    (Sizes.readFrom (.node [.node [], .node []]) [0x02#8, 0x77#8, 0x70#8] 10).alloc = [3, 3] := by
  with_unfolding_all decide
example : (Alloc.grant {} [.one 100, .many 8 1000]).2 = false := by decide
example : (Alloc.grant {} [.one 100, .many (2 ^ 40) (2 ^ 40)]).2 = true := by decide

end Stef.Props.C03
