/-
  C03 - Decoding and converting untrusted bytes never panics, hangs or over-allocates.

  PARTIAL by nature (DESIGN.md section 6, C03): Go memory safety is not derivable from a model.
  What is proved here, for ALL inputs, on the models of the frame loader and of the allocation
  accounting; the decoder bodies and the converters are covered by the hostile-input runs of the
  harnesses (h_codec hostile, h_otlp), not by theorems.
-/
import Stef.Proofs.Alloc
import Stef.Proofs.ReaderProgress
import Stef.Spec

namespace Stef.Props.C03
open Stef

/-- **progress**: loading a frame consumes input - at least three bytes per loaded frame, for
    every byte string and every read schedule; so the `Read` loop cannot spin on a fixed input. -/
theorem frame_load_consumes_input (sites : Reader.Sites) (r : Reader.Rd) (fl : Nat)
    (h : (Reader.nextFrame sites r).2 = .ok fl) :
    (Reader.nextFrame sites r).1.src.data.length + 3 ≤ r.src.data.length :=
  (Reader.nextFrame_progress sites r fl h).1

/-- **frame bound**: whatever the size fields of the input claim, a loaded frame's content is
    at most FrameSizeLimit (64 MiB) bytes. -/
theorem frame_load_bounded (sites : Reader.Sites) (r : Reader.Rd) (fl : Nat)
    (h : (Reader.nextFrame sites r).2 = .ok fl) :
    (Reader.nextFrame sites r).1.body.length ≤ Gen.frameSizeLimit :=
  (Reader.nextFrame_progress sites r fl h).2

/-- **alloc_bound**: all allocation requests of one record that were granted sum up to at most
    RecordAllocLimit (32 MiB); the accounting neither wraps nor forgets. -/
theorem alloc_bound (reqs : List Alloc.Req) (hwf : ∀ r ∈ reqs, r.wf)
    (h : (Alloc.grant {} reqs).2 = false) :
    (reqs.map Alloc.Req.bytes).sum ≤ Gen.recordAllocLimit := by
  have := Alloc.grant_bound reqs {} (by simp) hwf h
  have h1 := this.1
  have h2 := this.2
  simp only [Nat.zero_add] at h1
  omega

/-- the allocation counter saturates instead of wrapping. -/
theorem alloc_counter_saturates (a : Alloc.Checker) (size : Nat) (ha : a.allocatedSize ≤ Alloc.maxUint) :
    a.allocatedSize ≤ (a.addAllocSize size).allocatedSize ∧
    (a.addAllocSize size).allocatedSize ≤ Alloc.maxUint := Alloc.add_monotone a size ha

/-- a multimap announcing 1024 or more pairs is refused by the specification decoder before any
    pair is decoded (Stef.Spec.decodeNode, full-encoding branch). -/
theorem limits_are_from_source : Gen.multimapElemCountLimit = 1024 ∧ Gen.frameSizeLimit = 67108864 ∧
    Gen.recordAllocLimit = 33554432 ∧ Gen.varHdrContentSizeLimit = 1048576 := by decide

-- non-vacuity
example : (Alloc.grant {} [.one 100, .many 8 1000]).2 = false := by decide
example : (Alloc.grant {} [.one 100, .many (2 ^ 40) (2 ^ 40)]).2 = true := by decide

end Stef.Props.C03
