/-
  C15 x C05 - an interruption of the gRPC transport is always frame aligned.

  The writer hands every frame to the transport as one chunk (`grpcWriter.WriteChunk(header, content)`),
  the assembler releases a chunk only when its end-of-chunk message arrived (Props/C15), and the
  reader returns exactly the records of the complete frames of a prefix (Props/C05). Composed: when
  the transport breaks after ANY number `j` of messages, the receiving reader sees the records of
  the first `j` frames and then a clean end of stream - never a torn frame, never a record of a
  frame whose message did not arrive.
-/
import Stef.Props.C15
import Stef.Props.C05

namespace Stef.Props.C15Frames
open Stef Stef.Chunk Stef.Reader

theorem totalRecs_take_le (fs : List FrameSpec) (j : Nat) : totalRecs (fs.take j) ≤ totalRecs fs := by
  have h : totalRecs fs = totalRecs (fs.take j) + totalRecs (fs.drop j) := by
    unfold totalRecs
    rw [← List.sum_append, ← List.map_append, List.take_append_drop]
  omega

/-- the bytes a draining consumer is handed when only the first `j` messages arrive are the
    encoding of the first `j` frames, however the writer cuts a frame into header and content. -/
theorem interrupted_transport_delivers_whole_frames (fs : List FrameSpec)
    (cut : FrameSpec → Bytes × Bytes) (hcut : ∀ f, (cut f).1 ++ (cut f).2 = encFrame f)
    (j : Nat) (ns : List Nat)
    (he : (({ src := (fs.map (fun f => writeChunk (cut f).1 (cut f).2)).take j } : Asm).run ns).2.2 = true) :
    (({ src := (fs.map (fun f => writeChunk (cut f).1 (cut f).2)).take j } : Asm).run ns).1.flatten
      = encFrames (fs.take j) := by
  rw [(C15.bytes_unchanged _ ns).2 he, ← List.map_take]
  have h := C15.writer_one_message_per_chunk ((fs.take j).map cut)
  simp only [List.map_map] at h
  have h2 : (fun c : Bytes × Bytes => writeChunk c.1 c.2) ∘ cut = fun f => writeChunk (cut f).1 (cut f).2 := rfl
  have h3 : (fun c : Bytes × Bytes => c.1 ++ c.2) ∘ cut = encFrame := by funext f; exact hcut f
  rw [h2, h3] at h
  rw [h]; rfl

/-- **transport_interruption_frame_aligned**: the reader attached to such a consumer returns
    exactly the records of the first `min j |fs|` frames and then `eof`. -/
theorem transport_interruption_frame_aligned (fs : List FrameSpec)
    (cut : FrameSpec → Bytes × Bytes) (hcut : ∀ f, (cut f).1 ++ (cut f).2 = encFrame f)
    (j : Nat) (ns : List Nat) (r : Rd) (fuel : Nat)
    (hwf : ∀ f ∈ fs, f.Wf1) (hb : r.AtBoundary) (hfuel : totalRecs fs < fuel)
    (he : (({ src := (fs.map (fun f => writeChunk (cut f).1 (cut f).2)).take j } : Asm).run ns).2.2 = true)
    (hd : r.src.data =
      (({ src := (fs.map (fun f => writeChunk (cut f).1 (cut f).2)).take j } : Asm).run ns).1.flatten) :
    ∃ r', readAll Sites.current fuel r = (frameRecords (fs.take j) r.framesLoaded, .eof, r') := by
  rw [interrupted_transport_delivers_whole_frames fs cut hcut j ns he] at hd
  have hle := totalRecs_take_le fs j
  exact readAll_exact Sites.current C05.current_frame_content_full (fs.take j) r fuel
    (fun g hg => hwf g (List.mem_of_mem_take hg)) hb hd (by omega)

-- non-vacuity: two frames, each sent as one chunk cut after its first byte (flags | rest); the
-- transport breaks after the first message; the consumer reads 4 bytes at a time until the error.
example :
    let f1 : FrameSpec := { flags := 0, nrec := 2, body := [1#8, 2#8, 3#8] }
    let f2 : FrameSpec := { flags := 1, nrec := 1, body := [9#8] }
    let cut : FrameSpec → Bytes × Bytes := fun f => ((encFrame f).take 1, (encFrame f).drop 1)
    let ms := ([f1, f2].map (fun f => writeChunk (cut f).1 (cut f).2)).take 1
    (({ src := ms } : Asm).run [4, 4, 4, 4]).2.2 = true ∧
    (({ src := ms } : Asm).run [4, 4, 4, 4]).1.flatten = encFrames [f1] ∧
    (readAll Sites.current 10 { src := { data := (({ src := ms } : Asm).run [4, 4, 4, 4]).1.flatten } }).1
      = [(1, 0), (1, 1)] := by with_unfolding_all decide

example (f : FrameSpec) : ((encFrame f).take 1) ++ ((encFrame f).drop 1) = encFrame f :=
  List.take_append_drop 1 _

end Stef.Props.C15Frames
