/-
  C15 - The gRPC transport delivers the writer's bytes unchanged and chunk-aligned.
-/
import Stef.Proofs.Chunk
import Stef.Proofs.ChunkDrain

namespace Stef.Props.C15
open Stef Stef.Chunk

/-- **bytes_unchanged**: for every message sequence (any splitting of chunks into messages,
    empty messages and empty chunks included) and every sequence of requested read sizes, the
    bytes handed out so far followed by what the assembler still owes equal the concatenation
    of all complete chunks; and once the source is exhausted (the read that returns the error)
    exactly the concatenation of all complete chunks has been handed out. -/
theorem bytes_unchanged (ms : List Msg) (ns : List Nat) :
    let r := ({ src := ms } : Asm).run ns
    r.1.flatten ++ r.2.1.owed = (chunks ms).flatten ∧
    (r.2.2 = true → r.1.flatten = (chunks ms).flatten) := by
  have h := run_owed { src := ms } ns
  simpa [Asm.owed] using h

/-- the delivered bytes are always a prefix of the concatenation of the complete chunks. -/
theorem delivered_is_prefix (ms : List Msg) (ns : List Nat) :
    (({ src := ms } : Asm).run ns).1.flatten <+: (chunks ms).flatten := by
  have h := (bytes_unchanged ms ns).1
  exact ⟨_, h⟩

/-- **chunk_aligned**: at any point of an error-free run, the source has been consumed up to a
    chunk boundary `pre` (chunking distributes over it), and everything handed out so far
    together with the unread rest of the current buffer is exactly the content of the chunks
    whose end-of-chunk message has been consumed - no byte of a chunk is released before its
    final message arrived. -/
theorem chunk_aligned (ms : List Msg) (ns : List Nat) :
    let r := ({ src := ms } : Asm).run ns
    r.2.2 = false →
    ∃ pre, ms = pre ++ r.2.1.src ∧ Boundary pre ∧
      r.1.flatten ++ r.2.1.buf.drop r.2.1.readIndex = (chunks pre).flatten := by
  intro r he
  have := aligned_run (ms := ms) { src := ms } [] ns (aligned_init ms) he
  simpa [Aligned] using this

/-- the client sends each chunk as one message `header ++ content` flagged end-of-chunk, so the
    chunk list seen by the assembler is the list written. -/
theorem writer_one_message_per_chunk (cs : List (Bytes × Bytes)) :
    chunks (cs.map (fun c => writeChunk c.1 c.2)) = cs.map (fun c => c.1 ++ c.2) := by
  induction cs with
  | nil => simp [chunks, chunksAux]
  | cons c cs ih =>
    simp only [chunks, writeChunk] at ih
    simp [chunks, chunksAux, writeChunk, ih]

/-- splitting a chunk into any number of messages does not change the chunk. -/
theorem split_irrelevant (parts : List Bytes) (last : Bytes) (rest : List Msg) :
    chunks (parts.map (fun p => (p, false)) ++ (last, true) :: rest)
      = (parts.flatten ++ last) :: chunks rest := by
  suffices h : ∀ acc, chunksAux (parts.map (fun p => (p, false)) ++ (last, true) :: rest) acc
      = (acc ++ parts.flatten ++ last) :: chunksAux rest [] by
    simpa [chunks] using h []
  induction parts with
  | nil => intro acc; simp [chunksAux]
  | cons p ps ih => intro acc; simp [chunksAux, ih, List.append_assoc]

/-- **drain_delivers_everything** (liveness of the transport; makes the second half of
    `bytes_unchanged` non-vacuous for EVERY message sequence): a consumer that keeps reading with
    any positive buffer size `k` reaches the end of the source after at most
    `bytes + messages + 1` reads, and what it was handed is then exactly the concatenation of all
    complete chunks - no chunk is withheld, none is delivered twice. The bound counts messages
    too because an empty chunk costs one read that returns no bytes. -/
theorem drain_delivers_everything (ms : List Msg) (k : Nat) (hk : 0 < k) :
    let N := msgBytes ms + ms.length + 1
    let r := ({ src := ms } : Asm).run (List.replicate N k)
    r.2.2 = true ∧ r.1.flatten = (chunks ms).flatten := by
  intro N r
  have he : r.2.2 = true :=
    run_reaches_end k hk N { src := ms } (by simp [Asm.mu, N])
  exact ⟨he, (bytes_unchanged ms (List.replicate N k)).2 he⟩

/-- **read_sizes_irrelevant**: two consumers with different read-size sequences that both reach
    the end of the source were handed the same bytes. -/
theorem read_sizes_irrelevant (ms : List Msg) (ns₁ ns₂ : List Nat)
    (h₁ : (({ src := ms } : Asm).run ns₁).2.2 = true)
    (h₂ : (({ src := ms } : Asm).run ns₂).2.2 = true) :
    (({ src := ms } : Asm).run ns₁).1.flatten = (({ src := ms } : Asm).run ns₂).1.flatten := by
  rw [(bytes_unchanged ms ns₁).2 h₁, (bytes_unchanged ms ns₂).2 h₂]

/-- **resplit_irrelevant**: two message sequences that carry the same chunks (however each chunk
    is cut into messages) are indistinguishable to draining consumers, whatever their read sizes. -/
theorem resplit_irrelevant (ms₁ ms₂ : List Msg) (hc : chunks ms₁ = chunks ms₂) (ns₁ ns₂ : List Nat)
    (h₁ : (({ src := ms₁ } : Asm).run ns₁).2.2 = true)
    (h₂ : (({ src := ms₂ } : Asm).run ns₂).2.2 = true) :
    (({ src := ms₁ } : Asm).run ns₁).1.flatten = (({ src := ms₂ } : Asm).run ns₂).1.flatten := by
  rw [(bytes_unchanged ms₁ ns₁).2 h₁, (bytes_unchanged ms₂ ns₂).2 h₂, hc]

-- non-vacuity of the two conditional statements: by `drain_delivers_everything` the hypotheses
-- h₁ / h₂ are met by `List.replicate (msgBytes ms + ms.length + 1) k` for every ms and k > 0.
example (ms : List Msg) : ∃ ns, (({ src := ms } : Asm).run ns).2.2 = true :=
  ⟨_, (drain_delivers_everything ms 1 (by omega)).1⟩

-- non-vacuity: a two-chunk stream split over three messages, read in sizes 1,2,8,8 and drained.
example :
    let ms : List Msg := [([1#8, 2#8], false), ([3#8], true), ([], true), ([4#8], true)]
    (({ src := ms } : Asm).run [1, 2, 8, 8, 8, 8]).1.flatten = [1#8, 2#8, 3#8, 4#8] ∧
    (({ src := ms } : Asm).run [1, 2, 8, 8, 8, 8]).2.2 = true := by decide

end Stef.Props.C15
