/-
  C15 - The gRPC transport delivers the writer's bytes unchanged and chunk-aligned.
-/
import Stef.Proofs.Chunk

namespace Stef.Props.C15
open Stef Stef.Chunk

/-- **bytes_unchanged**: for every message sequence (any splitting of chunks into messages,
    empty messages and empty chunks included) and every sequence of requested read sizes, the
    bytes handed out so far followed by what the assembler still owes equal the concatenation
    of all complete chunks; and once the source is exhausted (the read that returns the error)
    exactly the concatenation of all complete chunks has been handed out. -/
theorem bytes_unchanged (ms : List Msg) (ns : List Nat) :
    let r := ({ src := ms } : Asm).run ns
    r.1.flatten ++ r.2.1.owed = (chunks ms).flatten ∧
    (r.2.2 = true → r.1.flatten = (chunks ms).flatten) := by
  have h := run_owed { src := ms } ns
  simpa [Asm.owed] using h

/-- the delivered bytes are always a prefix of the concatenation of the complete chunks. -/
theorem delivered_is_prefix (ms : List Msg) (ns : List Nat) :
    (({ src := ms } : Asm).run ns).1.flatten <+: (chunks ms).flatten := by
  have h := (bytes_unchanged ms ns).1
  exact ⟨_, h⟩

/-- **chunk_aligned**: at any point of an error-free run, the source has been consumed up to a
    chunk boundary `pre` (chunking distributes over it), and everything handed out so far
    together with the unread rest of the current buffer is exactly the content of the chunks
    whose end-of-chunk message has been consumed - no byte of a chunk is released before its
    final message arrived. -/
theorem chunk_aligned (ms : List Msg) (ns : List Nat) :
    let r := ({ src := ms } : Asm).run ns
    r.2.2 = false →
    ∃ pre, ms = pre ++ r.2.1.src ∧ Boundary pre ∧
      r.1.flatten ++ r.2.1.buf.drop r.2.1.readIndex = (chunks pre).flatten := by
  intro r he
  have := aligned_run (ms := ms) { src := ms } [] ns (aligned_init ms) he
  simpa [Aligned] using this

/-- the client sends each chunk as one message `header ++ content` flagged end-of-chunk, so the
    chunk list seen by the assembler is the list written. -/
theorem writer_one_message_per_chunk (cs : List (Bytes × Bytes)) :
    chunks (cs.map (fun c => writeChunk c.1 c.2)) = cs.map (fun c => c.1 ++ c.2) := by
  induction cs with
  | nil => simp [chunks, chunksAux]
  | cons c cs ih =>
    simp only [chunks, writeChunk] at ih
    simp [chunks, chunksAux, writeChunk, ih]

/-- splitting a chunk into any number of messages does not change the chunk. -/
theorem split_irrelevant (parts : List Bytes) (last : Bytes) (rest : List Msg) :
    chunks (parts.map (fun p => (p, false)) ++ (last, true) :: rest)
      = (parts.flatten ++ last) :: chunks rest := by
  suffices h : ∀ acc, chunksAux (parts.map (fun p => (p, false)) ++ (last, true) :: rest) acc
      = (acc ++ parts.flatten ++ last) :: chunksAux rest [] by
    simpa [chunks] using h []
  induction parts with
  | nil => intro acc; simp [chunksAux]
  | cons p ps ih => intro acc; simp [chunksAux, ih, List.append_assoc]

-- non-vacuity: a two-chunk stream split over three messages, read in sizes 1,2,8,8 and drained.
example :
    let ms : List Msg := [([1#8, 2#8], false), ([3#8], true), ([], true), ([4#8], true)]
    (({ src := ms } : Asm).run [1, 2, 8, 8, 8, 8]).1.flatten = [1#8, 2#8, 3#8, 4#8] ∧
    (({ src := ms } : Asm).run [1, 2, 8, 8, 8, 8]).2.2 = true := by decide

end Stef.Props.C15
