/-
  C12, parser half for the code as it is TODAY: the theorems of Stef/Props/C12.lean restated for
  `genParse2` = the parser REGENERATED from go/pkg/idl/parser.go (Stef/Gen/ParseFlow.lean, written by
  extract/parseflow.go on every check run; vocabulary Stef/ParseFlowSem.lean) running on the lexer
  REGENERATED from lexer.go (Stef/Gen/LexFlow.lean). Stef/Proofs/ParseFlowGen.lean proves every
  regenerated function of the parser equal to its hand counterpart of Stef/Idl.lean on every parser
  object (eat, parseDictModifier, parseFieldType, parseStructFieldModifier(s), HasField / AddField,
  parseStructField(s), parseStructModifier(s), parseStruct, parseOneof, parseMultimapField,
  parseMultimap, parseEnumField(s), parseEnum, parsePackage, Parse), so a change of parser.go either
  still proves equal here, or breaks that file (or makes the generator fail). The post-processing
  `ResolveRefs` / `PruneUnused` that `Parse` calls is the hand model's (see ParseFlowSem).
  Property theorems only.
-/
import Stef.Props.C12
import Stef.Proofs.ParseFlowGen

namespace Stef.Props.C12ParseGen
open Stef.Idl Stef.ParseFlowSem Stef.Proofs.LexFlowGen Stef.Proofs.ParseFlowGen

/-- `idl.Parse` with the regenerated lexer AND the regenerated parser (`NewLexer(input)`, a parser
    object with that lexer, `Parse()`) is the hand model's `parse` - for EVERY input. -/
theorem gen2_parse_eq (t : List Char) : genParse2 t = parse t := genParse2_eq t

/-- The regenerated `Parse()` started on ANY parser object with an empty heap whose lexer has no
    pending read error returns what the hand model returns for the tokens that lexer will deliver
    (`toks`: the current token, then what `Next()` yields up to EOF). -/
theorem gen2_parse_run (p : P) (he : p.lexer.isError = false) (hh : p.heap = {}) :
    outcomeOf (Gen.ParseFlow.parse.run p) = parseTokens (toks p.lexer) := parse_run p he hh

/-- non-vacuity: such a parser object (a lexer made by the regenerated `NewLexer`). -/
example : ∃ p : P, p.lexer.isError = false ∧ p.heap = {} ∧ toks p.lexer = lex "package a struct".toList := by
  obtain ⟨l, _, h2, h3⟩ := newLexer_toks "package a struct".toList
  exact ⟨{ lexer := l }, h2, rfl, h3⟩

/-- Accepted schemas are well-formed (see `C12.parse_ok_wf`), with the regenerated lexer and parser. -/
theorem gen2_parse_ok_wf (t : List Char) (σ : Schema) (h : genParse2 t = .ok σ) : σ.WF :=
  C12.parse_ok_wf t σ (by rw [← genParse2_eq]; exact h)

/-- non-vacuity: the sample schema of C12 is accepted by the regenerated parser on the regenerated lexer. -/
example : (match genParse2 C12.sample with
    | .ok σ => σ.structs.map (·.name) == [['O'], ['A'], ['R'], ['R','2']] &&
               σ.multimaps.length == 1 && σ.enums.length == 1
    | _ => false) = true := by decide +kernel

/-- Errors carry the position of the problem: a byte offset inside the input and a line/column
    counted from 1 (see `C12.parse_err_pos`), with the regenerated lexer and parser. -/
theorem gen2_parse_err_pos (t : List Char) (p : Pos) (c : ErrClass) (h : genParse2 t = .error p c) :
    p.Within t.length :=
  C12.parse_err_pos t p c (by rw [← genParse2_eq]; exact h)

example : genParse2 "package a\nstruct 5".toList = .error ⟨17, 2, 8⟩ .structName := by decide +kernel
example : genParse2 "package a // c\r\nstruct A root { F 0x }".toList = .error ⟨34, 2, 20⟩ .typeExpected := by
  decide +kernel
example : genParse2 "package a struct A root { F B }".toList = .error ⟨31, 1, 32⟩ .unknownType := by
  decide +kernel

/-- It never panics (see `C12.parse_no_panic`). For the regenerated parser this covers every way the
    translated code can go wrong: a nil dereference, a write to a nil map, an index out of range, a heap
    without counterpart in Stef/Schema.lean, a `for` loop that needs more rounds than it is granted
    (`stuck`), an error message the hand model has no class for, and the panic sites of the schema
    post-processing - `outcomeOf` turns each of them into a `panic` outcome. -/
theorem gen2_parse_no_panic (t : List Char) (s : PanicSite) : genParse2 t ≠ .panic s := by
  rw [genParse2_eq]; exact C12.parse_no_panic t s

/-- ... in particular the raw result of the regenerated `Parse()` on the lexer of any input is a normal
    return: neither `stuck` nor a Go panic. -/
theorem gen2_parse_returns (t : List Char) :
    ∃ l, (LexFlowSem.call (Gen.LexFlow.newLexer t) : LexFlowSem.M Unit Unit).run {} = .next () l ∧
      ∃ e p', Gen.ParseFlow.parse.run { lexer := l, schema := some {} } = .ok e p' := by
  obtain ⟨l, h1, _, _⟩ := newLexer_toks t
  refine ⟨l, h1, ?_⟩
  have hnp := gen2_parse_no_panic t
  simp only [genParse2, h1] at hnp
  cases hr : Gen.ParseFlow.parse.run { lexer := l, schema := some {} } with
  | ok e p' => exact ⟨e, p', rfl⟩
  | stuck => rw [hr] at hnp; exact (hnp .outOfFuel rfl).elim
  | panic g =>
    rw [hr] at hnp
    cases g with
    | schema s => exact (hnp s rfl).elim
    | _ => exact (hnp .nilDef rfl).elim

/-- non-vacuity: a loop that needs more rounds than it is granted IS `stuck` in the vocabulary. -/
example : (do
    for _ in (← rounds) do
      pure ()
    return () : M Unit).run {} = .stuck := rfl

/-- The parser's model-only "out of fuel" error is never reported (see `C12.parse_fuel_sufficient`). -/
theorem gen2_parse_fuel_sufficient (t : List Char) (p : Pos) : genParse2 t ≠ .error p .outOfFuel := by
  rw [genParse2_eq]; exact C12.parse_fuel_sufficient t p

/-- Enum member names are unique in every accepted schema (see `C12.enum_members_unique`). -/
theorem gen2_enum_members_unique (t : List Char) (σ : Schema) (h : genParse2 t = .ok σ) :
    σ.EnumMembersUnique :=
  C12.enum_members_unique t σ (by rw [← genParse2_eq]; exact h)

example : genParse2 C12.dupEnumMember = .error ⟨47, 1, 48⟩ (.dupEnumField ['X']) := by decide +kernel

/-- One field type (`parseFieldType`, with `[]`, the primitive types, `dict(..)`): on every parser object
    and every `*schema.FieldType` that points to a zero value, the regenerated function consumes the
    tokens the hand model's `parseFieldType` consumes and writes the Go value of the type it returns. -/
theorem gen2_parseFieldType (p : P) (r : FTRef) (he : p.lexer.isError = false) (hr : readFT p.heap r = some {})
    (ty : FType) (ts : List Token) (h : Idl.parseFieldType (toks p.lexer) = .ok ty ts) :
    ∃ l', (Gen.ParseFlow.parseFieldType (some r)).run p =
        .ok none { p with lexer := l', heap := writeFT p.heap r (toGoFT ty) } ∧ l'.isError = false ∧ toks l' = ts :=
  (parseFieldType_run p r he hr).1 ty ts h

example : ∃ (p : P) (r : FTRef), p.lexer.isError = false ∧ readFT p.heap r = some {} :=
  ⟨{ heap := { fields := [{}] } }, .ofField 0, rfl, rfl⟩

/-- The field list of a struct (`parseStructFields`: the loop, the duplicate-name check through
    `HasField` / `AddField`, the field type, `optional`): the regenerated loop builds exactly the fields the
    hand model's `parseStructFields` returns, on every parser object whose heap holds the structs `ss` and
    the struct `s` under construction. -/
theorem gen2_parseStructFields (p : P) (ss : List Struct) (s : Struct) (ms : List Multimap) (es : List Enum)
    (he : p.lexer.isError = false) (hh : p.heap = heapOf ss s ms es) (fs : List Field) (ts : List Token)
    (h : Idl.parseStructFields ((toks p.lexer).length + 1) s.fields (toks p.lexer) = .ok fs ts) :
    ∃ l', (Gen.ParseFlow.parseStructFields (some ss.length)).run p =
        .ok none { p with lexer := l', heap := heapOf ss { s with fields := fs } ms es } ∧
      l'.isError = false ∧ toks l' = ts :=
  (parseStructFields_run p ss s ms es he hh).1 fs ts h

example : ∃ (p : P) (s : Struct), p.lexer.isError = false ∧ p.heap = heapOf [] s [] [] :=
  ⟨{ heap := heapOf [] { name := ['A'] } [] [] }, { name := ['A'] }, rfl, rfl⟩

/-- The regenerated constants `schema.PrimitiveType*` are the codes the vocabulary reads. -/
theorem gen2_prim_codes (pr : Prim) : primOfCode (codeOfPrim pr) = some pr := primOfCode_codeOfPrim pr

/-- What `ResolveRefs` is given: the heap the regenerated parser built for a schema is read back as that
    schema (`absSchema`, the vocabulary's reading of the Go objects, inverts the encoding). -/
theorem gen2_absSchema (p : P) (σ : Schema) (h : Enc p σ) : absSchema p = some σ := absSchema_enc p σ h

example : Enc { schema := some (encSchema { pkg := [['a']] }), heap := encHeap { pkg := [['a']] } } { pkg := [['a']] } :=
  ⟨rfl, rfl⟩

end Stef.Props.C12ParseGen
