/-
  C03 (regenerated arithmetic cores) - the allocation-accounting theorems of Props/C03.lean and
  Props/Budget.lean (alloc_bound, alloc_counter_saturates, read_budget_per_record) and the column-bound
  theorem of the string decoder (string_decode_within_column), restated for the functions that
  /verif/extract translates from the CURRENT Go source (Stef/Gen/AllocFlow.lean, generator `AllocFlow`):
  every method of `AllocSizeChecker` (go/pkg/allocsizechecker.go) and the byte / varint / string methods of
  `BytesReader` / `BytesWriter` (go/pkg/membuffer.go). They are corollaries of Proofs/AllocFlowGen and
  Proofs/AllocFlowBufGen (regenerated = hand model) and of the hand-model theorems.

  A `uint` is a `BitVec 64` here, so the well-formedness hypotheses of the hand-model theorems (`size < 2^64`)
  are gone; the receiver kind is part of what is translated (a `ResetAllocSize` with a value receiver
  returns its input, and `gen_reset_zeroes` no longer holds).
-/
import Stef.Proofs.AllocFlowGen
import Stef.Proofs.AllocFlowBufGen
import Stef.Props.Budget

namespace Stef.Props.C03AllocGen
open Stef Stef.Alloc Stef.AllocFlowSem Stef.AllocFlowGen
open Stef.Gen.AllocFlow

/-! ### AllocSizeChecker -/

private theorem map_bytes (reqs : List GReq) : (reqs.map GReq.toReq).map Req.bytes = reqs.map GReq.bytes := by
  induction reqs with
  | nil => rfl
  | cons r rest ih => simp only [List.map_cons, ih]; rfl

/-- the regenerated methods ARE the hand model of Stef/Alloc.lean, on every state and argument
    (restated from Proofs/AllocFlowGen). -/
theorem gen_checker_is_model (a : AllocSizeChecker) (size count : Word) :
    toModel a.resetAllocSize = (toModel a).reset ∧
    toModel (a.addAllocSize size) = (toModel a).addAllocSize size.toNat ∧
    a.isOverLimit = (a, (toModel a).isOverLimit) ∧
    (toModel (a.prepAllocSize size).1, errB (a.prepAllocSize size).2) = (toModel a).prepAllocSize size.toNat ∧
    (toModel (a.prepAllocSizeN size count).1, errB (a.prepAllocSizeN size count).2) =
      (toModel a).prepAllocSizeN size.toNat count.toNat :=
  ⟨reset_eq a, addAllocSize_eq a size, isOverLimit_eq a, prepAllocSize_eq a size, prepAllocSizeN_eq a size count⟩

/-- `ResetAllocSize` really resets the CALLER's counter (pointer receiver, assignment of 0): whatever the
    state, the counter is zero afterwards. -/
theorem gen_reset_zeroes (a : AllocSizeChecker) : a.resetAllocSize = { allocatedSize := 0#64 } := rfl

/-- **alloc_bound** for the regenerated methods: all allocation requests made since a `ResetAllocSize()` that
    were granted (no error returned) sum up to at most RecordAllocLimit - as natural numbers, i.e. neither
    `size * count` nor the running sum wrapped. -/
theorem gen_alloc_bound (a : AllocSizeChecker) (reqs : List GReq)
    (h : (genGrant a.resetAllocSize reqs).2 = GoErr.nil) :
    (reqs.map GReq.bytes).sum ≤ Gen.recordAllocLimit := by
  have hg := genGrant_eq reqs a.resetAllocSize
  have h2 : (grant {} (reqs.map GReq.toReq)).2 = false := by
    have := congrArg Prod.snd hg
    simp only [h, errB, reset_eq, Checker.reset] at this
    rw [← this]; simp
  have := grant_bound (reqs.map GReq.toReq) {} (by simp)
    (by intro r hr; obtain ⟨g, _, rfl⟩ := List.mem_map.mp hr; exact g.toReq_wf) h2
  have h1 := this.1
  have h3 := this.2
  simp only [Nat.zero_add, map_bytes] at h1
  omega

/-- after granted requests the counter holds exactly their sum (from any state within the limit) -/
theorem gen_grant_counter (a : AllocSizeChecker) (reqs : List GReq)
    (ha : a.allocatedSize.toNat ≤ Gen.recordAllocLimit) (h : (genGrant a reqs).2 = GoErr.nil) :
    (genGrant a reqs).1.allocatedSize.toNat = a.allocatedSize.toNat + (reqs.map GReq.bytes).sum := by
  have hg := genGrant_eq reqs a
  have h2 : (grant (toModel a) (reqs.map GReq.toReq)).2 = false := by
    have := congrArg Prod.snd hg
    simp only [h, errB] at this
    rw [← this]; simp
  have := (grant_bound (reqs.map GReq.toReq) (toModel a) ha
    (by intro r hr; obtain ⟨g, _, rfl⟩ := List.mem_map.mp hr; exact g.toReq_wf) h2).1
  rw [← congrArg Prod.fst hg, map_bytes] at this
  simpa [toModel] using this

/-- completeness: requests whose total fits into what is left of the budget are all granted. -/
theorem gen_grant_complete (a : AllocSizeChecker) (reqs : List GReq)
    (h : a.allocatedSize.toNat + (reqs.map GReq.bytes).sum ≤ Gen.recordAllocLimit) :
    (genGrant a reqs).2 = GoErr.nil := by
  have hg := congrArg Prod.snd (genGrant_eq reqs a)
  have := grant_complete (reqs.map GReq.toReq) (toModel a)
    (by rw [map_bytes]; simpa [toModel] using h)
  simp only [this, errB] at hg
  simpa using hg

/-- **alloc_counter_saturates**: `AddAllocSize` never makes the (unsigned) counter smaller - on overflow it
    saturates at MaxUint instead of wrapping. -/
theorem gen_alloc_counter_saturates (a : AllocSizeChecker) (size : Word) :
    a.allocatedSize ≤ (a.addAllocSize size).allocatedSize := by
  have h := (add_monotone (toModel a) size.toNat
    (by have := toModel_lt a; simp only [maxUint]; omega)).1
  rw [← addAllocSize_eq] at h
  exact BitVec.le_def.mpr h

/-- **read_budget_per_record** for the regenerated methods: the loop of the generated `Reader.Read`
    (`ResetAllocSize()` before each record iff the regenerated call-site fact
    `Gen.readResetsBudgetBeforeDecode`, then the record's requests in order) decodes ALL records of every
    list in which each record asks for at most RecordAllocLimit bytes, from every state of the checker.
    That `ResetAllocSize` resets is no longer a separate fact (`Gen.resetAllocSizeResets`): it is the
    translated method. -/
theorem gen_read_budget_per_record (recs : List (List GReq)) (a : AllocSizeChecker)
    (h : ∀ r ∈ recs, (r.map GReq.bytes).sum ≤ Gen.recordAllocLimit) :
    genReadRecords Gen.readResetsBudgetBeforeDecode a recs = recs.length := by
  rw [genReadRecords_eq]
  have : Gen.readResetsBudgetBeforeDecode = true := rfl
  rw [this, readRecords_all]
  · simp
  · intro r hr
    obtain ⟨g, hg, rfl⟩ := List.mem_map.mp hr
    rw [map_bytes]
    exact h g hg

/-- a record over the limit IS refused (the theorem above does not hold for the wrong reason). -/
theorem gen_over_limit_record_refused (a : AllocSizeChecker) :
    genReadRecords true a [[.one (BitVec.ofNat 64 (Gen.recordAllocLimit + 1))]] = 0 := by
  rw [genReadRecords_eq]
  exact Budget.over_limit_record_refused (toModel a)

/-- a product that overflows 64 bits is refused and saturates the counter (no wrapped `size * count`). -/
theorem gen_overflowing_product_refused (a : AllocSizeChecker) (size count : Word)
    (h : 2 ^ 64 ≤ size.toNat * count.toNat) :
    a.prepAllocSizeN size count = ({ allocatedSize := 18446744073709551615#64 }, GoErr.errRecordAllocLimitExceeded) := by
  have hh : ¬ (bitsMul size count).1 = 0#64 := by
    rw [bitsMul_hi]
    simp only [mul64]
    intro h0
    have := (Nat.div_eq_zero_iff.mp h0).resolve_left (by decide)
    omega
  simp [AllocSizeChecker.prepAllocSizeN, hh]

-- non-vacuity
example : (genGrant ({ allocatedSize := 77#64 } : AllocSizeChecker).resetAllocSize [.one 100#64, .many 8#64 1000#64]).2 = GoErr.nil := by
  decide
example : (genGrant { allocatedSize := 0#64 } [.one 100#64, .many 1099511627776#64 1099511627776#64]).2 =
    GoErr.errRecordAllocLimitExceeded := by decide
example : genReadRecords Gen.readResetsBudgetBeforeDecode { allocatedSize := 5#64 }
    (List.replicate 280 [.many 20000#64 8#64] ++ List.replicate 280 []) = 560 := by
  rw [gen_read_budget_per_record]
  · simp only [List.length_append, List.length_replicate]
  · intro r hr
    simp only [List.mem_append, List.mem_replicate] at hr
    rcases hr with ⟨_, rfl⟩ | ⟨_, rfl⟩ <;> decide
-- the counter saturates: MaxUint - 1 plus 5 is MaxUint, not 3
example : (({ allocatedSize := 18446744073709551614#64 } : AllocSizeChecker).addAllocSize 5#64).allocatedSize =
    18446744073709551615#64 := by decide

/-! ### BytesReader / BytesWriter -/

/-- `ReadUvarint` / `ReadVarint` ARE the hand model's `Varint.decode` / `Varint.decodeSigned` on the unread
    part of the buffer, for every well-formed reader (restated from Proofs/AllocFlowBufGen): value, error
    (io.EOF when the buffer ends early OR the value is longer than 10 bytes / overflows: `n <= 0`), and the
    index moves by exactly the bytes the hand model consumed - never backwards. -/
theorem gen_read_uvarint_is_model (r : BytesReader) (h : RdWf r) :
    r.readUvarint = some (match Varint.decode (unread r) with
      | some (v, rs) => (advance r ((unread r).length - rs.length), v, GoErr.nil)
      | none => (r, 0#64, GoErr.ioEOF)) := readUvarint_eq r h

theorem gen_read_varint_is_model (r : BytesReader) (h : RdWf r) :
    r.readVarint = some (match Varint.decodeSigned (unread r) with
      | some (v, rs) => (advance r ((unread r).length - rs.length), v, GoErr.nil)
      | none => (r, 0#64, GoErr.ioEOF)) := readVarint_eq r h

/-- **the byte-level reader never panics and stays inside its buffer**: for every well-formed reader
    (0 <= byteIndex <= len(buf)) and every argument (any `int`, negative or huge), each translated method
    returns (no index / slice panic, no `unsafe.String` beyond the buffer), leaves the buffer alone and keeps
    the reader well-formed. -/
theorem gen_reader_safe (r : BytesReader) (n : Int) (h : RdWf r) :
    (∃ o, r.readByte = some o ∧ RdWf o.1 ∧ o.1.buf = r.buf) ∧
    (∃ o, r.readUvarint = some o ∧ RdWf o.1 ∧ o.1.buf = r.buf) ∧
    (∃ o, r.readVarint = some o ∧ RdWf o.1 ∧ o.1.buf = r.buf) ∧
    (∃ o, r.readStringBytes n = some o ∧ RdWf o.1 ∧ o.1.buf = r.buf) ∧
    (∃ o, r.readBytesMapped n = some o ∧ RdWf o.1 ∧ o.1.buf = r.buf) ∧
    (∃ o, r.readStringMapped n = some o ∧ RdWf o.1 ∧ o.1.buf = r.buf) := by
  have htb : RdWf (takeBytes r n).1 ∧ (takeBytes r n).1.buf = r.buf :=
    ⟨takeBytes_wf r n h, by unfold takeBytes; split <;> rfl⟩
  refine ⟨?_, ?_, ?_, ?_, ?_, ?_⟩
  · refine ⟨_, readByte_eq r h, ?_⟩
    cases hu : unread r with
    | nil => exact ⟨h, rfl⟩
    | cons b rs => exact ⟨advance_wf r 1 h (by rw [hu]; simp), rfl⟩
  · refine ⟨_, readUvarint_eq r h, ?_⟩
    cases hd : Varint.decode (unread r) with
    | none => exact ⟨h, rfl⟩
    | some p => exact ⟨(unread_after_decode r h p.1 p.2 hd).2, rfl⟩
  · refine ⟨_, readVarint_eq r h, ?_⟩
    simp only [Varint.decodeSigned]
    cases hd : Varint.decode (unread r) with
    | none => exact ⟨h, rfl⟩
    | some p => exact ⟨(unread_after_decode r h p.1 p.2 hd).2, rfl⟩
  · exact ⟨_, readStringBytes_eq r n h, htb⟩
  · exact ⟨_, readBytesMapped_eq r n h, htb⟩
  · refine ⟨_, readStringMapped_eq r n h, ?_⟩
    split
    · exact ⟨h, rfl⟩
    · exact htb

/-- **string_decode_within_column** over the regenerated reader: `StringDecoder.Decode` (its three lines
    transcribed in `stringDecode`; `ReadVarint` and `ReadStringMapped` are the regenerated ones) never panics on
    a well-formed reader, and a decoded string and what is left unread are disjoint parts of what was unread
    before - whatever length the column announces. -/
theorem gen_string_decode_within_column (r : BytesReader) (h : RdWf r) :
    ∃ out, stringDecode r = some out ∧
      ∀ r' v, out = .ok (r', v) → v.length + (unread r').length < (unread r).length ∧ RdWf r' ∧ r'.buf = r.buf := by
  obtain ⟨out, ho, hm⟩ := stringDecode_eq r h
  refine ⟨out, ho, ?_⟩
  intro r' v hv
  subst hv
  exact ⟨Codec.strDecode_within _ _ _ hm.1, hm.2⟩

/-- the decoder over the regenerated reader IS `Codec.strDecode` (values, rest and error classes). -/
theorem gen_string_decode_is_model (r : BytesReader) (h : RdWf r) :
    ∃ out, stringDecode r = some out ∧
      (match out with
        | .ok (r', v) => Codec.strDecode (unread r) = .ok (v, unread r') ∧ RdWf r' ∧ r'.buf = r.buf
        | .error e => Codec.strDecode (unread r) = .error e) := stringDecode_eq r h

/-- `WriteUvarint` / `WriteVarint` append exactly the hand model's LEB128 / zig-zag bytes. -/
theorem gen_write_varint_is_model (w : BytesWriter) (v : Word) :
    (w.writeUvarint v).buf = w.buf ++ Varint.encode v ∧ (w.writeVarint v).buf = w.buf ++ Varint.encodeSigned v :=
  ⟨rfl, rfl⟩

/-- **varint round trip through the regenerated writer and reader**: what `WriteVarint(x)` appended is read
    back as `x` by `ReadVarint`, and the reader stands right behind it. -/
theorem gen_varint_roundtrip (w : BytesWriter) (x : Word) (tail : Bytes)
    (hlen : lenI ((w.writeVarint x).buf ++ tail) < 2 ^ 63) :
    ∃ r', ({ buf := (w.writeVarint x).buf ++ tail, byteIndex := lenI w.buf } : BytesReader).readVarint =
        some (r', x, GoErr.nil) ∧ unread r' = tail := by
  have hw : RdWf { buf := (w.writeVarint x).buf ++ tail, byteIndex := lenI w.buf } := by
    refine ⟨by simp [lenI], ?_, hlen⟩
    simp only [writeVarint_eq, lenI, List.length_append]
    omega
  have hu : unread { buf := (w.writeVarint x).buf ++ tail, byteIndex := lenI w.buf } =
      Varint.encodeSigned x ++ tail := by
    simp [unread, writeVarint_eq, lenI, List.append_assoc]
  have hd := Varint.decodeSigned_encodeSigned x tail
  rw [readVarint_eq _ hw, hu, hd]
  refine ⟨_, rfl, ?_⟩
  have hdec : ∃ v, Varint.decode (Varint.encodeSigned x ++ tail) = some (v, tail) := by
    simp only [Varint.decodeSigned] at hd
    cases hx : Varint.decode (Varint.encodeSigned x ++ tail) with
    | none => rw [hx] at hd; cases hd
    | some p =>
      rw [hx] at hd
      simp only [Option.map_some, Option.some.injEq, Prod.mk.injEq] at hd
      exact ⟨p.1, by rw [← hd.2]⟩
  obtain ⟨v, hv⟩ := hdec
  rw [← hu] at hv ⊢
  exact (unread_after_decode _ hw v tail hv).1

-- non-vacuity
example : RdWf { buf := [0x04#8, 0x41#8, 0x42#8, 0x43#8], byteIndex := 0 } := by
  simp [RdWf, lenI]
-- "AB" with length prefix 2 (zig-zag 4), one byte left
example : (match stringDecode { buf := [0x04#8, 0x41#8, 0x42#8, 0x43#8], byteIndex := 0 } with
    | some (.ok (r', v)) => r'.byteIndex == 3 && v == [0x41#8, 0x42#8] && unread r' == [0x43#8]
    | _ => false) = true := by
  with_unfolding_all decide
-- an 11-byte varint (n < 0 from binary.Uvarint): io.EOF and the index does NOT move (with `n == 0` instead
-- of `n <= 0` it would move backwards by 11)
example : ({ buf := List.replicate 11 0x80#8 ++ [0x01#8], byteIndex := 0 } : BytesReader).readUvarint =
    some ({ buf := List.replicate 11 0x80#8 ++ [0x01#8], byteIndex := 0 }, 0#64, GoErr.ioEOF) := by
  with_unfolding_all decide
-- the hypothesis RdWf matters: with a negative index Go panics
example : ({ buf := [0x01#8], byteIndex := -1 } : BytesReader).readUvarint = none := by
  with_unfolding_all decide
-- a length of 2^63-1 over a 2-byte remainder is io.EOF
example : (({ buf := [0x41#8, 0x42#8], byteIndex := 0 } : BytesReader).readStringMapped 9223372036854775807).map (·.2.2) =
    some GoErr.ioEOF := by
  with_unfolding_all decide

end Stef.Props.C03AllocGen
