/-
  C01 - the generated record API leaves SOUND modified marks (DESIGN.md section 0.2b).

  `Stef/Api.lean` is the executable model of the writer-side record of an arbitrary schema (value, hidden
  state, modified marks) with the public API calls as operations at a navigation path and `write` (value
  and mark tree for the proved encoder `SpecEnc.encodeNode`, marks cleared as `Encode` clears them). It is
  tied to the generated Go code call for call and byte for byte (op `ap`). Here, for every schema, every
  record state, every reader value, every path and every argument:

    call_preserves_sound      a public API call keeps the marks sound against what the reader holds
                              (`Snd`): Set<F> of primitive / optional primitive fields, Unset<F>,
                              Set<F>() of optional composites, Set<F>(dictionary struct, frozen or not),
                              SetType, Set<Alt>, EnsureLen / Append / CopyFromSlice of arrays, Append of
                              structs (shared or copied), EnsureLen / SetKey / SetValue / Append of multimaps,
                              SetKey / SetValue of dictionary-struct keys / values (frozen or not),
                              CopyFrom, at any nested path.
    copyFrom_preserves_sound  the instance for CopyFrom(src) (copy<T> of structs, oneofs, arrays and
                              multimaps, any source and destination state), EVERY schema: dictionary
                              structs included (shared frozen children assigned by reference, owned
                              children copied into, shared destination children replaced by an owned
                              copy first - `unshare` -, stale hidden values of absent optional fields).
    write_sound               sound marks make `SpecEnc.encodeNode` return an effective value - what the
                              reader holds afterwards (`C01Enc.encode_decode_node`) - that SHOWS exactly
                              the record written; the record is left in sync with it and unmarked, the
                              writer's and the reader's struct dictionaries stay in step (RefNum hits and
                              new entries, forced full masks after a codec restart included).
    write_keeps_value, written_values   Write does not change the visible value of the record.
    tree_ok                   the decoder tree `Spec.mkNode` builds for the writer's own schema satisfies
                              the side conditions of `write_sound`.
    new_record_in_sync        `Init()` and the reader's initial value are in sync.
    api_marks_sound           every Write of every history of the calls above, over any number of frames
                              with any restart flags: the effective records of `SpecEnc.encodeFrames` show
                              the records written, one by one.
    api_stream_roundtrip      ... hence `Spec.decodeStream` applied to the bytes of `SpecEnc.encodeStream`
                              returns, without error, records that show exactly the records written.
  No hypothesis on the calls or the schema is left (the former `_partial` theorems with their hypothesis
  `Covered` / `C.NoDict` are gone). In-place modification of a dictionary struct reached through a getter
  is outside the model (navigation into it is refused).

  The invariant: `Snd C W R?` = the marks of `W` are sound against the reader value - whatever is not
  marked is in sync with the reader and has no marks below, whatever is marked is sound recursively; an
  OWNED dictionary struct (written by value) has UP-CLOSED marks (`UC`: no mark below an unmarked bit), so
  that a copy into it signals its parent and `setUnmodifiedRecursively` clears it; a SHARED (frozen) one is
  exempt; the stale hidden value of an absent optional field is up-closed too (Stef/Proofs/ApiInv.lean).

  `Shows C W r`: the reader value `r` shows exactly the visible value of the record state `W`
  (presence bits, oneof choice, element order, every primitive bit for bit; the stale contents of
  absent optional fields on either side are not compared).
-/
import Stef.Proofs.ApiTree
import Stef.Props.C01Enc

namespace Stef.Props.C01Api
open Stef Stef.Spec Stef.SpecEnc Stef.Api

/-- **call_preserves_sound**: one public API call (path + method + arguments) on a record whose marks
    are sound against the reader's value leaves them sound. `R = none`: nothing is known about the
    reader's value (everything visible is marked). -/
theorem call_preserves_sound (C : Ctx) (path : List Step) (op : Op) (w w' : AS)
    (R : Option St) (hroot : C.isDictNode w = false) (h : call C path op w = .ok w') (hs : Snd C w R) : Snd C w' R :=
  call_snd C path op w w' R hroot h hs

/-- **copyFrom_preserves_sound**: `CopyFrom(src)` at any path (destination: struct, oneof or multimap,
    arrays inside them included), any source state, any destination state, any schema - dictionary
    structs included. -/
theorem copyFrom_preserves_sound (C : Ctx) (path : List Step) (src w w' : AS)
    (R : Option St) (hroot : C.isDictNode w = false) (h : call C path (.copyFrom src) w = .ok w') (hs : Snd C w R) :
    Snd C w' R :=
  call_snd C path (.copyFrom src) w w' R hroot h hs

/-- the copy itself: `copy<T>(dst, src)` preserves soundness against every reader value, up-closedness,
    and - when it sends no signal to the parent - leaves a destination without marks in sync -/
theorem copy_preserves (C : Ctx) (dst src : AS) : Pres C dst (C.copy dst src).1 (C.copy dst src).2 :=
  copy_pres C dst src

/-- **write_sound**: `writeNode` (the mark tree of `Write()`) on a record with sound marks, encoded by
    the proved encoder against the reader's value `R`: the effective value shows the record, the
    record is unmarked and in sync with it, the dictionaries stay in step. -/
theorem write_sound (C : Ctx) (fuel : Nat) (env : List (String × Node)) (n : Node) (W : AS) (s : WSt) (mk : Mk)
    (W' : AS) (s' : WSt) (R : St) (ds : DS) (evs : List Ev) (ds' : DS) (eff : St)
    (hw : writeNode C fuel env n W s = some (mk, W', s'))
    (henc : encodeNode C.σ fuel env n R (vis C W) mk ds = some (evs, ds', eff))
    (hs : Snd C W (some R)) (hok : NodeOk C n) (henv : EnvOk C env) (hd : DictOk C s.wd ds.tdict) :
    Shows C W' eff ∧ Quiet C W' ∧ Snd C W' (some eff) ∧ DictOk C s'.wd ds'.tdict ∧
      decodeNode C.σ fuel env n R (feed evs ds) = .ok (eff, ds') := by
  obtain ⟨h1, h2, h3⟩ := writeNode_sound C fuel env n W s mk W' s' (some R) R ds evs ds' eff hw henc (compat_some R) hs hok henv hd
  exact ⟨h1, h2, snd_of_sync C false W' eff h1 h2 (writeNode_uc C fuel env n W s mk W' s' (some R) hw hs hok henv h2), h3,
    C01Enc.encode_decode_node C.σ fuel env n R (vis C W) mk ds evs ds' eff henc⟩

/-- **write_keeps_value**: `Write()` does not change the record: the state it leaves (marks cleared,
    dictionary structs unmarked / marked in full) has the visible value it was called on. -/
theorem write_keeps_value (C : Ctx) (fuel : Nat) (env : List (String × Node)) (n : Node) (W : AS) (s : WSt) (mk : Mk)
    (W' : AS) (s' : WSt) (hw : writeNode C fuel env n W s = some (mk, W', s')) : vis C W' = vis C W :=
  writeNode_vis C fuel env n W s mk W' s' hw

/-- **written_values**: in a history, the record states that the Writes leave (`wss`, which the
    reader's records are shown to show below) have exactly the visible values that were handed to the
    encoder (`ms`), i.e. the values of the records when Write was called. -/
theorem written_values (C : Ctx) (root : Node) (frames : List (Nat × List Calls)) (w : AS) (s : WSt)
    (ms : List (Nat × List (St × Mk))) (wss : List (List AS)) (w' : AS) (s' : WSt)
    (hrun : runFrames C root frames w s = some (ms, wss, w', s')) :
    wss.flatten.map (vis C) = (ms.flatMap (·.2)).map (·.1) :=
  runFrames_vis C root frames w s ms wss w' s' hrun

/-- **tree_ok**: the decoder tree of the writer's own schema meets the side conditions. -/
theorem tree_ok (C : Ctx) (fuel : Nat) (ty : Ty) (n : Node) (b : Build) (h : mkNode C.σ fuel [] ty {} = .ok (n, b)) :
    NodeOk C n :=
  mkNode_nodeOk C fuel [] ty n b h

/-- **new_record_in_sync**: a new record (`Init()`) and the reader's initial value. -/
theorem new_record_in_sync (C : Ctx) (ty : Ty) :
    Shows C (C.init ty) (initSt C.σ initFuel ty) ∧ Quiet C (C.init ty) ∧ Snd C (C.init ty) (some (initSt C.σ initFuel ty)) := by
  obtain ⟨h1, h2⟩ := init_sync C initFuelA ty
  exact ⟨h1, h2, snd_of_sync C false _ _ h1 h2 (uc_init C ty)⟩

/-- **api_marks_sound**: a whole history - per frame its restart flags and per record the API
    calls made since the previous Write - on a record of root type `name` that starts with marks sound
    against the reader's value `R`: whatever `SpecEnc.encodeFrames` makes of the values and marks the
    model's Writes hand over, its effective records show the records written, one by one. -/
theorem api_marks_sound (C : Ctx) (col : Nat) (name : String) (dict : Option String) (kept oc : Nat)
    (fields : List (Bool × Node)) (hroot : NodeOk C (.struct col name dict kept oc fields)) (hnd : C.isDictName name = false)
    (frames : List (Nat × List Calls)) (ins : List FrameIn) (m p : Nat) (fr : Bool) (fs : List AS) (s : WSt) (R : St) (ds : DS)
    (ms : List (Nat × List (St × Mk))) (wss : List (List AS)) (W' : AS) (s' : WSt) (evss : List (List Ev)) (ds' : DS)
    (effss : List (List St))
    (hrun : runFrames C (.struct col name dict kept oc fields) frames (.struct name m p fr fs) s = some (ms, wss, W', s'))
    (hins : ins.map (fun f => (f.flags, f.recs)) = ms)
    (henc : encodeFrames C.σ (.struct col name dict kept oc fields) ins R ds = some (evss, ds', effss))
    (hs : Snd C (.struct name m p fr fs) (some R)) (hd : DictOk C s.wd ds.tdict) :
    ShowsAll C wss.flatten effss.flatten :=
  frames_sound C col name dict kept oc fields hroot hnd frames ins m p fr fs s R ds ms wss W' s' evss ds' effss hrun hins henc hs hd

/-- **api_stream_roundtrip**: from `Init()` to the reader. For a root struct `rootName` of the
    schema that is not a dictionary struct, any history of calls over any frames: if
    `SpecEnc.encodeStream` accepts the values and marks that the model's Writes produce (with the fuels
    of its frames), then `Spec.decodeStream` decodes the bytes without error to records that show
    exactly the records written, in order. -/
theorem api_stream_roundtrip (C : Ctx) (rootName : String) (d : Option String) (fds : List Field)
    (hfind : C.σ.find rootName = some (.struct d fds)) (hnd : C.isDictName rootName = false)
    (root : Node) (b : Build) (hmk : mkNode C.σ 200 [] (.ref rootName) {} = .ok (root, b))
    (frames : List (Nat × List Calls)) (ins : List FrameIn)
    (ms : List (Nat × List (St × Mk))) (wss : List (List AS)) (W' : AS) (s' : WSt) (bytes : Bytes) (effss : List (List St))
    (hrun : runFrames C root frames (C.init (.ref rootName)) {} = some (ms, wss, W', s'))
    (hins : ins.map (fun f => (f.flags, f.recs)) = ms)
    (henc : encodeStream C.σ rootName ins = some (bytes, effss)) :
    (decodeStream C.σ rootName bytes).error = none ∧
    (decodeStream C.σ rootName bytes).records.map (·.2) = effss.flatten ∧
    ShowsAll C wss.flatten effss.flatten := by
  obtain ⟨r1, r2, _⟩ := C01Enc.stream_roundtrip C.σ rootName ins bytes effss henc
  refine ⟨r1, r2, ?_⟩
  obtain ⟨col, cnt, oc, nodes, rfl⟩ := mkNode_root_struct C.σ 199 rootName d fds {} b root hfind hmk
  obtain ⟨fs0, hinit⟩ := init_struct C rootName d fds hfind
  have hok := mkNode_nodeOk C 200 [] (.ref rootName) _ b hmk
  unfold encodeStream at henc
  rw [hmk] at henc
  simp only at henc
  split at henc
  · simp at henc
  · rename_i frs evss es' effss' hsf
    simp only [Option.some.injEq, Prod.mk.injEq] at henc
    obtain ⟨_, rfl⟩ := henc
    obtain ⟨hef, _⟩ := streamFrames_matches C.σ _ b.nextCol ins frs evss _ _ es' effss' hsf
    have hsync := new_record_in_sync C (.ref rootName)
    rw [hinit] at hrun hsync
    exact frames_sound C col rootName d cnt oc nodes hok hnd frames ins 0 0 false fs0 {} _ _ ms wss W' s' evss es' effss'
      hrun hins hef hsync.2.2 (dictOk_nil C)

/-! ## Non-vacuity: the schema `SpecEnc.Ex.σ` (struct with an optional primitive and an optional multimap,
    oneof with a struct alternative and a recursive array alternative, array of structs, multimap with
    dictionary keys and oneof values, dictionary struct), a history of four records in two frames -/

set_option maxRecDepth 1000000

namespace Ex
def C : Ctx := { σ := SpecEnc.Ex.σ, ptr := [] }
def root : Node := SpecEnc.Ex.root
def str (s : String) : St := SpecEnc.Ex.str s

/-- a frozen `Res` value built through its own setters -/
def res1 : AS :=
  match applyCalls C [([], .setPrim 0 (str "res")), ([.field 1], .ensureLen 1), ([.field 1], .setKey 0 (str "k1")),
      ([.field 1, .val 0], .setAlt 1 (.i 7#64))] (C.init (.ref "Res")) with
  | .ok a => freezeAS a
  | .error _ => .nil

/-- record 1: primitives, an optional primitive, a oneof with a struct alternative, an array of
    structs, an optional multimap with a oneof value, a shared frozen dictionary struct -/
def calls1 : Calls := [
  ([], .setPrim 0 (.i 5#64)),
  ([], .setPrim 1 (str "hello")),
  ([.field 2], .setType 2),
  ([.field 2, .alt 2], .setPrim 0 (.f 0x3ff0000000000000#64)),
  ([.field 3], .ensureLen 2),
  ([.field 3, .at 1], .setPrim 1 (.b true)),
  ([], .setPresent 4),
  ([.field 4], .ensureLen 1),
  ([.field 4], .setKey 0 (str "hello")),
  ([.field 4, .val 0], .setAlt 1 (.i 7#64)),
  ([], .setObj 5 res1),
  ([], .setPrim 6 (.f 0x4000000000000000#64))]

/-- record 2: the optional primitive becomes absent, the oneof switches to its recursive array
    alternative, the array grows, a multimap value changes, the same dictionary value again -/
def calls2 : Calls := [
  ([], .unset 1),
  ([.field 2], .setType 3),
  ([.field 2, .alt 3], .ensureLen 1),
  ([.field 2, .alt 3, .at 0], .setAlt 1 (.i 9#64)),
  ([.field 3], .ensureLen 3),
  ([.field 3, .at 2], .setPrim 0 (.f 3#64)),
  ([.field 4, .val 0], .setAlt 1 (.i 8#64)),
  ([], .setObj 5 res1)]

/-- record 3 (after a restart of dictionaries and codecs): the array shrinks and grows again (the
    re-exposed element is reset), the multimap gets a second pair, the optional multimap is unset -/
def calls3 : Calls := [
  ([.field 3], .ensureLen 1),
  ([.field 3], .ensureLen 2),
  ([.field 4], .ensureLen 2),
  ([.field 4], .setKey 1 (str "k2")),
  ([.field 2], .setType 0)]

def frames : List (Nat × List Calls) := [(0, [calls1, calls2]), (5, [calls3, [([], .unset 4)]])]

def run := runFrames C root frames (C.init (.ref "Root")) {}
def ms : List (Nat × List (St × Mk)) := match run with | some (ms, _, _, _) => ms | none => []
def wss : List (List AS) := match run with | some (_, wss, _, _) => wss | none => []
def ins : List FrameIn := ms.map (fun f => { flags := f.1, fuel := 10, recs := f.2 })
end Ex

/-- the reader's initial value and the fresh encoder state -/
def Ex.R0 : St := initSt Ex.C.σ initFuel (.ref "Root")

def Ex.effss : List (List St) :=
  match encodeFrames Ex.C.σ Ex.root Ex.ins Ex.R0 SpecEnc.Ex.ds0 with
  | some (_, _, effss) => effss
  | none => []

theorem Ex.mk_ok : mkNode Ex.C.σ 200 [] (.ref "Root") {} = .ok (Ex.root, SpecEnc.Ex.built.2) := by with_unfolding_all rfl

theorem Ex.run_ok : ∃ W' s', runFrames Ex.C Ex.root Ex.frames (Ex.C.init (.ref "Root")) {} = some (Ex.ms, Ex.wss, W', s') :=
  ⟨_, _, by with_unfolding_all rfl⟩

theorem Ex.enc_ok : ∃ evss ds', encodeFrames Ex.C.σ Ex.root Ex.ins Ex.R0 SpecEnc.Ex.ds0 = some (evss, ds', Ex.effss) :=
  ⟨_, _, by with_unfolding_all rfl⟩

-- the history really has four records in two frames (the second restarts dictionaries and codecs)
example : Ex.ms.map (fun f => (f.1, f.2.length)) = [(0, 2), (5, 2)] := by with_unfolding_all rfl

-- tree_ok: the decoder tree of the example schema
example : NodeOk Ex.C Ex.root := tree_ok Ex.C 200 (.ref "Root") Ex.root _ Ex.mk_ok

-- new_record_in_sync
example : Snd Ex.C (Ex.C.init (.ref "Root")) (some Ex.R0) := (new_record_in_sync Ex.C (.ref "Root")).2.2

-- call_preserves_sound: growing the array of structs of a new record
example : ∃ w', call Ex.C [.field 3] (.ensureLen 2) (Ex.C.init (.ref "Root")) = .ok w' ∧ Snd Ex.C w' (some Ex.R0) := by
  have h : ∃ w', call Ex.C [.field 3] (.ensureLen 2) (Ex.C.init (.ref "Root")) = .ok w' := ⟨_, by with_unfolding_all rfl⟩
  obtain ⟨w', h⟩ := h
  exact ⟨w', h, call_preserves_sound Ex.C _ _ _ w' _ (by with_unfolding_all rfl) h (new_record_in_sync Ex.C (.ref "Root")).2.2⟩

/-- **api_marks_sound** applies to the example: the effective records of the proved encoder
    show the four records written -/
theorem Ex.sound : ShowsAll Ex.C Ex.wss.flatten Ex.effss.flatten := by
  obtain ⟨W', s', hrun⟩ := Ex.run_ok
  obtain ⟨evss, ds', henc⟩ := Ex.enc_ok
  have hfind : ∃ fds, Ex.C.σ.find "Root" = some (.struct none fds) := ⟨_, by with_unfolding_all rfl⟩
  obtain ⟨fds, hfind⟩ := hfind
  obtain ⟨col, cnt, oc, nodes, hr⟩ := mkNode_root_struct Ex.C.σ 199 "Root" none _ {} _ Ex.root hfind Ex.mk_ok
  obtain ⟨fs0, hinit⟩ := init_struct Ex.C "Root" none _ hfind
  have hok := tree_ok Ex.C 200 (.ref "Root") Ex.root _ Ex.mk_ok
  have hsync := (new_record_in_sync Ex.C (.ref "Root")).2.2
  rw [hr] at hrun henc hok
  rw [hinit] at hrun hsync
  exact api_marks_sound Ex.C col "Root" none cnt oc nodes hok (by with_unfolding_all rfl) Ex.frames Ex.ins 0 0 false fs0 {}
    Ex.R0 SpecEnc.Ex.ds0 Ex.ms Ex.wss W' s' evss ds' Ex.effss hrun (by with_unfolding_all rfl) henc hsync (dictOk_nil Ex.C)

/-- frame fuels as `decodeStream` derives them from the frame sizes (content bits + records + 1000) -/
def Ex.insS : List FrameIn := (Ex.ms.zip [1514, 1378]).map (fun f => { flags := f.1.1, fuel := f.2, recs := f.1.2 })

theorem Ex.stream_ok : (encodeStream Ex.C.σ "Root" Ex.insS).isSome = true := by decide +kernel

/-- **api_stream_roundtrip** applies to the example: the bytes of the stream decode, without
    error, to four records that show the four records written -/
theorem Ex.stream : ∃ bytes effss, encodeStream Ex.C.σ "Root" Ex.insS = some (bytes, effss) ∧
    (decodeStream Ex.C.σ "Root" bytes).error = none ∧
    (decodeStream Ex.C.σ "Root" bytes).records.map (·.2) = effss.flatten ∧
    ShowsAll Ex.C Ex.wss.flatten effss.flatten := by
  obtain ⟨⟨bytes, effss⟩, henc⟩ := Option.isSome_iff_exists.mp Ex.stream_ok
  obtain ⟨W', s', hrun⟩ := Ex.run_ok
  have hfind : ∃ fds, Ex.C.σ.find "Root" = some (.struct none fds) := ⟨_, by with_unfolding_all rfl⟩
  obtain ⟨fds, hfind⟩ := hfind
  exact ⟨bytes, effss, henc, api_stream_roundtrip Ex.C "Root" none fds hfind (by with_unfolding_all rfl) Ex.root _ Ex.mk_ok
    Ex.frames Ex.insS Ex.ms Ex.wss W' s' bytes effss hrun
    (by with_unfolding_all rfl) henc⟩

/-! write_sound on the first Write of the example (record 1 against the reader's initial value) -/

def Ex.w1 : AS := match applyCalls Ex.C Ex.calls1 (Ex.C.init (.ref "Root")) with | .ok a => a | .error _ => .nil
def Ex.wr1 := writeNode Ex.C 1000 [] Ex.root Ex.w1 {}
def Ex.mk1 : Mk := match Ex.wr1 with | some (mk, _, _) => mk | none => .leaf
def Ex.w2 : AS := match Ex.wr1 with | some (_, w, _) => w | none => .nil

example : ∃ s2 evs ds' eff,
    writeNode Ex.C 1000 [] Ex.root Ex.w1 {} = some (Ex.mk1, Ex.w2, s2) ∧
    encodeNode Ex.C.σ 1000 [] Ex.root Ex.R0 (vis Ex.C Ex.w1) Ex.mk1 SpecEnc.Ex.ds0 = some (evs, ds', eff) ∧
    Shows Ex.C Ex.w2 eff ∧ Quiet Ex.C Ex.w2 ∧
    decodeNode Ex.C.σ 1000 [] Ex.root Ex.R0 (feed evs SpecEnc.Ex.ds0) = .ok (eff, ds') := by
  have hw : ∃ s2, writeNode Ex.C 1000 [] Ex.root Ex.w1 {} = some (Ex.mk1, Ex.w2, s2) := ⟨_, by with_unfolding_all rfl⟩
  obtain ⟨s2, hw⟩ := hw
  have he : ∃ evs ds' eff, encodeNode Ex.C.σ 1000 [] Ex.root Ex.R0 (vis Ex.C Ex.w1) Ex.mk1 SpecEnc.Ex.ds0 = some (evs, ds', eff) :=
    ⟨_, _, _, by with_unfolding_all rfl⟩
  obtain ⟨evs, ds', eff, he⟩ := he
  have hcalls : applyCalls Ex.C Ex.calls1 (Ex.C.init (.ref "Root")) = .ok Ex.w1 := by with_unfolding_all rfl
  have hfind : ∃ fds, Ex.C.σ.find "Root" = some (.struct none fds) := ⟨_, by with_unfolding_all rfl⟩
  obtain ⟨fds, hfind⟩ := hfind
  obtain ⟨fs0, hinit⟩ := init_struct Ex.C "Root" none _ hfind
  have hsync := (new_record_in_sync Ex.C (.ref "Root")).2.2
  rw [hinit] at hcalls hsync
  have hs1 := (applyCalls_snd Ex.C Ex.calls1 "Root" 0 0 false fs0 Ex.w1 (some Ex.R0) (by with_unfolding_all rfl) hcalls hsync).2
  obtain ⟨a1, a2, _, _, a5⟩ := write_sound Ex.C 1000 [] Ex.root Ex.w1 {} Ex.mk1 Ex.w2 s2 Ex.R0 SpecEnc.Ex.ds0 evs ds' eff hw he hs1
    (tree_ok Ex.C 200 (.ref "Root") Ex.root _ Ex.mk_ok) (envOk_nil Ex.C) (dictOk_nil Ex.C)
  exact ⟨s2, evs, ds', eff, hw, he, a1, a2, a5⟩

/-! ## Non-vacuity with CopyFrom on the schema WITH a dictionary struct (`SpecEnc.Ex.σ`: `Root.f : Res`,
    `Res` a dictionary struct holding a multimap). Six records in two frames:
      1  built by setters, `f` = the shared frozen value `Ex.res1`
      2  CopyFrom(srcA), `srcA.f` owned: the shared destination child is replaced by an owned copy
         (`unshare`), the source is copied into it
      3  (after a restart of dictionaries and codecs) CopyFrom(srcB), `srcB.f` shared: assigned by
         reference into the owned destination child's place
      4  EnsureLen + CopyFrom(srcA): `unshare` again
      5  CopyFrom(srcC), `srcC.f` owned with another value: copy into the OWNED destination child - the
         change inside the dictionary struct marks field `f` of the root
      6  CopyFrom(srcC) once more: nothing changes inside `f`, it stays unmarked -/

namespace ExC
abbrev C : Ctx := Ex.C

/-- an OWNED (unfrozen) `Res` value built through its own setters -/
def resOwn (name : String) (v : Nat) : AS :=
  match applyCalls C [([], .setPrim 0 (Ex.str name)), ([.field 1], .ensureLen 1), ([.field 1], .setKey 0 (Ex.str "ko")),
      ([.field 1, .val 0], .setAlt 1 (.i (BitVec.ofNat 64 v)))] (C.init (.ref "Res")) with
  | .ok a => a
  | .error _ => .nil

/-- a source record built by its setters (never written: all its marks are still set) -/
def srcWith (a : Nat) (res : AS) : AS :=
  match applyCalls C [
      ([], .setPrim 0 (.i (BitVec.ofNat 64 a))),
      ([], .setPrim 1 (Ex.str "src")),
      ([.field 2], .setType 2),
      ([.field 2, .alt 2], .setPrim 1 (.b true)),
      ([.field 3], .ensureLen 1),
      ([], .setPresent 4),
      ([.field 4], .ensureLen 1),
      ([.field 4], .setKey 0 (Ex.str "k")),
      ([], .setObj 5 res),
      ([], .setPrim 6 (.f 1#64))] (C.init (.ref "Root")) with
  | .ok a => a
  | .error _ => .nil

def srcA : AS := srcWith 42 (resOwn "own" 3)
def srcB : AS := srcWith 43 Ex.res1
def srcC : AS := srcWith 42 (resOwn "own" 4)

def frames : List (Nat × List Calls) :=
  [(0, [Ex.calls1, [([], .copyFrom srcA)]]),
   (5, [[([], .copyFrom srcB)], [([.field 3], .ensureLen 2), ([], .copyFrom srcA)], [([], .copyFrom srcC)],
        [([], .copyFrom srcC)]])]

def run := runFrames C Ex.root frames (C.init (.ref "Root")) {}
def ms : List (Nat × List (St × Mk)) := match run with | some (ms, _, _, _) => ms | none => []
def wss : List (List AS) := match run with | some (_, wss, _, _) => wss | none => []
def ins : List FrameIn := ms.map (fun f => { flags := f.1, fuel := 10, recs := f.2 })

def effss : List (List St) :=
  match encodeFrames C.σ Ex.root ins Ex.R0 SpecEnc.Ex.ds0 with
  | some (_, _, effss) => effss
  | none => []

-- (the copies are evaluated by the kernel: `decide +kernel`; the elaborator's `rfl` is too slow here)
theorem run_some : run.isSome = true := by decide +kernel
theorem run_ok : ∃ W' s', runFrames C Ex.root frames (C.init (.ref "Root")) {} = some (ms, wss, W', s') := by
  obtain ⟨⟨a, b, c, d⟩, hr⟩ := Option.isSome_iff_exists.mp run_some
  refine ⟨c, d, ?_⟩
  have h1 : ms = a := by unfold ms; rw [hr]
  have h2 : wss = b := by unfold wss; rw [hr]
  rw [h1, h2]
  exact hr
theorem enc_some : (encodeFrames C.σ Ex.root ins Ex.R0 SpecEnc.Ex.ds0).isSome = true := by decide +kernel
theorem enc_ok : ∃ evss ds', encodeFrames C.σ Ex.root ins Ex.R0 SpecEnc.Ex.ds0 = some (evss, ds', effss) := by
  obtain ⟨⟨a, b, c⟩, hr⟩ := Option.isSome_iff_exists.mp enc_some
  refine ⟨a, b, ?_⟩
  have h1 : effss = c := by unfold effss; rw [hr]
  rw [h1]
  exact hr
theorem ms_length : ms.length = 2 := by decide +kernel
theorem ins_ms : ins.map (fun f => (f.flags, f.recs)) = ms := by
  show (ms.map (fun f => ({ flags := f.1, fuel := 10, recs := f.2 } : FrameIn))).map (fun f => (f.flags, f.recs)) = ms
  simp [List.map_map, Function.comp_def]

/-- is field `f` (the dictionary struct) of the root record shared (frozen), and its own mask -/
def fState : AS → Bool × Nat
  | .struct _ _ _ _ fs => (match fs.getD 5 .nil with | .struct _ m _ fr _ => (fr, m) | _ => (false, 0))
  | _ => (false, 0)
end ExC

-- six records in two frames; the root masks handed to the encoder: record 5 marks field `f` (bit 5)
-- because of a change INSIDE the owned dictionary struct, record 6 leaves it unmarked
example : ExC.ms.map (fun f => f.2.map (fun r => match r.2 with | .struct m _ => m | _ => 0)) =
    [[0b1111111, 0b1111111], [0b1111111, 0b101001, 0b101000, 0b1000]] := by decide +kernel

-- the dictionary struct child after each Write: shared, owned (unshared), shared, owned, owned, owned -
-- always without marks
example : ExC.wss.map (fun ws => ws.map ExC.fState) =
    [[(true, 0), (false, 0)], [(true, 0), (false, 0), (false, 0), (false, 0)]] := by decide +kernel

-- copyFrom_preserves_sound on the schema with a dictionary struct: CopyFrom(srcA) into the record
-- that holds the shared frozen value (`unshare` + copy)
example : ∃ w0 w', applyCalls ExC.C Ex.calls1 (ExC.C.init (.ref "Root")) = .ok w0 ∧
    call ExC.C [] (.copyFrom ExC.srcA) w0 = .ok w' ∧ Snd ExC.C w' (some Ex.R0) := by
  have h0 : ∃ w0, applyCalls ExC.C Ex.calls1 (ExC.C.init (.ref "Root")) = .ok w0 := ⟨_, by with_unfolding_all rfl⟩
  obtain ⟨w0, h0⟩ := h0
  have hfind : ∃ fds, Ex.C.σ.find "Root" = some (.struct none fds) := ⟨_, by with_unfolding_all rfl⟩
  obtain ⟨fds, hfind⟩ := hfind
  obtain ⟨fs0, hinit⟩ := init_struct Ex.C "Root" none _ hfind
  have hsync := (new_record_in_sync Ex.C (.ref "Root")).2.2
  have h0' := h0
  rw [show ExC.C = Ex.C from rfl, hinit] at h0'
  rw [hinit] at hsync
  obtain ⟨⟨m1, p1, fs1, e1⟩, hs0⟩ := applyCalls_snd Ex.C Ex.calls1 "Root" 0 0 false fs0 w0 (some Ex.R0) (by with_unfolding_all rfl) h0' hsync
  subst e1
  have h1 : ∃ w', call ExC.C [] (.copyFrom ExC.srcA) (.struct "Root" m1 p1 false fs1) = .ok w' := by
    simp only [call, applyAt, applyOp, Except.map]
    exact ⟨_, rfl⟩
  obtain ⟨w', h1⟩ := h1
  exact ⟨_, w', h0, h1, copyFrom_preserves_sound ExC.C [] ExC.srcA _ w' _ (by with_unfolding_all rfl) h1 hs0⟩

/-- **api_marks_sound** applies to the history with CopyFrom over dictionary structs -/
theorem ExC.sound : ShowsAll ExC.C ExC.wss.flatten ExC.effss.flatten := by
  obtain ⟨W', s', hrun⟩ := ExC.run_ok
  obtain ⟨evss, ds', henc⟩ := ExC.enc_ok
  have hfind : ∃ fds, Ex.C.σ.find "Root" = some (.struct none fds) := ⟨_, by with_unfolding_all rfl⟩
  obtain ⟨fds, hfind⟩ := hfind
  obtain ⟨col, cnt, oc, nodes, hr⟩ := mkNode_root_struct Ex.C.σ 199 "Root" none _ {} _ Ex.root hfind Ex.mk_ok
  obtain ⟨fs0, hinit⟩ := init_struct Ex.C "Root" none _ hfind
  have hok := tree_ok Ex.C 200 (.ref "Root") Ex.root _ Ex.mk_ok
  have hsync := (new_record_in_sync Ex.C (.ref "Root")).2.2
  rw [hr] at hrun henc hok
  rw [show ExC.C = Ex.C from rfl, hinit] at hrun
  rw [hinit] at hsync
  exact api_marks_sound Ex.C col "Root" none cnt oc nodes hok (by with_unfolding_all rfl) ExC.frames ExC.ins 0 0 false fs0 {}
    Ex.R0 SpecEnc.Ex.ds0 ExC.ms ExC.wss W' s' evss ds' ExC.effss hrun ExC.ins_ms henc hsync (dictOk_nil Ex.C)

/-- frame fuels as `decodeStream` derives them from the frame sizes (content bits + records + 1000) -/
def ExC.insS : List FrameIn := (ExC.ms.zip [1666, 1572]).map (fun f => { flags := f.1.1, fuel := f.2, recs := f.1.2 })

theorem ExC.stream_ok : (encodeStream ExC.C.σ "Root" ExC.insS).isSome = true := by decide +kernel

theorem ExC.insS_ms : ExC.insS.map (fun f => (f.flags, f.recs)) = ExC.ms := by
  have h : (ExC.ms.zip [1666, 1572]).map (·.1) = ExC.ms := List.map_fst_zip (by rw [ExC.ms_length]; simp)
  show ((ExC.ms.zip [1666, 1572]).map (fun f => ({ flags := f.1.1, fuel := f.2, recs := f.1.2 } : FrameIn))).map
    (fun f => (f.flags, f.recs)) = ExC.ms
  simp only [List.map_map, Function.comp_def]
  exact h

/-- **api_stream_roundtrip** applies: the bytes of the stream decode, without error, to six records that
    show the six records written (five of them made by CopyFrom over a dictionary struct) -/
theorem ExC.stream : ∃ bytes effss, encodeStream ExC.C.σ "Root" ExC.insS = some (bytes, effss) ∧
    (decodeStream ExC.C.σ "Root" bytes).error = none ∧
    (decodeStream ExC.C.σ "Root" bytes).records.map (·.2) = effss.flatten ∧
    (decodeStream ExC.C.σ "Root" bytes).records.length = 6 ∧
    ShowsAll ExC.C ExC.wss.flatten effss.flatten := by
  obtain ⟨⟨bytes, effss⟩, henc⟩ := Option.isSome_iff_exists.mp ExC.stream_ok
  obtain ⟨W', s', hrun⟩ := ExC.run_ok
  have hfind : ∃ fds, Ex.C.σ.find "Root" = some (.struct none fds) := ⟨_, by with_unfolding_all rfl⟩
  obtain ⟨fds, hfind⟩ := hfind
  have h := api_stream_roundtrip Ex.C "Root" none fds hfind (by with_unfolding_all rfl) Ex.root _ Ex.mk_ok
    ExC.frames ExC.insS ExC.ms ExC.wss W' s' bytes effss hrun ExC.insS_ms henc
  refine ⟨bytes, effss, henc, h.1, h.2.1, ?_, h.2.2⟩
  have hl := congrArg List.length h.2.1
  rw [List.length_map] at hl
  show (decodeStream Ex.C.σ "Root" bytes).records.length = 6
  rw [hl]
  have hw : ExC.wss.flatten.length = 6 := by decide +kernel
  have := h.2.2
  -- ShowsAll relates the two lists element by element: same length
  have hlen : ∀ (ws : List AS) (rs : List St), ShowsAll ExC.C ws rs → rs.length = ws.length := by
    intro ws
    induction ws with
    | nil => intro rs h; cases rs <;> simp [ShowsAll] at h ⊢
    | cons w ws ih => intro rs h; cases rs with
      | nil => simp [ShowsAll] at h
      | cons r rs => simp only [ShowsAll] at h; simp [ih rs h.2]
  rw [hlen _ _ this, hw]

/-! ## Non-vacuity with CopyFrom: a schema without dictionary structs (struct with an optional primitive
    and an optional multimap, oneof with a struct alternative, array of structs, multimap with oneof
    values); the second record of the history is `CopyFrom` of another record built by its setters -/

namespace Ex2
def σ : Schema := { defs := [
  ("Root", .struct none [
     ⟨"a", false, .prim .i64 none⟩, ⟨"b", true, .prim .str none⟩, ⟨"c", false, .ref "One"⟩,
     ⟨"d", false, .arr (.ref "Pt")⟩, ⟨"e", true, .ref "Map"⟩]),
  ("One", .oneof [⟨"x", false, .prim .i64 none⟩, ⟨"y", false, .ref "Pt"⟩]),
  ("Pt", .struct none [⟨"x", false, .prim .f64 none⟩, ⟨"y", false, .prim .bool none⟩]),
  ("Map", .mmap (.prim .str none) (.ref "One"))] }
def C : Ctx := { σ := σ, ptr := [] }
def built : Node × Build := match mkNode σ 200 [] (.ref "Root") {} with | .ok r => r | .error _ => (.recur "?", {})
def root : Node := built.1
def ds0 : DS := { cols := Array.replicate built.2.nextCol {} }
def R0 : St := initSt σ initFuel (.ref "Root")
def str (s : String) : St := SpecEnc.Ex.str s

def srcCalls : Calls := [
  ([], .setPrim 0 (.i 5#64)),
  ([], .setPrim 1 (str "hi")),
  ([.field 2], .setType 2),
  ([.field 2, .alt 2], .setPrim 1 (.b true)),
  ([.field 3], .ensureLen 2),
  ([.field 3, .at 1], .setPrim 0 (.f 3#64)),
  ([], .setPresent 4),
  ([.field 4], .ensureLen 1),
  ([.field 4], .setKey 0 (str "k")),
  ([.field 4, .val 0], .setAlt 1 (.i 7#64))]

/-- the source of the CopyFrom: another record of the same type, built by its setters (never written:
    all its marks are still set) -/
def src : AS := match applyCalls C srcCalls (C.init (.ref "Root")) with | .ok a => a | .error _ => .nil

def calls1 : Calls := [([], .setPrim 0 (.i 1#64)), ([.field 3], .ensureLen 3), ([.field 2], .setType 1)]
/-- record 2: the optional fields become present, the oneof changes its alternative, the array
    shrinks, the multimap grows - all through `copy<T>` -/
def calls2 : Calls := [([], .copyFrom src)]
def calls3 : Calls := [([.field 3, .at 0], .setPrim 1 (.b true)), ([], .unset 4)]
def frames : List (Nat × List Calls) := [(0, [calls1, calls2]), (5, [calls3])]

def run := runFrames C root frames (C.init (.ref "Root")) {}
def ms : List (Nat × List (St × Mk)) := match run with | some (ms, _, _, _) => ms | none => []
def wss : List (List AS) := match run with | some (_, wss, _, _) => wss | none => []

def ins : List FrameIn := ms.map (fun f => { flags := f.1, fuel := 10, recs := f.2 })

def effss : List (List St) :=
  match encodeFrames σ root ins R0 ds0 with
  | some (_, _, effss) => effss
  | none => []

theorem mk_ok : mkNode C.σ 200 [] (.ref "Root") {} = .ok (root, built.2) := by with_unfolding_all rfl
theorem run_ok : ∃ W' s', runFrames C root frames (C.init (.ref "Root")) {} = some (ms, wss, W', s') :=
  ⟨_, _, by with_unfolding_all rfl⟩
theorem enc_ok : ∃ evss ds', encodeFrames C.σ root ins R0 ds0 = some (evss, ds', effss) :=
  ⟨_, _, by with_unfolding_all rfl⟩
end Ex2

-- three records in two frames, the second record is the CopyFrom
example : Ex2.ms.map (fun f => (f.1, f.2.length)) = [(0, 2), (5, 1)] := by with_unfolding_all rfl

-- copyFrom_preserves_sound: CopyFrom of the source record into a new record
example : ∃ w', call Ex2.C [] (.copyFrom Ex2.src) (Ex2.C.init (.ref "Root")) = .ok w' ∧ Snd Ex2.C w' (some Ex2.R0) := by
  have h : ∃ w', call Ex2.C [] (.copyFrom Ex2.src) (Ex2.C.init (.ref "Root")) = .ok w' := ⟨_, by with_unfolding_all rfl⟩
  obtain ⟨w', h⟩ := h
  exact ⟨w', h, copyFrom_preserves_sound Ex2.C _ _ _ w' _ (by with_unfolding_all rfl) h
    (new_record_in_sync Ex2.C (.ref "Root")).2.2⟩

/-- **api_marks_sound** applies to a history with CopyFrom -/
theorem Ex2.sound : ShowsAll Ex2.C Ex2.wss.flatten Ex2.effss.flatten := by
  obtain ⟨W', s', hrun⟩ := Ex2.run_ok
  obtain ⟨evss, ds', henc⟩ := Ex2.enc_ok
  have hfind : ∃ fds, Ex2.C.σ.find "Root" = some (.struct none fds) := ⟨_, by with_unfolding_all rfl⟩
  obtain ⟨fds, hfind⟩ := hfind
  obtain ⟨col, cnt, oc, nodes, hr⟩ := mkNode_root_struct Ex2.C.σ 199 "Root" none _ {} _ Ex2.root hfind Ex2.mk_ok
  obtain ⟨fs0, hinit⟩ := init_struct Ex2.C "Root" none _ hfind
  have hok := tree_ok Ex2.C 200 (.ref "Root") Ex2.root _ Ex2.mk_ok
  have hsync := (new_record_in_sync Ex2.C (.ref "Root")).2.2
  rw [hr] at hrun henc hok
  rw [hinit] at hrun hsync
  exact api_marks_sound Ex2.C col "Root" none cnt oc nodes hok (by with_unfolding_all rfl) Ex2.frames Ex2.ins 0 0 false fs0 {}
    Ex2.R0 Ex2.ds0 Ex2.ms Ex2.wss W' s' evss ds' Ex2.effss hrun
    (by with_unfolding_all rfl) henc hsync (dictOk_nil Ex2.C)

/-- frame fuels as `decodeStream` derives them from the frame sizes (content bits + records + 1000) -/
def Ex2.insS : List FrameIn := (Ex2.ms.zip [1314, 1169]).map (fun f => { flags := f.1.1, fuel := f.2, recs := f.1.2 })

theorem Ex2.stream_ok : (encodeStream Ex2.C.σ "Root" Ex2.insS).isSome = true := by decide +kernel

/-- **api_stream_roundtrip** applies to the example: the bytes of the stream decode, without
    error, to three records that show the three records written (the second one made by CopyFrom) -/
theorem Ex2.stream : ∃ bytes effss, encodeStream Ex2.C.σ "Root" Ex2.insS = some (bytes, effss) ∧
    (decodeStream Ex2.C.σ "Root" bytes).error = none ∧
    (decodeStream Ex2.C.σ "Root" bytes).records.map (·.2) = effss.flatten ∧
    ShowsAll Ex2.C Ex2.wss.flatten effss.flatten := by
  obtain ⟨⟨bytes, effss⟩, henc⟩ := Option.isSome_iff_exists.mp Ex2.stream_ok
  obtain ⟨W', s', hrun⟩ := Ex2.run_ok
  have hfind : ∃ fds, Ex2.C.σ.find "Root" = some (.struct none fds) := ⟨_, by with_unfolding_all rfl⟩
  obtain ⟨fds, hfind⟩ := hfind
  exact ⟨bytes, effss, henc, api_stream_roundtrip Ex2.C "Root" none fds hfind (by with_unfolding_all rfl) Ex2.root _ Ex2.mk_ok
    Ex2.frames Ex2.insS Ex2.ms Ex2.wss W' s' bytes effss hrun
    (by with_unfolding_all rfl) henc⟩

-- written_values: the states the Writes leave carry the values handed to the encoder
example : Ex2.wss.flatten.map (vis Ex2.C) = (Ex2.ms.flatMap (·.2)).map (·.1) := by
  obtain ⟨W', s', hrun⟩ := Ex2.run_ok
  exact written_values Ex2.C Ex2.root Ex2.frames _ _ Ex2.ms Ex2.wss W' s' hrun

end Stef.Props.C01Api
