/-
  C19 - The collector pipeline delivers every exported data point exactly once.

  "Every data point accepted by the STEF exporter is delivered to the consumer behind the STEF
   receiver exactly once and unchanged, with concurrent export calls, several simultaneous streams
   and either compression setting, and every delivered batch is eventually acknowledged back to the
   exporter."

  Property theorems only; the model is Stef/Pipeline.lean (one exporter -> receiver stream at message
  level), helper lemmas live in Stef/Proofs/Pipeline.lean. All statements quantify over every event
  list from the initial state: every interleaving of pushes (serialised by the exporter's write
  mutex), frame emissions (flusher or limit-triggered restarts, any split of the open records), chunk
  deliveries, consumer returns, responder ticks and acknowledgement receipts.

  Assumptions, explicit in the model: the gRPC stream is a reliable FIFO in both directions (no
  transport failure), the consumer accepts every batch, the conversion of a data point to a STEF
  record and back preserves it (C17; compression is below this level: C15/C02), streams of different
  exporters share nothing but the consumer.
-/
import Stef.Proofs.Pipeline
import Stef.Proofs.Receiver

namespace Stef.Props.C19
open Stef.Pipeline

/-! ## exactly once -/

/-- In EVERY reachable state the points accepted by the exporter are, in order, exactly: those
    delivered to the consumer, then the batch being consumed, then the chunks in flight, then the
    records of the open frame. Nothing is lost, duplicated or reordered on the way. -/
theorem exactly_once (evs : List Event) (s : PState) (h : run init evs = some s) :
    s.pushed = s.delivered ++ s.cur ++ s.fwd.flatten ++ s.open_ :=
  (pinv_run evs init s pinv_init h).once

/-- Hence no point is ever delivered more often than it was accepted ... -/
theorem delivered_at_most_once (evs : List Event) (s : PState) (h : run init evs = some s) (p : Pt) :
    s.delivered.count p ≤ s.pushed.count p := by
  rw [exactly_once evs s h]
  simp only [List.count_append]
  omega

/-- ... and once everything sent has arrived (nothing open, nothing in flight, consumer returned)
    the multiset delivered equals the multiset accepted - indeed the two sequences are equal. -/
theorem exactly_once_quiescent (evs : List Event) (s : PState) (h : run init evs = some s)
    (ho : s.open_ = []) (hf : s.fwd = []) (hb : s.busy = false) :
    s.delivered = s.pushed ∧ ∀ p, s.delivered.count p = s.pushed.count p := by
  have hi := pinv_run evs init s pinv_init h
  have hc := hi.idle hb
  have := hi.once
  rw [ho, hf, hc] at this
  simp at this
  exact ⟨this.symm, fun p => by rw [this]⟩

/-- non-vacuity: two pushes (the second while the first is still open: they share a frame), a
    flush, delivery. -/
example : ∃ s, run init [.push [10, 11], .push [12], .emit 3, .deliver, .accept] = some s ∧
    s.delivered = [10, 11, 12] ∧ s.pushed = [10, 11, 12] ∧ s.open_ = [] ∧ s.fwd = [] ∧ s.busy = false :=
  ⟨_, rfl, rfl, rfl, rfl, rfl, rfl⟩

/-- non-vacuity of the general statement: a frame cut in the middle of a push. -/
example : ∃ s, run init [.push [1, 2, 3], .emit 2, .deliver, .push [4]] = some s ∧
    s.delivered = [] ∧ s.cur = [1, 2] ∧ s.fwd = [] ∧ s.open_ = [3, 4] ∧ s.pushed = [1, 2, 3, 4] :=
  ⟨_, rfl, rfl, rfl, rfl, rfl, rfl⟩

/-! ## every delivered batch is eventually acknowledged back to the exporter -/

/-- From EVERY reachable state the canonical continuation `drain s` (finish the batch being consumed,
    flush, deliver every chunk, one responder tick, receive every ack in flight - in this order) is
    enabled to its end - so no transition can ever disable it - and it ends in a state where every
    batch delivered so far (including every batch delivered before) has an id <= the last ack
    received by the exporter, and everything accepted so far has been delivered. -/
theorem eventually_acked (evs : List Event) (s : PState) (h : run init evs = some s) :
    ∃ s', run s (drain s) = some s' ∧
      (∀ id ∈ s'.batchIds, id ≤ s'.lastAckedX) ∧
      (∀ id ∈ s.batchIds, id ∈ s'.batchIds) ∧
      s'.pushed = s.pushed ∧ s'.delivered = s'.pushed := by
  have hi := pinv_run evs init s pinv_init h
  obtain ⟨s', hr, hb, hf, ho, hk, hn, hp, more, hm⟩ := drain_spec s
  have hi' := pinv_run (drain s) s s' hi hr
  have hlast := hi'.last
  rw [hk] at hlast
  simp at hlast
  refine ⟨s', hr, ?_, ?_, hp, ?_⟩
  · intro id hid
    have h1 := hi'.ids id hid
    have h2 := hi'.ackedR_le
    omega
  · intro id hid
    rw [hm]; exact List.mem_append.mpr (Or.inl hid)
  · have := hi'.once
    rw [ho, hf, hi'.idle hb] at this
    simpa using this.symm

/-- a reachable state with a batch inside the consumer, a chunk in flight, open records and an
    acknowledgement not yet received -/
def midRun : List Event :=
  [.push [1, 2], .emit 2, .deliver, .accept, .tick, .push [3], .emit 1, .deliver, .push [4, 5], .emit 2,
   .push [6]]
def mid : PState := (run init midRun).getD init

/-- non-vacuity: `drain mid` delivers the batches with ids 2, 3, 5, 6 and the exporter ends with last
    ack 6. -/
example : run init midRun = some mid ∧ mid.busy = true ∧ mid.back = [2] ∧ mid.fwd = [[4, 5]] ∧
    mid.open_ = [6] ∧
    (run mid (drain mid)).map (fun s' => (s'.batchIds, s'.lastAckedX, s'.delivered)) =
      some ([2, 3, 5, 6], 6, [1, 2, 3, 4, 5, 6]) := by decide

/-- The last ack id seen by the exporter never decreases. -/
theorem exporter_ack_monotone (s s' : PState) (e : Event) (h : step s e = some s') :
    s.lastAckedX ≤ s'.lastAckedX := by
  cases e with
  | push pts => simp only [step, Option.some.injEq] at h; subst h; exact Nat.le_refl _
  | emit k => simp only [step] at h; split at h <;> simp at h; subst h; exact Nat.le_refl _
  | deliver => simp only [step] at h; split at h <;> simp at h; subst h; exact Nat.le_refl _
  | accept => simp only [step] at h; split at h <;> simp at h; subst h; exact Nat.le_refl _
  | tick => simp only [step] at h; split at h <;> simp at h <;> subst h <;> exact Nat.le_refl _
  | ackrecv =>
    simp only [step] at h
    split at h
    · simp at h; subst h; simp; split <;> omega
    · cases h

example : ∃ s', step { back := [7], lastAckedX := 3 } .ackrecv = some s' ∧ s'.lastAckedX = 7 := ⟨_, rfl, rfl⟩

/-! ## the receiver inside the pipeline is the receiver of C16

  The pipeline model uses the C16 receiver (Stef/Receiver.lean) restricted to an accepting consumer,
  with the Responder collapsed to its tick branch (load, inner select `default:`, acknowledge).
  This is justified on the full receiver LTS: in EVERY run without a permanent consumer error
  nothing ever enters the bad-data channel, no range is ever reported and the bad-data branches of
  both selects are never enabled; `ack_monotone` and `ack_after_consume` of C16 hold for it as for
  every run. -/

theorem receiver_without_rejects_is_tick_only (evs : List Stef.Receiver.Event) (s : Stef.Receiver.State)
    (h : Stef.Receiver.run Stef.Receiver.init evs = some s)
    (hacc : ∀ e ∈ evs, e ≠ Stef.Receiver.Event.consume .perm) :
    s.queue = [] ∧ Stef.Receiver.reported s = [] ∧ Stef.Receiver.step s .badRecv = none ∧
      (Stef.Receiver.acks s).Pairwise (· ≤ ·) := by
  have h0 : Stef.Receiver.NoPerm Stef.Receiver.init := by simp [Stef.Receiver.NoPerm, Stef.Receiver.init]
  obtain ⟨h1, h2⟩ := Stef.Receiver.noPerm_run evs _ s Stef.Receiver.inv_init h0 hacc h
  have hi := Stef.Receiver.inv_run evs _ s Stef.Receiver.inv_init h
  have h3 : Stef.Receiver.step s .badRecv = none := by
    simp only [Stef.Receiver.step, h1]
    split <;> simp_all
  exact ⟨h1, h2, h3,
    (Stef.Receiver.invA_run evs _ s Stef.Receiver.inv_init Stef.Receiver.invA_init h).2.sorted⟩

/-- non-vacuity: two accepted batches, two ticks. -/
example : ∃ s, Stef.Receiver.run Stef.Receiver.init
      [.checkErr, .decode 2, .consume .accept, .schedAck, .tick, .tickNoBad, .tickAck, .sendOk,
       .checkErr, .decode 3, .consume .accept, .schedAck, .tick, .tickNoBad, .tickAck, .sendOk] = some s ∧
    Stef.Receiver.acks s = [2, 5] := ⟨_, rfl, by decide⟩

/-! ## the exporter's pending map lags one acknowledgement (`pending-ack-off-by-one`)

  Not a violation of C19 as stated - the acknowledgement does reach the exporter (`lastAckedX`) -
  but recorded: `onGrpcAck(a)` deletes the keys `lastAcked .. a-1`, and a batch is keyed by the id
  of its LAST record, so the batch acknowledged by `a` stays in `sentPendingAck` until a later ack
  arrives, and the last batch of a stream never leaves. -/

/-- The entry whose key is the acknowledged id survives the acknowledgement. -/
theorem pending_lags_one (evs : List Event) (s s' : PState) (a : Nat) (rest : List Nat)
    (_h : run init evs = some s) (hb : s.back = a :: rest) (hk : a ∈ s.pending)
    (hs : step s .ackrecv = some s') : a ∈ s'.pending ∧ s'.lastAckedX = a := by
  have hi := pinv_run evs init s pinv_init _h
  have hlt : s.lastAckedX < a := by
    have := (List.pairwise_cons.mp hi.chain).1 a (by simp [hb]); exact this
  simp only [step, hb, Option.some.injEq] at hs
  subst hs
  refine ⟨?_, by simp [hlt]⟩
  simp [List.mem_filter, hk]

/-- Only keys at or above the last acknowledged id can be in the map. -/
theorem pending_keys_ge (evs : List Event) (s : PState) (h : run init evs = some s) :
    ∀ k ∈ s.pending, s.lastAckedX ≤ k ∧ k ≤ s.lastSent :=
  (pinv_run evs init s pinv_init h).pend

/-- non-vacuity / the finding: everything sent is acknowledged (last ack 2 = last sent 2) and the
    map still holds the batch keyed 2; it leaves only when the next batch (key 3) is acknowledged,
    which then stays in turn. -/
example : ∃ s, run init [.push [1, 2], .emit 2, .deliver, .accept, .tick, .ackrecv] = some s ∧
    s.lastSent = 2 ∧ s.lastAckedX = 2 ∧ s.pending = [2] := ⟨_, rfl, rfl, rfl, by decide⟩

example : ∃ s, run init [.push [1, 2], .emit 2, .deliver, .accept, .tick, .ackrecv,
      .push [3], .emit 1, .deliver, .accept, .tick, .ackrecv] = some s ∧
    s.lastSent = 3 ∧ s.lastAckedX = 3 ∧ s.pending = [3] := ⟨_, rfl, rfl, rfl, by decide⟩

end Stef.Props.C19
