/-
  C08 - Dictionary and frame size limits are honoured and resets are announced.
  Theorems over ALL operation histories (any record costs, any Flush placement), all limits
  L (dictionary bytes, 0 = unlimited) and F (frame bytes, 0 = unlimited) and all restart flags.
-/
import Stef.Proofs.Limiter
import Stef.Props.C14

namespace Stef.Props.C08
open Stef.Limiter

/-- **dict_bound (between writes)**: after every completed `Write`/`Flush` the dictionary size
    accounted by the writer is strictly below the limit `L` (when `L ≠ 0`) and the limit flag
    is down - every time the limit is reached the dictionaries are reset in the same `Write`. -/
theorem dict_below_limit_between_writes (L F flags : Nat) (ops : List Op) (hL : L ≠ 0) :
    let w := (Writer.new L F flags).run ops
    w.lim.dictByteSize < L ∧ w.lim.dictSizeLimitReached = false := by
  intro w
  have hinv := inv_run (Writer.new L F flags) ops (inv_new L F flags)
  have hlim := (limits_const_run (Writer.new L F flags) ops).1
  have h0 : (Writer.new L F flags).lim.dictByteSizeLimit = L := by simp [Writer.new, SizeLimiter.init]
  have : w.lim.dictByteSizeLimit = L := by rw [← h0]; exact hlim
  exact ⟨by have := hinv.core.dictLt (by rw [this]; exact hL); rwa [‹w.lim.dictByteSizeLimit = L›] at this,
         hinv.core.notReached⟩

/-- **dict_bound (peak)**: the largest dictionary size ever accounted never exceeds `L` by as
    much as what a single record adds (`maxAdd` = the largest per-record total). -/
theorem dict_peak_bound (L F flags : Nat) (ops : List Op) (hL : L ≠ 0) :
    let w := (Writer.new L F flags).run ops
    w.maxDict < L + w.maxAdd := by
  intro w
  have hinv := inv_run (Writer.new L F flags) ops (inv_new L F flags)
  have hlim := (limits_const_run (Writer.new L F flags) ops).1
  have h0 : (Writer.new L F flags).lim.dictByteSizeLimit = L := by simp [Writer.new, SizeLimiter.init]
  have h1 : w.lim.dictByteSizeLimit = L := by rw [← h0]; exact hlim
  have := hinv.core.maxDictB (by rw [h1]; exact hL)
  rwa [h1] at this

/-- **reset_announced**: a reader that resets its dictionaries exactly at the start of every
    frame carrying `RestartDictionaries` is, for every record of every emitted frame, in the
    same dictionary epoch as the writer was when it encoded that record - every reset the writer
    makes is announced on the very next frame and on no other. -/
theorem reset_announced (L F flags : Nat) (ops : List Op) :
    let w := ((Writer.new L F flags).run ops).flush
    readerEpochs w.frames 0 = w.frames.flatMap (·.recs) := by
  intro w
  have hinv := inv_flush _ (inv_run (Writer.new L F flags) ops (inv_new L F flags))
  exact hinv.core.sync

/-- **frame_bound**: with a frame limit `F ≠ 0`, every emitted frame's content exceeds `8F`
    bits by less than the bits of its last record. (The per-frame size table, record count and
    byte rounding of bit columns are outside this size model.) -/
theorem frame_bound (L F flags : Nat) (ops : List Op) (hF : F ≠ 0) :
    let w := (Writer.new L F flags).run ops
    ∀ f ∈ w.frames, f.bits < F * 8 + f.lastBits := by
  intro w f hf
  have hinv := inv_run (Writer.new L F flags) ops (inv_new L F flags)
  have hlim := (limits_const_run (Writer.new L F flags) ops).2
  have h0 : (Writer.new L F flags).lim.frameBitSizeLimit = F * 8 := by simp [Writer.new, SizeLimiter.init]
  have h1 : w.lim.frameBitSizeLimit = F * 8 := by rw [← h0]; exact hlim
  have := hinv.core.framesB f (by simpa [Writer.frames] using hf) (by rw [h1]; omega)
  rwa [h1] at this

/-- the open frame never holds `8F` bits or more between writes. -/
theorem open_frame_below_limit (L F flags : Nat) (ops : List Op) (hF : F ≠ 0) :
    ((Writer.new L F flags).run ops).lim.frameBitSize < F * 8 := by
  have hinv := inv_run (Writer.new L F flags) ops (inv_new L F flags)
  have hlim := (limits_const_run (Writer.new L F flags) ops).2
  have h0 : (Writer.new L F flags).lim.frameBitSizeLimit = F * 8 := by simp [Writer.new, SizeLimiter.init]
  have h1 : ((Writer.new L F flags).run ops).lim.frameBitSizeLimit = F * 8 := by rw [← h0]; exact hlim
  have := hinv.frameLt (by rw [h1]; omega)
  rwa [h1] at this

-- non-vacuity: L = 40, F = 1 byte, a record that alone exceeds both limits, then small ones.
example :
    let ops := [Op.write ⟨[30, 30], 100⟩, Op.write ⟨[5], 3⟩, Op.flush, Op.write ⟨[], 9⟩]
    let w := ((Writer.new 40 1 0).run ops).flush
    w.frames.map (fun f => (f.flags, f.recs.map (·.1), f.bits)) = [(0, [0], 100), (1, [1], 3), (0, [2], 9)]
      ∧ w.maxDict = 60 := by decide

/-- **destination_limit_in_force**: "with a dictionary size limit L ... received from the
    destination": whenever the connect step succeeds and a writer can be created from the options
    it returns, that writer's dictionary limit is the limit the destination advertised (the
    default limit when the destination advertised none), for every pair of wire schemas. The
    limit theorems above then apply with `L` = this value. (`Handshake.connect` / `writerOpts` are
    tied to `Client.Connect` / `New<Root>Writer` by h_hs, op `hs connect`.) -/
theorem destination_limit_in_force (client server own : List Nat) (m : Nat) (o o' : Stef.Handshake.Opts)
    (hc : Stef.Handshake.connect client server m = some o)
    (hw : Stef.Handshake.writerOpts own o = some o') :
    o'.maxTotalDictSize = (if m = 0 then Gen.defaultMaxTotalDictSize else m) := by
  have h1 := Stef.Props.C14.connect_dict_limit client server m o hc
  have h2 := Stef.Props.C14.writer_dict_limit own o o' hw
  rw [h1] at h2
  exact h2

/-- non-vacuity: a client ahead of the server, limit 3000. -/
example : ∃ o o', Stef.Handshake.connect [3, 2] [2, 2] 3000 = some o ∧
    Stef.Handshake.writerOpts [3, 2] o = some o' ∧ o'.maxTotalDictSize = 3000 := by
  refine ⟨_, _, rfl, rfl, rfl⟩

end Stef.Props.C08
