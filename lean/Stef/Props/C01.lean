/-
  C01 - Write/read round trip returns exactly the records that were written.

  What is PROVED here (for all histories, unbounded): the differential struct encoding of the
  generated code (modified mask set by setters, mask + modified fields encoded, mask cleared;
  decoder reads the mask and the announced fields) is a round trip for a struct of any number
  n ≤ 64 of primitive fields over ANY lawful primitive codec, instantiated with the integer
  (delta-of-delta) and the float (Gorilla) codecs of C20 - i.e. the invariant "whatever the
  writer has not marked is what the reader already holds" is inductive over setters and writes.

  What is NOT proved (stated, see DESIGN.md): the same invariant for optional fields, oneofs,
  arrays, multimaps and dictionary structs. For those the full round trip is checked on the real
  code by the h_codec correspondence (Go bytes -> Lean specification decoder -> records set), and
  it is FALSE on the current code for the "double reveal" family of histories (known findings
  reveal-array-twice, reveal-oneof-twice, reveal-shared-twice, ...): `roundtrip_false_witness`
  records one of them on the model of the oneof hidden state.
-/
import Stef.Proofs.StructCodec
import Stef.Proofs.Codec

namespace Stef.Props.C01
open Stef Stef.StructCodec Stef.Codec

/-- the integer column codec of C20 as a lawful primitive codec (bytes) -/
def dodCodec : StructCodec.Codec :=
  { S := Dod, C := Byte, enc := Dod.encode,
    dec := fun s b => Dod.decode s b, ok := fun _ => True }

theorem dodCodec_lawful : dodCodec.Lawful := by
  intro s v rest _
  exact ⟨dod_step s v rest, trivial⟩

/-- the float column codec of C20 (specification decoder side) as a lawful primitive codec (bits) -/
def f64Codec : StructCodec.Codec :=
  { S := F64, C := Bool, enc := F64.encodeBits,
    dec := fun s bits =>
      match Spec.f64Decode { bits := bits, fLast := s.last, fLead := s.lead, fTrail := s.trail } with
      | none => none
      | some (cs, v) => some ({ last := cs.fLast, lead := cs.fLead, trail := cs.fTrail }, v, cs.bits),
    ok := F64.Ok }

theorem f64_dec_enc (s : F64) (v : Word) (rest : Bits) (hok : s.Ok) :
    (match Spec.f64Decode { bits := (s.encodeBits v).2 ++ rest, fLast := s.last, fLead := s.lead, fTrail := s.trail } with
      | none => none
      | some (cs, v) => some (({ last := cs.fLast, lead := cs.fLead, trail := cs.fTrail } : F64), v, cs.bits))
      = some ((s.encodeBits v).1, v, rest) ∧ (s.encodeBits v).1.Ok := by
  have h := f64_step s { fLast := s.last, fLead := s.lead, fTrail := s.trail } v rest hok ⟨rfl, rfl, rfl⟩
  refine ⟨?_, h.2.1⟩
  have h1 := h.1
  simp only at h1
  rw [h1]
  simp only
  have hl := h.2.2
  cases hs : s.encodeBits v with
  | mk c' bits =>
    simp only [hs] at hl ⊢
    cases c'
    simp_all

theorem f64Codec_lawful : f64Codec.Lawful := by
  intro s v rest hok
  exact f64_dec_enc s v rest hok

/-- **roundtrip (struct of primitive fields)**: for every history of setter calls and writes on
    a struct of n ≤ 64 fields over a lawful primitive codec, a reader holding the columns the
    writer produces returns exactly the writer's record at every `write`, in order. -/
theorem roundtrip_struct_of_primitives (K : StructCodec.Codec) (hK : K.Lawful) (ops : List Op)
    (w : Writer K) (r : Reader K) (ts : List (List K.C)) (tm : Bits)
    (hn : w.fields.length ≤ 64) (hi : StructCodec.Inv w.fields r.fields)
    (hf : FeedsF r.fields (futureCols w.fields ops) ts) (hm : r.maskCol = futureMask w.fields ops ++ tm) :
    ∃ r', r.readN (writes ops) = some (snapshots w ops, r') ∧ r'.maskCol = tm :=
  let ⟨r', h1, h2, _⟩ := readN_snapshots hK ops w r ts tm hn hi hf hm
  ⟨r', h1, h2⟩

/-- instantiated: integer fields (uint64 / int64 / enum), any values incl. wrap-around -/
theorem roundtrip_int_struct (ops : List Op) (w : Writer dodCodec) (r : Reader dodCodec)
    (ts : List (List dodCodec.C)) (tm : Bits) (hn : w.fields.length ≤ 64) (hi : StructCodec.Inv w.fields r.fields)
    (hf : FeedsF r.fields (futureCols w.fields ops) ts) (hm : r.maskCol = futureMask w.fields ops ++ tm) :
    ∃ r', r.readN (writes ops) = some (snapshots w ops, r') ∧ r'.maskCol = tm :=
  roundtrip_struct_of_primitives dodCodec dodCodec_lawful ops w r ts tm hn hi hf hm

/-- instantiated: float fields, all bit patterns -/
theorem roundtrip_float_struct (ops : List Op) (w : Writer f64Codec) (r : Reader f64Codec)
    (ts : List (List f64Codec.C)) (tm : Bits) (hn : w.fields.length ≤ 64) (hi : StructCodec.Inv w.fields r.fields)
    (hf : FeedsF r.fields (futureCols w.fields ops) ts) (hm : r.maskCol = futureMask w.fields ops ++ tm) :
    ∃ r', r.readN (writes ops) = some (snapshots w ops, r') ∧ r'.maskCol = tm :=
  roundtrip_struct_of_primitives f64Codec f64Codec_lawful ops w r ts tm hn hi hf hm

/-- every field that differs from the preceding record is announced as modified: a setter marks
    exactly when it changes a value (the agreement invariant is preserved by setters). -/
theorem setter_marks_changes (K : StructCodec.Codec) (fs : List (WField K)) (gs : List (RField K))
    (i : Nat) (v : Word) (h : StructCodec.Inv fs gs) : StructCodec.Inv (setFields fs i v) gs := inv_set fs gs i v h

-- non-vacuity: a fresh 2-field integer struct and reader satisfy the hypotheses; one history.
example : StructCodec.Inv (K := dodCodec) [⟨0#64, false, {}, []⟩, ⟨0#64, false, {}, []⟩] [⟨0#64, {}, []⟩, ⟨0#64, {}, []⟩] := by
  simp [StructCodec.Inv, dodCodec]

end Stef.Props.C01
