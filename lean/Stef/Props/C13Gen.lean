/-
  C13 (regenerated) - the wire serialization theorems of Props/C13.lean restated for the functions
  that /verif/extract translates from the CURRENT Go source (Stef/Gen/WireSerde.lean, generator
  WireSerde = extract/wireserde.go): `WireSchema.Serialize`, `WireSchema.Deserialize`,
  `internal.WriteUvarint`, `NewWireSchemaIter`, `WireSchemaIter.NextFieldCount`, `WireSchemaIter.Done`.
  They are corollaries of Proofs/WireSerdeGen (regenerated = hand model on every heap) and Props/C13.
  A heap (Stef/WireSerdeSem.lean) = the receiver's `structCounts`, the contents of the destination
  buffer, the bytes left in the source reader and the iterator's `structIdx`.
-/
import Stef.Proofs.WireSerdeGen
import Stef.Props.C13

namespace Stef.Props.C13Gen
open Stef.Idl Stef.WireSerdeSem Stef.Proofs.WireSerdeGen

/-- the regenerated `Serialize` IS the hand model: it appends `Idl.serialize` of the receiver's
    counts to the buffer, changes nothing else and returns nil (restated from Proofs/WireSerdeGen). -/
theorem gen_serialize_eq (h : Heap) (hlen : h.counts.length < 2 ^ 64) (hw : ∀ c ∈ h.counts, c < 2 ^ 64) :
    Gen.WireSerde.serialize.run h = .ret none { h with buf := h.buf ++ Idl.serialize h.counts } :=
  serialize_eq h hlen hw

example : Gen.WireSerde.serialize.run { counts := [6, 1, 300], buf := [9] }
    = .ret none { counts := [6, 1, 300], buf := [9, 3, 6, 1, 172, 2] } := by
  rw [gen_serialize_eq _ (by decide) (by decide)]; decide

/-- the regenerated `Deserialize` IS the hand model, on every heap (any bytes, any receiver). -/
theorem gen_deserialize_eq (h : Heap) :
    match Idl.deserialize h.src with
    | .ok cs => ∃ rest, Gen.WireSerde.deserialize.run h = .ret none { h with counts := cs, src := rest }
    | .error e => ∃ h', Gen.WireSerde.deserialize.run h = .ret (some (GoErr.ofRErr e)) h' :=
  deserialize_eq h

/-- **C13 wire_serde for the regenerated code**: `Serialize` of a wire schema within the limit
    into an empty buffer, then `Deserialize` of those bytes into a receiver that held ANY counts
    before (`stale`), returns nil and leaves exactly the original counts in the receiver. -/
theorem gen_wire_serde (w : List Nat) (hlen : w.length ≤ Stef.Gen.maxStructCount)
    (hw : ∀ c ∈ w, c < 2 ^ 64) (stale : List Nat) :
    ∃ bytes rest,
      Gen.WireSerde.serialize.run { counts := w } = .ret none { counts := w, buf := bytes } ∧
      Gen.WireSerde.deserialize.run { counts := stale, src := bytes } = .ret none { counts := w, src := rest } := by
  have hmax : Stef.Gen.maxStructCount < 2 ^ 64 := by decide
  have hs := serialize_eq { counts := w } (by show w.length < 2 ^ 64; omega) hw
  have hd := deserialize_eq { counts := stale, src := Idl.serialize w }
  simp only [C13.wire_serde w hlen hw] at hd
  obtain ⟨rest, hd⟩ := hd
  exact ⟨Idl.serialize w, rest, by simpa using hs, hd⟩

example : ∃ bytes rest,
    Gen.WireSerde.serialize.run { counts := [6, 1, 300, 2 ^ 64 - 1] }
      = .ret none { counts := [6, 1, 300, 2 ^ 64 - 1], buf := bytes } ∧
    Gen.WireSerde.deserialize.run { counts := [7, 7, 7, 7, 7, 7], src := bytes }
      = .ret none { counts := [6, 1, 300, 2 ^ 64 - 1], src := rest } :=
  gen_wire_serde _ (by decide) (by decide) _

/-- **the limit variant**: the serialization of more than `maxStructCount` counts is refused by
    the regenerated `Deserialize` with `errStructCountLimit`. -/
theorem gen_wire_serde_limit (w : List Nat) (hlen : Stef.Gen.maxStructCount < w.length)
    (h64 : w.length < 2 ^ 64) (stale : List Nat) :
    ∃ h', Gen.WireSerde.deserialize.run { counts := stale, src := Idl.serialize w }
      = .ret (some (.pkgVar "errStructCountLimit")) h' := by
  have hd := deserialize_eq { counts := stale, src := Idl.serialize w }
  simp only [C13.wire_serde_limit w hlen h64] at hd
  exact hd

example : ∃ h', Gen.WireSerde.deserialize.run { src := Idl.serialize (List.replicate 1025 3) }
    = .ret (some (.pkgVar "errStructCountLimit")) h' :=
  gen_wire_serde_limit _ (by rw [List.length_replicate]; show 1024 < 1025; omega)
    (by rw [List.length_replicate]; omega) []

/-- `Deserialize` always returns (no panic, whatever the bytes and whatever the receiver held). -/
theorem gen_deserialize_total (h : Heap) :
    ∃ r h', Gen.WireSerde.deserialize.run h = .ret r h' := by
  have hd := deserialize_eq h
  cases hc : Idl.deserialize h.src with
  | ok cs => rw [hc] at hd; obtain ⟨rest, hd⟩ := hd; exact ⟨_, _, hd⟩
  | error e => rw [hc] at hd; obtain ⟨h', hd⟩ := hd; exact ⟨_, _, hd⟩

/-- **the result of `Deserialize` does not depend on the receiver's history** (nor on the other
    objects of the heap): two runs on the same bytes return the same error value, and on success
    leave the same counts in the receiver. -/
theorem gen_deserialize_receiver_independent (h1 h2 : Heap) (hsrc : h1.src = h2.src)
    (r : Err) (h1' : Heap) (hrun : Gen.WireSerde.deserialize.run h1 = .ret r h1') :
    ∃ h2', Gen.WireSerde.deserialize.run h2 = .ret r h2' ∧ (r = none → h2'.counts = h1'.counts) := by
  have hd1 := deserialize_eq h1
  have hd2 := deserialize_eq h2
  rw [← hsrc] at hd2
  cases hc : Idl.deserialize h1.src with
  | ok cs =>
    rw [hc] at hd1 hd2
    obtain ⟨r1, hd1⟩ := hd1
    obtain ⟨r2, hd2⟩ := hd2
    rw [hd1] at hrun
    cases hrun
    exact ⟨_, hd2, fun _ => rfl⟩
  | error e =>
    rw [hc] at hd1 hd2
    obtain ⟨g1, hd1⟩ := hd1
    obtain ⟨g2, hd2⟩ := hd2
    rw [hd1] at hrun
    cases hrun
    exact ⟨_, hd2, fun hn => by cases e <;> simp [GoErr.ofRErr] at hn⟩

example : ∃ h2', Gen.WireSerde.deserialize.run { counts := [9, 9, 9, 9], src := [2, 5, 6] } = .ret none h2'
    ∧ ((none : Err) = none → h2'.counts = [5, 6]) :=
  gen_deserialize_receiver_independent { src := [2, 5, 6] } { counts := [9, 9, 9, 9], src := [2, 5, 6] } rfl
    none { counts := [5, 6] } (by decide)

/-- `Serialize` keeps what the buffer held and appends a byte string. -/
theorem gen_serialize_appends (h : Heap) (hlen : h.counts.length < 2 ^ 64) (hw : ∀ c ∈ h.counts, c < 2 ^ 64) :
    ∃ bytes, Gen.WireSerde.serialize.run h = .ret none { h with buf := h.buf ++ bytes } ∧ ∀ b ∈ bytes, b < 256 :=
  ⟨_, serialize_eq h hlen hw, C13.wire_serialize_bytes _⟩

/-- `internal.WriteUvarint` appends the varint and returns nil. -/
theorem gen_writeUvarint (v : Nat) (h : Heap) :
    (Gen.WireSerde.writeUvarint v).run h = .ret none { h with buf := h.buf ++ uvarint v } :=
  writeUvarint_eq v h

/-! ### regenerated facts -/

/-- the counts are stored (`structCounts []T`) and handed out (`NextFieldCount() (uint, error)`) in
    types at least as wide as `uint` (64 bit): no count below 2^64 is truncated. -/
theorem gen_counts_width :
    64 ≤ Gen.WireSerde.structCountsElemBits ∧ 64 ≤ Gen.WireSerde.nextFieldCountResultBits := by decide

/-- the translated functions refer to no package-level variable other than error values: no state
    is shared between calls or between goroutines through the package. -/
theorem gen_no_mutable_package_state : Gen.WireSerde.mutablePkgVarsReferenced = [] := by decide

/-! ### the iterator -/

/-- `NewWireSchemaIter(schema)` points to the schema it is given and starts at struct 0. -/
theorem gen_iter_new : Gen.WireSerde.newWireSchemaIter = { schema := .param, structIdx := 0 } := by decide

/-- the loop of every consumer: `for !it.Done() { c, err := it.NextFieldCount(); if err != nil { break }; .. }` -/
def drain : Nat → Heap → List Nat
  | 0, _ => []
  | f + 1, h =>
    match Gen.WireSerde.done.run h with
    | .ret false _ =>
      match Gen.WireSerde.nextFieldCount.run h with
      | .ret (c, none) h' => c :: drain f h'
      | _ => []
    | _ => []

theorem drain_from (f : Nat) : ∀ (j : Nat) (h : Heap), h.idx = j → h.counts.length - j < f →
    drain f h = h.counts.drop j := by
  induction f with
  | zero => intro j h _ hf; omega
  | succ f ih =>
    intro j h hi hf
    by_cases hj : j < h.counts.length
    · have hd : decide (h.idx ≥ (h.counts.length : Int)) = false := by simp; omega
      have hrec := ih (j + 1) { h with idx := (j + 1 : Nat) } rfl (by show h.counts.length - (j + 1) < f; omega)
      simp only [drain, done_eq, hd, nextFieldCount_in h j hi hj, hrec]
      rw [List.drop_eq_getElem_cons hj]
      simp [List.getD_eq_getElem?_getD, List.getElem?_eq_getElem hj]
    · have hd : decide (h.idx ≥ (h.counts.length : Int)) = true := by simp; omega
      simp only [drain, done_eq, hd]
      rw [List.drop_of_length_le (by omega)]

/-- **the iterator hands out every count once, in order**: a fresh iterator (`structIdx` 0,
    `gen_iter_new`) drained with `Done` / `NextFieldCount` yields exactly the schema's counts. -/
theorem gen_iter_enumerates (h : Heap) (hi : h.idx = 0) (f : Nat) (hf : h.counts.length < f) :
    drain f h = h.counts := by
  have := drain_from f 0 h (by simpa using hi) (by omega)
  simpa using this

example : drain 4 { counts := [6, 1, 300] } = [6, 1, 300] := gen_iter_enumerates _ rfl _ (by decide)

/-- past the end `NextFieldCount` returns an error and changes nothing. -/
theorem gen_iter_end (h : Heap) (hi : h.idx ≥ h.counts.length) :
    ∃ e, Gen.WireSerde.nextFieldCount.run h = .ret (0, some e) h :=
  nextFieldCount_end h hi

end Stef.Props.C13Gen
