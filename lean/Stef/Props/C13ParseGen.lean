/-
  C13, print -> parse round trip with BOTH the lexer and the parser REGENERATED from go/pkg/idl
  (`genParse2`, Stef/Proofs/ParseFlowGen.lean; see Stef/Props/C12ParseGen.lean). Property theorems only.
-/
import Stef.Props.C13
import Stef.Proofs.ParseFlowGen

namespace Stef.Props.C13ParseGen
open Stef.Idl Stef.Proofs.ParseFlowGen

/-- PRINT -> PARSE ROUND TRIP (see `C13.print_parse`) where both parses run the regenerated lexer and
    the regenerated parser: for every schema `σ` that `genParse2` returns, `genParse2 (prettyPrint σ)`
    succeeds and returns `σ` with its definitions sorted by name. -/
theorem gen2_print_parse (t : List Char) (σ : Schema) (h : genParse2 t = .ok σ) :
    genParse2 (prettyPrint σ) = .ok σ.norm := by
  rw [genParse2_eq] at h ⊢
  exact C13.print_parse t σ h

/-- non-vacuity: the sample of C12 is accepted by the regenerated parser on the regenerated lexer. -/
example : genParse2 Stef.Props.C12.sample = .ok C13.sampleSchema := by
  rw [genParse2_eq]; exact C13.sample_parsed

end Stef.Props.C13ParseGen
