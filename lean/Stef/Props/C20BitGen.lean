/-
  C20 (bit stream) for the functions REGENERATED from go/pkg/bitstream.go (Stef/Gen/BitFlow.lean;
  vocabulary Stef/BitFlowSem.lean). Property theorems only; the equations regenerated = hand model are
  in Stef/Proofs/BitFlowGen.lean.

  `bitsreader_refines_spec`, `overread_reported_bitsreader`, `bits_roundtrip`, `uvc_reader_refines_spec`,
  `writeBits_appends` ... of Props/C20.lean speak about the hand transcription Stef/BitStream.lean; here
  they are restated for the methods of `BitsReader` / `BitsWriter` as translated from the source. A
  regenerated method returns `none` when the Go method panics: the theorems say where that cannot happen.
  `toHandR` / `toHandW` read a regenerated state as a state of the hand model (same registers; `lastError`
  as the `eof` flag); `WFR g` says that the reader's fields are Go values (buffer shorter than 2^63 bytes,
  index below 2^63, bit count a `uint`) - it holds after `Reset` and is kept by every method.
-/
import Stef.Proofs.BitFlowGen
import Stef.Proofs.Uvc
import Stef.Proofs.UvcReader

namespace Stef.Props.C20BitGen
open Stef Stef.Spec Stef.BitFlowSem Stef.Proofs.BitFlowGen

/-! ### the regenerated methods are the hand model -/

/-- **gen_readBits_is_model**: on every well-formed reader state and for every width up to 64 the
    regenerated `ReadBits` either panics exactly when the hand model records a panic, or returns the hand
    model's value and leaves the hand model's state (and a well-formed one). -/
theorem gen_readBits_is_model (g : GR) (n : Nat) (hw : WFR g) (hn : n ≤ 64) :
    match g.readBits n with
    | none => ((toHandR g).readBits n).1.panicked = true
    | some (g', v) => (toHandR g).readBits n = (toHandR g', v) ∧ WFR g' :=
  readBits_sim g n hw hn

/-- **gen_reset_is_model**: `Reset(buf)` gives the hand model's fresh reader over `buf` (all registers
    cleared - the seeded change that keeps `bitBuf` breaks exactly this), well formed. -/
theorem gen_reset_is_model (g : GR) (buf : Bytes) (h : buf.length < 2 ^ 63) :
    toHandR (g.reset buf) = { buf := buf } ∧ WFR (g.reset buf) :=
  ⟨rfl, reset_wf g buf h⟩

/-- **gen_error_is_model**: `Error() != nil` is the hand model's `err`. -/
theorem gen_error_is_model (g : GR) : g.error = (toHandR g).err := error_eq g

/-- **gen_writeBits_is_model**: every register holding at most 64 bits, every value, every width up to 64. -/
theorem gen_writeBits_is_model (g : GW) (v : Word) (n : Nat) (hu : g.bitsBufUsed ≤ 64) (hn : n ≤ 64) :
    toHandW (g.writeBits v n) = (toHandW g).writeBits v n := writeBits_eq g v n hu hn

/-- **gen_close_is_model**: `Close` does not panic and leaves the hand model's bytes. -/
theorem gen_close_is_model (g : GW) (hu : g.bitsBufUsed ≤ 64) (hlen : g.stream.length < 2 ^ 62) :
    g.close.map toHandW = some (toHandW g).close := close_eq g hu hlen

/-! ### reader -/

/-- **gen_bitsreader_refines_spec**: at every reachable reader state (`RInv`: `pos` bits consumed)
    the regenerated `ReadBits(n)` does not panic and returns what the specification's bit reader returns
    on the buffer's bit list at `pos`, whenever the read stays inside the buffer; `Error()` stays nil. -/
theorem gen_bitsreader_refines_spec (g : GR) (pos n : Nat) (hw : WFR g) (hI : BitsReader.RInv (toHandR g) pos)
    (hn : n ≤ 64) (hin : pos + n ≤ 8 * g.buf.length) :
    ∃ g' v, g.readBits n = some (g', v) ∧
      readBits n ((bytesBits g.buf).drop pos) = some (v, (bytesBits g.buf).drop (pos + n)) ∧
      BitsReader.RInv (toHandR g') (pos + n) ∧ WFR g' ∧ g'.error = false := by
  obtain ⟨h1, h2, h3⟩ := BitsReader.readBits_refines_spec (toHandR g) pos n hI hn hin
  have hs := readBits_sim g n hw hn
  cases hr : g.readBits n with
  | none =>
    rw [hr] at hs
    have : ((toHandR g).readBits n).1.panicked = true := hs
    rw [h2.nopanic] at this
    exact absurd this (by simp)
  | some p =>
    obtain ⟨g', v⟩ := p
    rw [hr] at hs
    obtain ⟨he, hw'⟩ := hs
    rw [he] at h1 h2 h3
    exact ⟨g', v, rfl, h1, h2, hw', by rw [error_eq]; exact h3⟩

/-- **gen_overread_reported**: for EVERY buffer (shorter than 2^63 bytes) and EVERY sequence of `ReadBits`
    widths up to 64 on a reader after `Reset(buf)`: as long as the reads stay inside the buffer no call
    panics, `Error()` is nil and the values are exactly the buffer's bits; as soon as the total exceeds
    the buffer, either a call panics (`ReadBits` of more than 56 bits at the exhausted buffer does) or
    `Error()` is set - reads past the end are never returned as data without an error. -/
theorem gen_overread_reported (g0 : GR) (buf : Bytes) (hlen : buf.length < 2 ^ 63) (ns : List Nat)
    (hns : ∀ n ∈ ns, n ≤ 64) :
    (ns.sum ≤ 8 * buf.length →
        ∃ g' vs, readMany (g0.reset buf) ns = some (g', vs) ∧ g'.error = false ∧
          vs = BitsReader.windows buf 0 ns) ∧
    (8 * buf.length < ns.sum →
        match readMany (g0.reset buf) ns with
        | none => True
        | some (g', _) => g'.error = true) := by
  have hs := readMany_sim ns (g0.reset buf) (reset_wf g0 buf hlen) hns
  have h := BitsReader.readMany_spec ns { buf := buf } 0 (BitsReader.rinv_init buf) hns
  simp only [Nat.zero_add] at h
  have hreset : toHandR (g0.reset buf) = { buf := buf } := rfl
  rw [hreset] at hs
  constructor
  · intro hle
    obtain ⟨he, hv, hI⟩ := h.1 hle
    cases hr : readMany (g0.reset buf) ns with
    | none =>
      rw [hr] at hs
      have : (BitsReader.readMany { buf := buf } ns).1.panicked = true := hs
      rw [hI.nopanic] at this
      exact absurd this (by simp)
    | some p =>
      obtain ⟨g', vs⟩ := p
      rw [hr] at hs
      obtain ⟨heq, _⟩ := hs
      rw [heq] at he hv
      exact ⟨g', vs, rfl, by rw [error_eq]; exact he, hv⟩
  · intro hgt
    have he := h.2 hgt
    cases hr : readMany (g0.reset buf) ns with
    | none => trivial
    | some p =>
      obtain ⟨g', vs⟩ := p
      rw [hr] at hs
      obtain ⟨heq, _⟩ := hs
      rw [heq] at he
      show g'.error = true
      rw [error_eq]; exact he

/-- **gen_uvc_reader_refines_spec**: the regenerated `ReadUvarintCompact` (peek 56 bits, count leading
    zeros, shift / mask / consume count from the regenerated READ tables, each table index with its
    bounds test) does not panic and returns, at every reachable reader state, what the specification's
    reader returns on the buffer's bits, consumes the same bits and reports no error. -/
theorem gen_uvc_reader_refines_spec (g : GR) (pos : Nat) (hw : WFR g) (hI : BitsReader.RInv (toHandR g) pos)
    (x : Word) (rest' : Bits) (h : readUvc ((bytesBits g.buf).drop pos) = some (x, rest')) :
    ∃ g', g.readUvarintCompact = some (g', x) ∧
      ∃ n, rest' = (bytesBits g.buf).drop (pos + n) ∧ BitsReader.RInv (toHandR g') (pos + n) ∧ g'.error = false := by
  obtain ⟨h1, n, h2, h3, h4⟩ := BitsReader.readUvarintCompact_refines (toHandR g) pos hI x rest' h
  have hs := readUvarintCompact_sim g hw
  cases hr : g.readUvarintCompact with
  | none =>
    rw [hr] at hs
    have : ((toHandR g).readUvarintCompact).1.panicked = true := hs
    rw [h3.nopanic] at this
    exact absurd this (by simp)
  | some p =>
    obtain ⟨g', v⟩ := p
    rw [hr] at hs
    obtain ⟨he, _⟩ := hs
    rw [he] at h1 h3 h4
    have hv : v = x := h1
    subst hv
    exact ⟨g', rfl, n, h2, h3, by rw [error_eq]; exact h4⟩

/-- `ReadBit` is `ReadBits(1)`, `PeekBit` is `PeekBits(1)`, also as regenerated. -/
theorem gen_readBit_is_readBits_one (g : GR) (hw : WFR g) :
    match g.readBit with
    | none => ((toHandR g).readBits 1).1.panicked = true
    | some (g', v) => (toHandR g).readBits 1 = (toHandR g', v) ∧ WFR g' := by
  have h := readBit_sim g hw
  rw [BitsReader.readBit_eq_readBits] at h
  exact h

theorem gen_peekBit_is_peekBits_one (g : GR) : g.peekBit = g.peekBits 1 := peekBit_eq g

/-! ### writer -/

/-- **gen_writeBits_appends**: the regenerated `WriteBits(v, n)` appends exactly the `n`-bit big-endian
    representation of `v` for every register fill level (every bit alignment), every `n ≤ 64` and every
    `v < 2^n`, and keeps the register invariant. -/
theorem gen_writeBits_appends (g : GW) (v : Word) (n : Nat) (hI : (toHandW g).Inv) (hn : n ≤ 64)
    (hv : v.toNat < 2 ^ n) :
    (toHandW (g.writeBits v n)).toBits = (toHandW g).toBits ++ lowBits v n ∧ (toHandW (g.writeBits v n)).Inv := by
  rw [writeBits_eq g v n hI.1 hn]
  exact BitsWriter.writeBits_spec (toHandW g) v n hI hn hv

theorem gen_writeBit_appends (g : GW) (bit : Nat) (hI : (toHandW g).Inv) (hb : bit < 2) :
    (toHandW (g.writeBit bit)).toBits = (toHandW g).toBits ++ [(BitVec.ofNat 64 bit).getLsbD 0] ∧
      (toHandW (g.writeBit bit)).Inv := by
  rw [writeBit_eq g bit hI.1]
  exact BitsWriter.writeBit_spec (toHandW g) _ hI (by simp only [BitVec.toNat_ofNat]; omega)

/-- **gen_uvc_write_every_alignment**: the regenerated `WriteUvarintCompact` does not panic and appends,
    at every bit alignment, exactly the bits of the compact encoding (v < 2^48); it returns their number. -/
theorem gen_uvc_write_every_alignment (g : GW) (v : Word) (hI : (toHandW g).Inv) (hv : v.toNat < 2 ^ 48) :
    ∃ g' k, g.writeUvarintCompact v = some (g', k) ∧
      (toHandW g').toBits = (toHandW g).toBits ++ Uvc.uvcBits v ∧ (toHandW g').Inv ∧
      k = ((toHandW g).writeUvarintCompact v).2 := by
  have h := writeUvarintCompact_eq g v hI.1
  obtain ⟨s1, s2⟩ := Uvc.writeUvarintCompact_spec (toHandW g) v hI hv
  cases hc : g.writeUvarintCompact v with
  | none => rw [hc] at h; simp at h
  | some p =>
    obtain ⟨g', k⟩ := p
    rw [hc] at h
    simp only [Option.map_some, Option.some.injEq] at h
    rw [← h] at s1 s2
    exact ⟨g', k, rfl, s1, s2, by rw [← h]⟩

/-! ### round trip -/

/-- **gen_bits_roundtrip** at register level, for the regenerated methods: any sequence of in-contract
    `WriteBits(v, n)` on a writer after `Reset` (fewer than 2^64 bits in total), then `Close` and `Bytes`,
    is read back value for value by `ReadBits` calls of the same widths on a reader after `Reset(bytes)`,
    without a panic anywhere and with `Error() == nil`. -/
theorem gen_bits_roundtrip (gw gw0 : GW) (gr : GR) (hreset : gw.reset = some gw0) (ops : List (Word × Nat))
    (hops : ∀ p ∈ ops, p.2 ≤ 64 ∧ p.1.toNat < 2 ^ p.2) (hsz : (ops.map (·.2)).sum < 2 ^ 64) :
    ∃ wc g', (ops.foldl (fun w p => w.writeBits p.1 p.2) gw0).close = some wc ∧
      readMany (gr.reset wc.bytes) (ops.map (·.2)) = some (g', ops.map (·.1)) ∧ g'.error = false := by
  -- the writer after Reset is the hand model's fresh writer
  have h0 : toHandW gw0 = {} := by
    have := w_reset_eq gw
    rw [hreset] at this
    simp only [Option.map_some, Option.some.injEq] at this
    rw [this]; rfl
  have hw := writeMany_eq ops hops gw0 (by rw [h0]; exact BitsWriter.inv_init)
  rw [h0] at hw
  obtain ⟨_, hinv⟩ := hand_writeMany_spec ops hops {} BitsWriter.inv_init
  have hlen8 := hand_writeMany_length ops hops
  rw [← hw] at hinv hlen8
  -- Close
  have hstream : (ops.foldl (fun w p => w.writeBits p.1 p.2) gw0).stream.length < 2 ^ 62 := by
    have : (toHandW (ops.foldl (fun w p => w.writeBits p.1 p.2) gw0)).stream.length
        = (ops.foldl (fun w p => w.writeBits p.1 p.2) gw0).stream.length := rfl
    omega
  have hc := close_eq _ hinv.1 hstream
  cases hcl : (ops.foldl (fun w p => w.writeBits p.1 p.2) gw0).close with
  | none => rw [hcl] at hc; simp at hc
  | some wc =>
    rw [hcl] at hc
    simp only [Option.map_some, Option.some.injEq] at hc
    have hbytes : wc.bytes = (ops.foldl (fun w p => w.writeBits p.1 p.2) ({} : BitsWriter)).bytes := by
      show (toHandW wc).stream = _
      rw [hc, hw]; rfl
    -- the hand model's round trip
    obtain ⟨hv, he⟩ := Stef.bits_roundtrip ops hops
    rw [← hbytes] at hv he
    have hblen : wc.bytes.length < 2 ^ 63 := by
      have h1 : wc.bytes.length = (toHandW wc).stream.length := rfl
      rw [h1, hc]
      unfold BitsWriter.close
      simp only [List.length_take, List.length_append]
      have : (toHandW (ops.foldl (fun w p => w.writeBits p.1 p.2) gw0)).stream.length < 2 ^ 62 := hstream
      have hu := hinv.1
      omega
    have hns : ∀ n ∈ ops.map (·.2), n ≤ 64 := by
      intro n hn
      obtain ⟨p, hp, rfl⟩ := List.mem_map.1 hn
      exact (hops p hp).1
    have hs := readMany_sim (ops.map (·.2)) (gr.reset wc.bytes) (reset_wf gr _ hblen) hns
    have hreset' : toHandR (gr.reset wc.bytes) = { buf := wc.bytes } := rfl
    rw [hreset'] at hs
    -- no panic: the hand model's final state satisfies the reader invariant
    have hsum : (ops.map (·.2)).sum ≤ 8 * wc.bytes.length := by
      have hb := BitsWriter.bytes_bits _ (hand_writeMany_spec ops hops {} BitsWriter.inv_init).2
      rw [(hand_writeMany_spec ops hops {} BitsWriter.inv_init).1, ← hbytes] at hb
      have := congrArg List.length hb
      rw [bytesBits_length, List.length_append, List.length_append, flatten_lowBits_length] at this
      omega
    obtain ⟨hin, _⟩ := BitsReader.readMany_spec (ops.map (·.2)) { buf := wc.bytes } 0 (BitsReader.rinv_init _) hns
    obtain ⟨_, _, hI⟩ := hin (by simpa using hsum)
    cases hr : readMany (gr.reset wc.bytes) (ops.map (·.2)) with
    | none =>
      rw [hr] at hs
      have : (BitsReader.readMany { buf := wc.bytes } (ops.map (·.2))).1.panicked = true := hs
      rw [hI.nopanic] at this
      exact absurd this (by simp)
    | some p =>
      obtain ⟨g', vs⟩ := p
      rw [hr] at hs
      obtain ⟨heq, _⟩ := hs
      rw [heq] at hv he
      have hvs : vs = ops.map (·.1) := hv
      subst hvs
      exact ⟨wc, g', rfl, hr, by rw [error_eq]; exact he⟩

/-! ### non-vacuity -/

-- a reachable reader state: after Reset over 3 bytes and a real read (slow refill path); it is well formed,
-- satisfies the reader invariant, and the next read is covered by gen_bitsreader_refines_spec
example : ∃ g v, (Gen.BitFlow.BitsReader.reset ⟨0#64, [], 0, 0, false, false⟩ [0xAB#8, 0xCD#8, 0xEF#8]).readBits 5 = some (g, v) ∧
    WFR g ∧ BitsReader.RInv (toHandR g) 5 ∧ v = 0x15#64 := by
  obtain ⟨g, v, h1, _, h3, h4, _⟩ := gen_bitsreader_refines_spec
    (Gen.BitFlow.BitsReader.reset ⟨0#64, [], 0, 0, false, false⟩ [0xAB#8, 0xCD#8, 0xEF#8]) 0 5
    (reset_wf _ _ (by simp)) (BitsReader.rinv_init _) (by omega) (by decide)
  refine ⟨g, v, h1, h4, h3, ?_⟩
  have hs := readBits_sim (Gen.BitFlow.BitsReader.reset ⟨0#64, [], 0, 0, false, false⟩ [0xAB#8, 0xCD#8, 0xEF#8]) 5
    (reset_wf _ _ (by simp)) (by omega)
  rw [h1] at hs
  have := congrArg Prod.snd hs.1
  simp only at this
  rw [← this]
  decide

-- a writer state after Reset exists (the hypothesis of gen_bits_roundtrip), a spilling in-contract
-- sequence satisfies its hypotheses
example : ∃ gw0, Gen.BitFlow.BitsWriter.reset ⟨[1#8], 5#64, 7⟩ = some gw0 ∧ (toHandW gw0).Inv := by
  have h := w_reset_eq ⟨[1#8], 5#64, 7⟩
  cases hc : Gen.BitFlow.BitsWriter.reset ⟨[1#8], 5#64, 7⟩ with
  | none => rw [hc] at h; simp at h
  | some gw0 =>
    rw [hc] at h
    simp only [Option.map_some, Option.some.injEq] at h
    exact ⟨gw0, rfl, by rw [h]; exact BitsWriter.inv_init⟩

example : ∀ p ∈ [((0x1ff#64 : Word), 9), (0xdeadbeefdeadbeef#64, 64)], p.2 ≤ 64 ∧ p.1.toNat < 2 ^ p.2 := by decide

end Stef.Props.C20BitGen
