/-
  C18 / C17 (regenerated) - the theorems of Props/C18.lean and Props/C17.lean that rest on the comparison functions
  and on the OTLP -> STEF attribute value conversion, restated for the functions that /verif/extract translates from
  the CURRENT Go source of go/pdata/internal/otlptools (Stef/Gen/OtlpValFlow.lean, generator OtlpValFlow):
  `cmpVal` / `cmpAttrs` / `cmpBool` / `cmpInt64` / `cmpResourceSpans` / `cmpScopeSpans` (compare.go),
  `otlpValueToTefAnyValue` / `mapUnsorted` / `mapSorted` (otlpval2tef.go), `tefAnyValueToOtlp` / `tefToOtlpMap`
  (tef2otlpval.go).
  They are corollaries of Proofs/OtlpValGen (regenerated = hand model, on every input and state) and of
  Props/C17, Props/C18. A regenerated function is a computation of the monad `M` of Stef/OtlpValFlowSem.lean: `.run s`
  gives its outcome on the state `s` (`ret r s'` = returned `r`, `next () s'` = fell off the end, `panic`, `outOfFuel`).
  The recursive functions run on fuel; `need v` / `needKVs m` / `sneed s` (Proofs/OtlpValGen) is the fuel an OTLP value /
  map / an otelstef value needs.
-/
import Stef.Proofs.OtlpValGen
import Stef.Props.C17
import Stef.Props.C18

namespace Stef.Props.C18ValGen
open Stef.Otlp Stef.OtlpValFlowSem Stef.Gen.OtlpValFlow

/-! ### the regenerated comparison functions ARE the hand model -/

/-- CmpBool / CmpInt64 as the source has them return what the model's `boolCompare` / `int64Compare` say. -/
theorem gen_cmpBool_eq (a b : Bool) : (cmpBool a b).run () = .ret (boolCompare a b) () := cmpBool_run a b

theorem gen_cmpInt64_eq (a b : Nat) : (cmpInt64 a b).run () = .ret (int64Compare a b) () := cmpInt64_run a b

/-- CmpVal as the source has it returns, for ALL operands (every kind, any nesting), what `Otlp.cmpVal` says: it
    never panics ("comparison not implemented" is unreachable), never indexes out of range. -/
theorem gen_cmpVal_eq (v w : AnyValue) : (cmpVal (need v) v w).run () = .ret (Otlp.cmpVal v w) () :=
  Gen.OtlpValFlow.cmpVal_eq (need v) v w (Nat.le_refl _)

/-- more fuel changes nothing -/
theorem gen_cmpVal_eq_fuel (fuel : Nat) (v w : AnyValue) (h : need v ≤ fuel) :
    (cmpVal fuel v w).run () = .ret (Otlp.cmpVal v w) () :=
  Gen.OtlpValFlow.cmpVal_eq fuel v w h

theorem gen_cmpAttrs_eq (a b : KVs) : (cmpAttrs (needKVs a + 1) a b).run () = .ret (Otlp.cmpAttrs a b) () :=
  Gen.OtlpValFlow.cmpAttrs_eq _ a b (Nat.le_refl _)

theorem gen_cmpResourceSpans_eq (x y : ResourceSpans) :
    (cmpResourceSpans (needKVs x.attrs + 1) x y).run () = .ret (Otlp.cmpResourceSpans x y) () :=
  cmpResourceSpans_eq _ x y (Nat.le_refl _)

theorem gen_cmpScopeSpans_eq (x y : ScopeSpans) :
    (cmpScopeSpans (needKVs x.attrs + 1) x y).run () = .ret (Otlp.cmpScopeSpans x y) () :=
  cmpScopeSpans_eq _ x y (Nat.le_refl _)

/-! ### C18: what the sorting mode merges -/

/-- CmpVal as the source has it returns 0 only for identical values (numbers being 64-bit patterns). -/
theorem gen_cmpVal_faithful (fuel : Nat) (v w : AnyValue) (hf : need v ≤ fuel) (hv : v.b64 = true) (hw : w.b64 = true)
    (h : (cmpVal fuel v w).run () = .ret 0 ()) : v = w := by
  rw [Gen.OtlpValFlow.cmpVal_eq fuel v w hf] at h
  injection h with h0
  exact Stef.Otlp.cmpVal_eq v w hv hw h0

example : (cmpVal 5 (.map (.cons [107] (.dbl negZero) .nil)) (.map (.cons [107] (.dbl 0) .nil))).run ()
    = .ret (-1) () := by decide

/-- The sorting mode merges exactly the resources a record cannot tell apart (Props/C18
    merge_only_equal_resources), for CmpResourceSpans AS THE SOURCE HAS IT: whenever it returns 0, the url, the
    attributes and the dropped-attributes count are equal. -/
theorem gen_merge_only_equal_resources (fuel : Nat) (x y : ResourceSpans) (hf : needKVs x.attrs + 1 ≤ fuel)
    (hx : x.attrs.b64 = true) (hy : y.attrs.b64 = true) (h : (cmpResourceSpans fuel x y).run () = .ret 0 ()) :
    x.url = y.url ∧ x.attrs = y.attrs ∧ x.dropped = y.dropped := by
  rw [cmpResourceSpans_eq fuel x y hf] at h
  injection h with h0
  exact C18.merge_only_equal_resources x y hx hy h0

theorem gen_merge_only_equal_scopes (fuel : Nat) (x y : ScopeSpans) (hf : needKVs x.attrs + 1 ≤ fuel)
    (hx : x.attrs.b64 = true) (hy : y.attrs.b64 = true) (h : (cmpScopeSpans fuel x y).run () = .ret 0 ()) :
    x.name = y.name ∧ x.ver = y.ver ∧ x.url = y.url ∧ x.attrs = y.attrs ∧ x.dropped = y.dropped := by
  rw [cmpScopeSpans_eq fuel x y hf] at h
  injection h with h0
  exact C18.merge_only_equal_scopes x y hx hy h0

/-- non-vacuity: two resources with a nested attribute that the regenerated comparison does tell apart (the dropped
    count), and a resource it finds equal to itself -/
def sampleRes (d : Nat) : ResourceSpans :=
  { url := [117], dropped := d,
    attrs := .cons [107] (.map (.cons [120] (.dbl negZero) (.cons [121] (.slice (.cons (.int 2) .nil)) .nil))) .nil }

example : needKVs (sampleRes 0).attrs + 1 ≤ 6 ∧ (sampleRes 0).attrs.b64 = true ∧
    (cmpResourceSpans 6 (sampleRes 0) (sampleRes 0)).run () = .ret 0 () ∧
    (cmpResourceSpans 6 (sampleRes 0) (sampleRes 1)).run () = .ret (-1) () := by decide

/-- The comparison functions the sort of Props/C18 (`sortTraces`, sorted_same_multiset) is written with are, pointwise,
    the regenerated ones evaluated with enough fuel. -/
theorem gen_sort_comparators (x y : ResourceSpans) (a b : ScopeSpans) :
    (cmpResourceSpans (needKVs x.attrs + 1) x y).run () = .ret (Otlp.cmpResourceSpans x y) () ∧
    (cmpScopeSpans (needKVs a.attrs + 1) a b).run () = .ret (Otlp.cmpScopeSpans a b) () :=
  ⟨gen_cmpResourceSpans_eq x y, gen_cmpScopeSpans_eq a b⟩

/-! ### C17: what the STEF value holds after the conversion -/

/-- otlpValueToTefAnyValue as the source has it = the model's `otlpToTef`: for every value and every re-used
    destination it finishes (no panic, no index out of range) with the destination the model describes. -/
theorem gen_otlpValueToTefAnyValue_eq (v : AnyValue) (into : SVal) :
    (otlpValueToTefAnyValue (need v) v).run into = .next () (otlpToTef v into) :=
  otlpValueToTefAnyValue_eq (need v) v into (Nat.le_refl _)

/-- Props/C17 anyvalue_stored for the regenerated conversion: what the STEF value holds afterwards is exactly the
    OTLP value - for EVERY value and whatever the re-used destination held before (hidden storage included). -/
theorem gen_anyvalue_stored (fuel : Nat) (v : AnyValue) (into s' : SVal) (hf : need v ≤ fuel)
    (h : (otlpValueToTefAnyValue fuel v).run into = .next () s') : tefToOtlpRaw s' = v := by
  rw [otlpValueToTefAnyValue_eq fuel v into hf] at h
  injection h with _ h2
  rw [← h2]
  exact C17.anyvalue_stored v into

/-- Props/C17 anyvalue_roundtrip with the regenerated conversion on the way in (the way back is the hand model
    `tefToOtlp`): identity on every value whose maps have distinct keys. -/
theorem gen_anyvalue_roundtrip (fuel : Nat) (v : AnyValue) (into s' : SVal) (hf : need v ≤ fuel) (hd : v.nodup = true)
    (h : (otlpValueToTefAnyValue fuel v).run into = .next () s') : tefToOtlp s' = v := by
  rw [otlpValueToTefAnyValue_eq fuel v into hf] at h
  injection h with _ h2
  rw [← h2]
  exact C17.anyvalue_roundtrip v into hd

/-- the sample of Props/C17 (nested array, maps of one and three entries, a NaN, -0.0) over a stale destination -/
example : need C17.sampleValue ≤ 6 ∧
    (otlpValueToTefAnyValue 6 C17.sampleValue).run C17.staleInto = .next () (otlpToTef C17.sampleValue C17.staleInto) :=
  ⟨by decide, otlpValueToTefAnyValue_eq 6 _ _ (by decide)⟩

/-- the Empty case resets the destination: an empty value written over a string is read back as empty -/
example : ∃ s', (otlpValueToTefAnyValue 1 .empty).run (otlpToTef (.str [97]) SVal.fresh) = .next () s' ∧
    tefToOtlpRaw s' = .empty := ⟨_, rfl, by decide⟩

/-- MapUnsorted as the source has it: the destination afterwards reads as the map (Props/C17
    attributes_roundtrip's first half), the converter's scratch slice is untouched. -/
theorem gen_mapUnsorted_stored (fuel : Nat) (m : KVs) (o : Otlp2Stef) (out : SAttrs) (s' : MapSt) (hf : needKVs m ≤ fuel)
    (h : (mapUnsorted fuel m).run ⟨o, out⟩ = .next () s') : s'.out.visible = m ∧ s'.o = o := by
  rw [mapUnsorted_eq fuel m o out hf] at h
  injection h with _ h2
  rw [← h2]
  exact ⟨mapUnsorted_spec m out, rfl⟩

/-- Props/C17 attributes_roundtrip with the regenerated MapUnsorted on the way in. -/
theorem gen_attributes_roundtrip (fuel : Nat) (m : KVs) (o : Otlp2Stef) (out : SAttrs) (s' : MapSt)
    (hf : needKVs m ≤ fuel) (hc : m.clean = true) (h : (mapUnsorted fuel m).run ⟨o, out⟩ = .next () s') :
    s'.out.toOtlp = m := by
  rw [mapUnsorted_eq fuel m o out hf] at h
  injection h with _ h2
  rw [← h2]
  exact C17.attributes_roundtrip m out hc

/-- MapSorted as the source has it: the destination afterwards reads as the map in key order (what Props/C18's
    `expected true` asks of span attributes), whatever the scratch slice held before. -/
theorem gen_mapSorted_stored (fuel : Nat) (m : KVs) (o : Otlp2Stef) (out : SAttrs) (s' : MapSt) (hf : needKVs m ≤ fuel)
    (h : (mapSorted fuel m).run ⟨o, out⟩ = .next () s') : s'.out.visible = m.sortByKey := by
  rw [mapSorted_eq fuel m o out hf] at h
  injection h with _ h2
  rw [← h2]
  exact mapSorted_spec m out

/-- non-vacuity: three entries out of key order, a stale scratch slice and a stale destination -/
def sampleMap : KVs := .cons [122] (.int 1) (.cons [97] (.map (.cons [98] (.dbl negZero) .nil)) (.cons [109] .empty .nil))

example : needKVs sampleMap ≤ 4 ∧ sampleMap.sortByKey ≠ sampleMap ∧
    ∃ s', (mapSorted 4 sampleMap).run ⟨⟨[⟨[1], .int 7⟩]⟩, SAttrs.mapUnsorted sampleMap {}⟩ = .next () s' ∧
      s'.out.visible = sampleMap.sortByKey :=
  ⟨by decide, by decide, _, mapSorted_eq 4 sampleMap _ _ (by decide), mapSorted_spec _ _⟩

/-! ### C17: the way back (tef2otlpval.go) and the round trip with BOTH directions regenerated -/

/-- tefAnyValueToOtlp as the source has it, writing into an empty pcommon.Value: for every well-formed otelstef value
    (`wf`: visible lengths within the stores, which EnsureLen guarantees) it returns nil - never errDecode, never an
    index out of range - and the destination is the model's `tefToOtlp`. -/
theorem gen_tefAnyValueToOtlp_eq (sv : SVal) (hw : wf sv = true) :
    (tefAnyValueToOtlp (sneed sv) sv).run .empty = .ret none (tefToOtlp sv) :=
  tefAnyValueToOtlp_eq (sneed sv) sv hw (Nat.le_refl _)

/-- what the regenerated otlpValueToTefAnyValue leaves is well-formed, whatever the re-used destination held -/
theorem gen_stored_wf (fuel : Nat) (v : AnyValue) (into s' : SVal) (hf : need v ≤ fuel)
    (h : (otlpValueToTefAnyValue fuel v).run into = .next () s') : wf s' = true := by
  rw [otlpValueToTefAnyValue_eq fuel v into hf] at h
  injection h with _ h2
  rw [← h2]
  exact wf_otlpToTef v into

/-- Props/C17 anyvalue_roundtrip with BOTH conversions as the source has them: otlpValueToTefAnyValue into any re-used
    destination, then tefAnyValueToOtlp into an empty value, returns nil and gives back the value - for every value
    whose maps have distinct keys (which pcommon.Map guarantees). -/
theorem gen_anyvalue_roundtrip_both (fuel fuel' : Nat) (v : AnyValue) (into s' : SVal) (hf : need v ≤ fuel)
    (hf' : sneed s' ≤ fuel') (hd : v.nodup = true) (h : (otlpValueToTefAnyValue fuel v).run into = .next () s') :
    (tefAnyValueToOtlp fuel' s').run .empty = .ret none v := by
  rw [tefAnyValueToOtlp_eq fuel' s' (gen_stored_wf fuel v into s' hf h) hf', gen_anyvalue_roundtrip fuel v into s' hf hd h]

/-- the hypothesis is needed: a (non-pdata) value with a repeated key is merged on the way back, as `Map.PutEmpty` does -/
example : (tefAnyValueToOtlp 3 (otlpToTef (.map (.cons [97] (.int 1) (.cons [97] (.int 2) .nil))) SVal.fresh)).run .empty
    = .ret none (.map (.cons [97] (.int 2) .nil)) := by decide

/-- the C17 sample (nested array, maps of one and three entries, NaN, -0.0) over a stale destination, there and back -/
example : C17.sampleValue.nodup = true ∧ need C17.sampleValue ≤ 6 ∧
    (tefAnyValueToOtlp 8 (otlpToTef C17.sampleValue C17.staleInto)).run .empty = .ret none C17.sampleValue := by decide

/-- TefToOtlpMap as the source has it, writing into an empty pcommon.Map = the model's `SAttrs.toOtlp`. -/
theorem gen_tefToOtlpMap_eq (fuel : Nat) (a : SAttrs) (hw : wfKs a.len a.store = true) (hs : sneedKs a.store ≤ fuel) :
    (tefToOtlpMap fuel a).run .nil = .ret none a.toOtlp :=
  tefToOtlpMap_eq fuel a hw hs

/-- Props/C17 attributes_roundtrip with BOTH directions as the source has them: MapUnsorted into a re-used
    otelstef.Attributes, then TefToOtlpMap into an empty map, gives back every clean attribute map. -/
theorem gen_attributes_roundtrip_both (fuel fuel' : Nat) (m : KVs) (o : Otlp2Stef) (out : SAttrs) (s' : MapSt)
    (hf : needKVs m ≤ fuel) (hf' : sneedKs s'.out.store ≤ fuel') (hc : m.clean = true)
    (h : (mapUnsorted fuel m).run ⟨o, out⟩ = .next () s') :
    (tefToOtlpMap fuel' s'.out).run .nil = .ret none m := by
  have hr := gen_attributes_roundtrip fuel m o out s' hf hc h
  rw [mapUnsorted_eq fuel m o out hf] at h
  injection h with _ h2
  have hw : wfKs s'.out.len s'.out.store = true := by rw [← h2]; exact wf_mapUnsorted m out
  rw [tefToOtlpMap_eq fuel' s'.out hw hf', hr]

example : sampleMap.clean = true ∧
    (tefToOtlpMap 6 (SAttrs.mapUnsorted sampleMap {})).run .nil = .ret none sampleMap := by decide

end Stef.Props.C18ValGen
