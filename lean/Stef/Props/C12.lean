/-
  C12 - The schema parser terminates with a resolved schema or a positioned error.
  Property theorems only; helper lemmas live in Stef/Proofs (IdlPos, IdlWF, IdlNoPanic).

  `Stef.Idl.parse` (Stef/Idl.lean) is `idl.Parse` of go/pkg/idl transcribed as a total function on
  ASCII inputs, with explicit outcomes `ok σ | error pos class | panic site`. Being a Lean
  function it terminates on every input; the theorems below are about what it returns.
-/
import Stef.Proofs.IdlPos
import Stef.Proofs.IdlNoPanic
import Stef.Proofs.IdlNoEmpty
import Stef.Proofs.IdlFuel
import Stef.Proofs.IdlNames

namespace Stef.Props.C12
open Stef.Idl

/-- Accepted schemas are well-formed: every type reference resolves to exactly one definition
    of the right kind, top-level names are unique across structs/oneofs/multimaps/enums, field
    names are unique within each struct/oneof, member names are unique within each enum, every
    root struct has at least one field, and no field is left without a type. -/
theorem parse_ok_wf (t : List Char) (σ : Schema) (h : parse t = .ok σ) : σ.WF := by
  have w := parseTokens_wf0 h
  exact ⟨w.top_unique, w.fields_unique, w.root_nonempty, w.refs, parseTokens_noEmpty h,
    w.enum_members_unique⟩

/-- non-vacuity: a schema with two roots, recursion through an array, a multimap, an enum,
    dictionaries and an unused struct is accepted (the unused struct `U` is pruned). -/
def sample : List Char :=
  ("package a.b enum E { X = 1 Y = 0x2 } multimap M { key string dict(K) value []A } " ++
   "oneof O { I int64 S A } struct A dict(DA) { N string dict(DN) optional E E R []A M M O O } " ++
   "struct R root { A A } struct R2 root { U uint64 } struct U { X bool }").toList

example : (match parse sample with
    | .ok σ => σ.structs.map (·.name) == [['O'], ['A'], ['R'], ['R','2']] &&
               σ.multimaps.length == 1 && σ.enums.length == 1
    | _ => false) = true := by decide +kernel

/-- Errors carry the position of the problem: a byte offset inside the input and a line/column
    counted from 1 (never Go's zero "unknown" position). -/
theorem parse_err_pos (t : List Char) (p : Pos) (c : ErrClass) (h : parse t = .error p c) :
    p.Within t.length :=
  parseTokens_err_within (lex_within t) h

example : parse "package a\nstruct 5".toList = .error ⟨17, 2, 8⟩ .structName := by decide +kernel
example : parse "package a struct A root { F B }".toList = .error ⟨31, 1, 32⟩ .unknownType := by
  decide +kernel

/-- Termination is not an artefact of the fuel the model uses for its loops: the parser never
    reports the model-only "out of fuel" error, and the lexer returns the same token sequence
    with any amount of extra fuel. (For the two schema traversals the same is part of
    `parse_no_panic`: `PanicSite.outOfFuel` is excluded there.) -/
theorem parse_fuel_sufficient (t : List Char) (p : Pos) : parse t ≠ .error p .outOfFuel :=
  parse_fuel t p

theorem lex_fuel_sufficient (t : List Char) (k : Nat) :
    lexLoop (t.length + 2 + k) (LexSt.adv { rest := t }) = lex t :=
  lex_fuel_irrelevant t k

/-- non-vacuity: with too little fuel the loops do stop early, so the statements are about the
    fuel actually supplied. -/
example : lexLoop 2 (LexSt.adv { rest := "a b c".toList }) ≠ lex "a b c".toList := by decide +kernel

/-- It never panics: none of the four `panic(...)` sites of computeRecursive / markRecursive /
    SetRecursive is reached, no nil definition is dereferenced, and the model's traversal fuel
    is never exhausted - for EVERY input. (Full statement; it was false before commit a64277c,
    when a field without a type was accepted by the grammar phase and made
    `computeRecursiveType` panic with "unknown type". Now the grammar phase leaves no field
    without a type, `Proofs/IdlNames.grammar_noEmpty`.) -/
theorem parse_no_panic (t : List Char) (s : PanicSite) : parse t ≠ .panic s :=
  parse_never_panics t s

/-- the former witnesses of `parser-panic-unknown-type` are positioned errors now. -/
def missingType : List Char := "package a struct A root { X }".toList

example : parse missingType = .error ⟨28, 1, 29⟩ .typeExpected := by decide +kernel

example : parse "package a struct A root { F M } multimap M { key value string }".toList
    = .error ⟨49, 1, 50⟩ .typeExpected := by decide +kernel

/-- non-vacuity: `sample` gets through all phases that contain panic sites and is accepted. -/
example : (match parse sample with | .ok _ => true | _ => false) = true := by decide +kernel

/-- Enum member names are unique in every accepted schema - for EVERY input. (Full statement;
    it was false before commit ed6fa67, when `parseEnumField` had no duplicate check and
    `enum E { X = 1 X = 2 }` was accepted, finding `dup-enum-member-accepted`. It is also the
    last clause of `parse_ok_wf`.) -/
theorem enum_members_unique (t : List Char) (σ : Schema) (h : parse t = .ok σ) :
    σ.EnumMembersUnique :=
  (parseTokens_wf0 h).enum_members_unique

/-- the former witness of `dup-enum-member-accepted` is a positioned error now, at the repeated
    identifier; the same enum with distinct member names is accepted (and kept: it is used). -/
def dupEnumMember : List Char := "package a struct R root { F E } enum E { X = 1 X = 2 }".toList

example : parse dupEnumMember = .error ⟨47, 1, 48⟩ (.dupEnumField ['X']) := by decide +kernel

/-- non-vacuity: an accepted schema that keeps an enum with several members (so the statement
    is about a non-empty list of member names), and the check is per enum: the same member name
    in two different enums is accepted. -/
example : parse "package a struct R root { F E G E2 } enum E { X = 1 Y = 2 } enum E2 { X = 3 }".toList = .ok
      { pkg := [['a']],
        structs := [{ name := ['R'], isRoot := true,
                      fields := [{ name := ['F'], ty := .base { prim := some .uint64, enum := ['E'] } },
                                 { name := ['G'], ty := .base { prim := some .uint64, enum := ['E','2'] } }] }],
        enums := [{ name := ['E'], fields := [⟨['X'], 1⟩, ⟨['Y'], 2⟩] },
                  { name := ['E','2'], fields := [⟨['X'], 3⟩] }] } := by decide +kernel

end Stef.Props.C12
