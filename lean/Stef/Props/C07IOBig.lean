/-
  C07 over the io.Reader contract, the instances at the reader's real bufio size (64 KiB): these
  two kernel evaluations run over lists of ~66 000 bytes and take about a minute and a few GB each,
  which is why they are in a module of their own (built once, then cached by lake).
-/
import Stef.Props.C07IO

namespace Stef.Props.C07IOBig
open Stef Stef.ReaderIO Stef.Props.C07IO

/-- a last column of 66 000 bytes -/
def col64k : Bytes := List.replicate 66000 0x61#8
def tail64k : Bytes := stream [0#8, 0#8] [frame 0 (dataContent 3 [66000] [col64k])]

/-- the first call hands out exactly the 20 bytes in front of the column (headers, record count,
    size table), every later call whatever is asked for, with io.EOF attached to the last bytes -/
def eager64k : List Beh := [{ want := 20 }, { want := 1000000, eager := true }, { want := 1000000, eager := true }]

set_option maxRecDepth 10000000 in
/-- (c) at 64 KiB: the buffer is empty when io.ReadFull asks for the 66 000-byte column, so bufio
    passes the read straight to the source (`len(p) = 66000 >= 65536`), which returns all of it
    together with io.EOF; FrameDecoder.Read returns `(66000, io.EOF)`, nothing is lost: all three
    records, then io.EOF from the next frame header read. -/
theorem eager_bypass_64k :
    summary (run readerBufSize (.node []) (src tail64k false eager64k) 9)
      = { header := .ok [0#8, 0#8], records := [(1, 0), (1, 1), (1, 2)], err := .eof, frames := [(3, [col64k])] } ∧
    (run readerBufSize (.node []) (src tail64k false eager64k) 9).2.fd.b.src.reqs.reverse = [65536, 66000, 65536] ∧
    Contract eager64k := by
  decide +kernel

end Stef.Props.C07IOBig
