/-
  C18 for the converter REGENERATED from the Go source: Stef/Gen/TracesFlow.lean is written on
  every check run by /verif/extract (extract/tracesflow.go) from
  go/pdata/traces/otlp2stef_unsorted.go (Convert, sortSpans, span2span, link2link, event2event) and
  go/pdata/internal/otlptools/otlpval2tef.go (ResourceUnsorted, ScopeUnsorted), statement by
  statement; Stef/Proofs/TracesFlowGen.lean proves the translated functions equal to the hand model
  Stef/Otlp/Traces.lean on every batch and every state of the re-used record. Here the C18
  theorems are restated for the regenerated functions. Property theorems only.
-/
import Stef.Proofs.TracesFlowGen
import Stef.Props.C18

namespace Stef.Props.C18Gen
open Stef.Otlp Stef.TracesFlowSem Stef.Proofs.TracesFlowGen
open Stef.Gen.TracesFlow (convert span2span event2event link2link)

/-- what the regenerated `Convert` writes, in order, when it is started with a fresh writer and
    returns nil; `none` if it returns an error, panics or a loop outlives `fuel` rounds. -/
def genRecords (fuel : Nat) (sorted : Bool) (t : Traces) : Option (List SpanRecord) :=
  match exec (convert fuel sorted) (t, {}) with
  | .ok none (_, w) => some w.out.reverse
  | _ => none

/-- The tie: with any fuel above the number of nodes of the batch (`weight` = resources + scopes +
    spans + events + links) the regenerated `Convert` returns nil and has written exactly the records
    of the hand model, in both modes, for every batch. -/
theorem gen_is_hand_model (sorted : Bool) (t : Traces) (fuel : Nat) (hf : weight t < fuel) :
    genRecords fuel sorted t = some (tracesToStef sorted t) := by
  obtain ⟨t', cur, h⟩ := convert_records sorted t fuel hf
  simp [genRecords, h]

/-- Regenerated `Convert` = hand model as a state transformer: from every state of the writer's
    re-used record it returns nil, never indexes out of range, every loop ends, the batch is left
    untouched (plain mode) / as `sortTraces` (sorting mode), the writer as `writeResourceSpans`. -/
theorem gen_convert_total (sorted : Bool) (t : Traces) (w : TState) (fuel : Nat) (hf : weight t < fuel) :
    exec (convert fuel sorted) (t, w)
      = .ok none (if sorted then sortTraces t else t,
                  writeResourceSpans sorted (if sorted then (sortTraces t).rss else t.rss) w) :=
  convert_eq fuel sorted t w (fuel_of_weight sorted hf)

/-- One record per span, in both modes, for every batch. -/
theorem gen_one_record_per_span (sorted : Bool) (t : Traces) (fuel : Nat) (hf : weight t < fuel) :
    ∃ rs, genRecords fuel sorted t = some rs ∧ rs.length = (flattenSpans t).length :=
  ⟨_, gen_is_hand_model sorted t fuel hf, C18.one_record_per_span sorted t⟩

/-- Content, plain mode, full statement: the records are exactly the spans in document order, each
    with its resource, scope, ids, name, kind, times, trace state, flags, attributes, dropped count,
    status, events and links. -/
theorem gen_span_content (t : Traces) (fuel : Nat) (hf : weight t < fuel) :
    genRecords fuel false t = some ((flattenSpans t).map (C18.expected false)) := by
  rw [gen_is_hand_model false t fuel hf, C18.span_content]

/-- Content, sorting mode: the records are exactly the spans of the sorted and merged batch. -/
theorem gen_span_content_sorted (t : Traces) (fuel : Nat) (hf : weight t < fuel) :
    genRecords fuel true t = some ((flattenSpans (sortTraces t)).map (C18.expected true)) := by
  rw [gen_is_hand_model true t fuel hf, C18.span_content_sorted]

/-- Sorting mode: the records are a permutation of the records of the spans. -/
theorem gen_sorted_same_multiset (t : Traces) (hb : t.keysB64 = true) (fuel : Nat) (hf : weight t < fuel) :
    ∃ rs, genRecords fuel true t = some rs ∧ rs.Perm ((flattenSpans t).map (C18.expected true)) :=
  ⟨_, gen_is_hand_model true t fuel hf, C18.sorted_same_multiset t hb⟩

/-- The sorting mode of the regenerated `Convert` merges two resources only if the comparison
    function says 0, i.e. only equal url / attributes / dropped count: the batch it leaves is the
    hand model's `sortTraces` (whose merge loop is `mergeAdjacent cmpResourceSpans` / `cmpScopeSpans`). -/
theorem gen_sorted_batch (t : Traces) (w : TState) (fuel : Nat) (hf : weight t < fuel) :
    ∃ w', exec (convert fuel true) (t, w) = .ok none (sortTraces t, w') :=
  ⟨_, by simpa using gen_convert_total true t w fuel hf⟩

/-- `span2span`, field by field: whatever the re-used record held, after the regenerated `span2span`
    the record shows exactly this span (ids as text, name, kind, times, trace state, flags,
    attributes - in key order in the sorting mode -, dropped count, status, every event and link),
    its resource and scope parts untouched. -/
theorem gen_span2span_content (fuel : Nat) (sorted : Bool) (sp : Span) (cur : STRecord)
    (hf : sp.events.length < fuel) (hf2 : sp.links.length < fuel) :
    ∃ d, exec (span2span fuel sp sorted) cur.span = .ok () d ∧
      ({ cur with span := d } : STRecord).visible = recordOf sorted cur.resource cur.scope sp :=
  ⟨_, span2span_eq fuel sp sorted cur.span hf hf2, convSpan_spec sorted sp cur⟩

/-- `event2event` / `link2link`: the re-used element shows exactly the event / link. -/
theorem gen_event_link_content (fuel : Nat) (e : Event) (l : Link) (d : SEvent) (d' : SLink) :
    (∃ x, exec (event2event fuel e) d = .ok () x ∧ x.toRec = eventRec e) ∧
    (∃ y, exec (link2link fuel l) d' = .ok () y ∧ y.toRec = linkRec l) :=
  ⟨⟨_, event2event_eq fuel e d, convEvent_spec e d⟩, ⟨_, link2link_eq fuel l d', convLink_spec l d'⟩⟩

/-! ### non-vacuity -/

/-- the sample batch of C18 (a repeated resource that is merged, spans with differing numbers of
    events and links) has 15 nodes; fuel 16 is enough -/
example : weight C18.sample < 16 := by decide

example : genRecords 16 true C18.sample = some (tracesToStef true C18.sample) ∧
    genRecords 16 false C18.sample = some ((flattenSpans C18.sample).map (C18.expected false)) :=
  ⟨gen_is_hand_model true _ 16 (by decide), gen_span_content _ 16 (by decide)⟩

example : C18.sample.keysB64 = true ∧ weight C18.sample < 16 := by decide

/-- with too little fuel the model reports it instead of cutting a loop short -/
example : genRecords 1 false C18.sample = none := by decide

end Stef.Props.C18Gen
