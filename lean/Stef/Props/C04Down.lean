/-
  C04 (second half) - DOWNGRADE: a writer for the newer schema B that is asked to write in the older
  schema A produces a stream that a reader for A decodes to the records restricted to A.

  The model. Go: `WriterOptions.Schema` = A's wire schema; the generated encoders of B then read A's
  field counts (`StructFieldCounts`) and write, per struct, `fieldMask & keepFieldMask` in
  `fieldCount` bits, `optionalFieldsPresent & ^(^0 << optionalFieldCount)` in `optionalFieldCount`
  bits and the first `fieldCount` fields only; per oneof, `typ` in bits.Len(fieldCount+1) bits with
  `typ > fieldCount` written as None (stefc/templates/go/struct.go.tmpl, oneof.go.tmpl).  Lean: the
  schema-generic encoder `SpecEnc.encodeNode` run with σ = B (B's initial values `initSt B` /
  `altInit B`, B-shaped previous values and struct-dictionary entries) on the column tree that
  `mkNode B` builds under A's descriptor - which IS A's tree (`C04.init_with_override`).  The model
  encoder REFUSES inputs that do not fit the tree (`encode_refuses_wide_mask`, `_wide_presence`,
  `_alternative`: it returns `none`, it never silently truncates), so the history is first seen
  through A's field counts: `restrict` (values: B-only trailing struct fields dropped, their
  presence bits dropped, a B-only oneof alternative read as none - harness: hgenlib.restrictNode)
  and `restrictMk` (marks: modified mask `mod 2^fieldCount`, = Go's `& keepFieldMask`:
  `keep_mask_is_projection`, `keepFieldMask_is_go`).  `downgradeStream A B root ins` is that writer.

  PROVED, for all A ≼ B with A well formed (`Closed A`, `DictInj A` - the two hypotheses of the
  forward direction, for the same reasons), all roots, all histories (any values, any marks, any
  frame boundaries and restart flags):

  * `downgrade_node`: whatever the B-side encoder emits at a node of A's tree, the plain A encoder
    (σ = A, the A views of the previous value and of the dictionary entries) emits THE SAME column
    events from the same new value and marks; the effective values and the states of the two runs
    stay related (`Forward.KRel`: B's value is A's plus B-only trailing fields), and `decodeNode A`
    reads the events back to the A run's effective value.
  * `downgrade_stream_bytes`: under ANY descriptor a reader for A accepts, the bytes the B writer
    produces are byte for byte the bytes the A writer produces from the same history.
  * `downgrade_records`: the stream of `downgradeStream` is decoded by `decodeStream A` without
    error, the header carries A's descriptor, the records are exactly the effective records of
    the ordinary A encoding of the restricted history, `dictViolations = 0`, and they are the B
    writer's effective records minus B-only trailing fields (`ExtL`); a B reader decodes the same
    stream to the B writer's effective records.
  * `downgrade_root_masks`: the root modified masks the A reader reports are the written root
    masks restricted to A's fields (`mask % 2^|fields of A's root|`).
  * `downgrade_records_sound`: with sound marks (the A encoder's effective values are the values it
    was given - the C01 notion, for the restricted history) the A reader returns exactly
    `restrict A` of the written B records, record by record.

  What stays outside Lean: that the Go writer of package B, run with `WriterOptions.Schema` = A's
  wire schema, IS this model.  It is tied by runs: the c04 runner hands every downgraded stream that
  the A reader read back in full to `emitDecode` (hgenlib/c04.go `downgrade` -> c10.go), which emits
  `sd decode <A> <root> <stream>` (expected: the restricted dumps and root masks) AND
  `se reencode <A> <root> <stream>`: the Lean encoder with σ = A, on the tree built under the
  stream's descriptor, must reproduce every frame byte for byte.  By `downgrade_stream_bytes` the σ = A
  re-encoding equals the σ = B (downgrade) encoding, so no further op is needed for the encoder
  model; what the ops do not show is the link between B's in-memory records / modified flags and
  the restricted history (it is observed through the expected dumps of `sd decode` only).
-/
import Stef.Proofs.DowngradeTop
import Stef.Proofs.DowngradeCex
import Stef.Proofs.ForwardCex

namespace Stef.Props.C04Down
open Stef Stef.Spec Stef.Proofs.Override Stef.Proofs.Forward Stef.Proofs.Downgrade
open Stef.SpecEnc (Mk Ev FrameIn encodeNode feed rootMask)

/-- **downgrade_node**: at every node of A's tree, the B-side run of the encoder and the A-side run
    emit the same events; the A reader decodes them to the A run's effective value. -/
theorem downgrade_node (A B : Schema) (hAB : SchemaLe A B) (hC : Closed A) (hD : DictInj A)
    (fuel : Nat) (env : List (String × Node)) (key : String) (n : Node) (prevA prevB new : St) (mk : Mk) (dsA dsB : DS)
    (evs : List Ev) (dsB' : DS) (effB : St)
    (henv : EnvOK A env) (hn : NK A key n) (hprev : KRel A key prevA prevB) (hds : DSRel A dsA dsB)
    (h : encodeNode B fuel env n prevB new mk dsB = some (evs, dsB', effB)) :
    ∃ dsA' effA, encodeNode A fuel env n prevA new mk dsA = some (evs, dsA', effA) ∧
      decodeNode A fuel env n prevA (feed evs dsA) = .ok (effA, dsA') ∧
      Ext effA effB ∧ KRel A key effA effB ∧ DSRel A dsA' dsB' := by
  obtain ⟨dsA', effA, hA, hk, hd⟩ := (enc_sim_all hAB hC hD fuel).1 env key n prevA prevB new mk dsA dsB evs dsB' effB
    henv hn hprev hds h
  have hr := (SpecEnc.roundtrip_all A fuel).1 env n prevA new mk dsA evs dsA' effA [] hA
  simp only [List.append_nil, SpecEnc.feed_nil] at hr
  exact ⟨dsA', effA, hA, hr, hk.toExt, hk, hd⟩

/-- **downgrade_stream_bytes**: under any descriptor `counts` that a reader for A accepts, the B writer
    and the A writer produce the same bytes from the same history; their effective records differ by
    B-only trailing struct fields only. -/
theorem downgrade_stream_bytes (A B : Schema) (hAB : SchemaLe A B) (hC : Closed A) (hD : DictInj A)
    (root : String) (counts : List Nat) (ins : List FrameIn) (bytes : Bytes) (effssB : List (List St)) (rA : Node × Build)
    (hA : mkNode A 200 [] (.ref root) { override := some counts } = .ok rA)
    (h : encodeStreamWith B root counts ins = some (bytes, effssB)) :
    ∃ effssA, encodeStreamWith A root counts ins = some (bytes, effssA) ∧ ExtL effssA.flatten effssB.flatten := by
  obtain ⟨effssA, h1, h2⟩ := downgrade_stream hAB hC hD root counts ins bytes effssB rA hA h
  exact ⟨effssA, h1, f2_krel_extL (f2_flatten h2)⟩

/-- **downgrade_records**: the stream of the downgrade writer, read by A (and by B). -/
theorem downgrade_records (A B : Schema) (hAB : SchemaLe A B) (hC : Closed A) (hD : DictInj A)
    (root : String) (insB : List FrameIn) (bytes : Bytes) (effssB : List (List St))
    (h : downgradeStream A B root insB = some (bytes, effssB)) :
    ∃ nodeA bA effssA,
      mkNode A 200 [] (.ref root) {} = .ok (nodeA, bA) ∧
      -- the bytes are the ordinary A encoding of the restricted history
      encodeStreamWith A root (wireOf bA) (restrictIns A root insB) = some (bytes, effssA) ∧
      -- the A reader
      (decodeStream A root bytes).error = none ∧
      (decodeStream A root bytes).header.wireCounts = some (wireOf bA) ∧
      (decodeStream A root bytes).records.map (·.2) = effssA.flatten ∧
      (decodeStream A root bytes).dictViolations = 0 ∧
      -- A's records are the B writer's effective records minus B-only trailing fields
      ExtL effssA.flatten effssB.flatten ∧
      -- a B reader on the same stream
      (decodeStream B root bytes).error = none ∧
      (decodeStream B root bytes).records.map (·.2) = effssB.flatten :=
  downgrade_records_main hAB hC hD root insB bytes effssB h

/-- **downgrade_root_masks**: the reported root modified masks are the written ones restricted to A's
    fields (root struct without dictionary). -/
theorem downgrade_root_masks (A B : Schema) (hAB : SchemaLe A B) (hC : Closed A) (hD : DictInj A)
    (root : String) (fa : List Field) (hroot : A.find root = some (.struct none fa))
    (insB : List FrameIn) (bytes : Bytes) (effssB : List (List St))
    (h : downgradeStream A B root insB = some (bytes, effssB)) :
    (decodeStream A root bytes).records.map (·.1) =
      (historyRecs insB).map (fun r => rootMask r.2 % 2 ^ fa.length) :=
  downgrade_masks_main hAB hC hD root fa hroot insB bytes effssB h

/-- the marks of the restricted history are sound: the A encoder's effective records are the records
    it was given (C01's notion of sound marks, for the ordinary A encoding) -/
def SoundDown (A : Schema) (root : String) (insB : List FrameIn) : Prop :=
  ∀ counts bytes effss, encodeStreamWith A root counts (restrictIns A root insB) = some (bytes, effss) →
    effss = (restrictIns A root insB).map (fun fr => fr.recs.map (·.1))

/-- **downgrade_records_sound**: with sound marks the A reader returns exactly the restricted records. -/
theorem downgrade_records_sound (A B : Schema) (hAB : SchemaLe A B) (hC : Closed A) (hD : DictInj A)
    (root : String) (insB : List FrameIn) (bytes : Bytes) (effssB : List (List St))
    (h : downgradeStream A B root insB = some (bytes, effssB)) (hs : SoundDown A root insB) :
    (decodeStream A root bytes).error = none ∧
    (decodeStream A root bytes).dictViolations = 0 ∧
    (decodeStream A root bytes).records.map (·.2) = (historyRecs insB).map (fun r => restrict A (.ref root) r.1) := by
  obtain ⟨nodeA, bA, effssA, _, hA, h1, _, h3, h4, _⟩ := downgrade_records A B hAB hC hD root insB bytes effssB h
  refine ⟨h1, h4, ?_⟩
  rw [h3, hs _ _ _ hA]
  exact restrictIns_values A root insB

/-! ### the Go masking is the projection -/

/-- the modified mask the downgrade writer uses is Go's `fieldMask & keepFieldMask` -/
theorem keep_mask_is_projection (A : Schema) (n : String) (d : Option String) (fa : List Field)
    (h : A.find n = some (.struct d fa)) (v : St) (mask : Nat) (subs : List Mk) :
    ∃ subs', restrictMk A (.ref n) v (.struct mask subs) = .struct (mask &&& keepFieldMask fa.length) subs' := by
  refine ⟨restrictMkFields A fa (Stef.Proofs.Forward.structFields v) subs, ?_⟩
  rw [restrictMk, h, mask_and_keep]

/-- Go's `^(^uint64(0) << fieldCount)` is `2^fieldCount - 1` for every field count up to 64 -/
theorem keepFieldMask_is_go : ∀ k, k ≤ 64 → (~~~((BitVec.allOnes 64) <<< k)).toNat = keepFieldMask k :=
  keepFieldMask_go

/-- the presence bits the downgrade writer uses fit A's optional-field count, the B-only alternative of a
    oneof is read as none, a new B value is seen as the new A value -/
theorem restrict_facts (A B : Schema) (hAB : SchemaLe A B) (hC : Closed A) :
    (∀ n d fa p fs, A.find n = some (.struct d fa) →
      restrict A (.ref n) (.struct p fs) = .struct (p % 2 ^ optCountOf fa) (restrictFields A fa fs) ∧
      p % 2 ^ optCountOf fa < 2 ^ optCountOf fa ∧ (restrictFields A fa fs).length = min fa.length fs.length) ∧
    (∀ n fa t val, A.find n = some (.oneof fa) → t > fa.length → restrict A (.ref n) (.oneof t val) = .oneof 0 none) ∧
    (∀ f ty, TyClosed A ty → restrict A ty (initSt B f ty) = initSt A f ty) :=
  ⟨fun n d fa p fs h => ⟨restrict_struct A n d fa p fs h, restrict_struct_fits fa p, restrictFields_length A fa fs⟩,
   fun n fa t val h ht => restrict_oneof_beyond A n fa t val h ht,
   restrict_init hAB hC⟩

/-! ### why the inputs are projected first: the model encoder refuses what does not fit the tree -/

theorem encode_refuses_wide_mask (σ : Schema) (f : Nat) (env : List (String × Node)) (col : Nat) (name : String)
    (d : Option String) (kept oc : Nat) (fields : List (Bool × Node)) (cur new : St) (mask : Nat) (subs : List Mk) (ds : DS)
    (h : 2 ^ kept ≤ mask) :
    encodeNode σ f env (.struct col name d kept oc fields) cur new (.struct mask subs) ds = none :=
  Stef.Proofs.Downgrade.encode_refuses_wide_mask σ f env col name d kept oc fields cur new mask subs ds h

theorem encode_refuses_wide_presence (σ : Schema) (f : Nat) (env : List (String × Node)) (col : Nat) (name : String)
    (d : Option String) (kept oc : Nat) (fields : List (Bool × Node)) (cur : St) (pres : Nat) (nf : List St)
    (mask : Nat) (subs : List Mk) (ds : DS) (h : 2 ^ oc ≤ pres) :
    encodeNode σ f env (.struct col name d kept oc fields) cur (.struct pres nf) (.struct mask subs) ds = none :=
  Stef.Proofs.Downgrade.encode_refuses_wide_presence σ f env col name d kept oc fields cur pres nf mask subs ds h

theorem encode_refuses_alternative (σ : Schema) (f : Nat) (env : List (String × Node)) (col : Nat) (name : String)
    (kept : Nat) (alts : List Node) (cur : St) (typ : Nat) (val : Option St) (sub : Mk) (ds : DS) (h : kept < typ) :
    encodeNode σ f env (.oneof col name kept alts) cur (.oneof typ val) (.oneof sub) ds = none :=
  Stef.Proofs.Downgrade.encode_refuses_alternative σ f env col name kept alts cur typ val sub ds h

/-! ### Non-vacuity: exB writes a history that uses every B-only feature in schema exA -/

/-- the history of `Ex` (two B records: the B-only optional field `y` present, the B-only struct
    field `s.n` set, the B-only alternative `T.n` chosen; B's marks with mask 15 = four fields):
    the downgrade writer produces `Ex.bytesD`; the unprojected history is refused by the model
    encoder; the A reader returns exactly the restricted records, with root masks 15 % 8 = 7 and
    9 % 8 = 1; the marks are sound in the sense of `downgrade_records_sound`'s conclusion. -/
example : ∃ effssB, downgradeStream exA exB "R" Ex.insB = some (Ex.bytesD, effssB) ∧
    encodeStreamWith exB "R" [3, 1, 2] Ex.insB = none ∧
    (decodeStream exA "R" Ex.bytesD).error = none ∧
    (decodeStream exA "R" Ex.bytesD).dictViolations = 0 ∧
    (decodeStream exA "R" Ex.bytesD).records.map (·.2) =
      (historyRecs Ex.insB).map (fun r => restrict exA (.ref "R") r.1) ∧
    (decodeStream exA "R" Ex.bytesD).records.map (·.2) = [Ex.recA 5#64, Ex.recA 6#64] ∧
    (decodeStream exA "R" Ex.bytesD).records.map (·.1) = [15 % 2 ^ 3, 9 % 2 ^ 3] ∧
    ExtL ((decodeStream exA "R" Ex.bytesD).records.map (·.2)) effssB.flatten := by
  obtain ⟨effssB, h⟩ := Ex.down_bytes
  obtain ⟨nodeA, bA, effssA, _, _, h1, _, h3, h4, h5, _⟩ :=
    downgrade_records exA exB exA_le_exB Cex.exA_closed Cex.exA_dictInj "R" Ex.insB Ex.bytesD effssB h
  have hm := downgrade_root_masks exA exB exA_le_exB Cex.exA_closed Cex.exA_dictInj "R" _ rfl Ex.insB Ex.bytesD effssB h
  refine ⟨effssB, h, Ex.raw_refused, h1, h4, ?_, ?_, ?_, ?_⟩
  · rw [Ex.readA.2]
    simp [historyRecs, Ex.insB, Ex.restrict_recB]
  · rw [Ex.readA.2]; rfl
  · rw [hm]; rfl
  · rw [h3]; exact h5

end Stef.Props.C04Down
