/-
  C03 / C05 / C07 (regenerated) - theorems about the header and frame LOADING functions restated for
  the functions that /verif/extract translates from the CURRENT go/pkg/recordbuf.go and
  go/pkg/basereader.go (Stef/Gen/LoadFlow.lean): `resetData`, `readSizesFrom`, `readDataFrom`
  (ReadColumnSet), `readFrom` (ReadBufs), `nextFrame`, `readFixedHeader`, `readVarHeader` (BaseReader).
  They are corollaries of Proofs/LoadFlowGen (regenerated = hand models `Stef.Sizes.readSizes`,
  `Stef.ReaderIO.readCols / readFrom / nextFrame / readFixedHeader / readVarHeaderBytes`, on every
  state) and of the theorems about the hand models (Proofs/Sizes, Proofs/ReaderIOProgress,
  Proofs/ReaderIOSim, Props/C07IO).
-/
import Stef.Proofs.LoadFlowGen
import Stef.Props.C05Gen

namespace Stef.Props.C03Gen
open Stef Stef.ReaderIO Stef.FrameFlowSem Stef.LoadFlowSem Stef.Proofs.FrameFlowGen Stef.Proofs.LoadFlowGen

local notation "G.readSizesFrom" => Stef.Gen.LoadFlow.readSizesFrom
local notation "G.readDataFrom" => Stef.Gen.LoadFlow.readDataFrom
local notation "G.readFrom" => Stef.Gen.LoadFlow.readFrom
local notation "G.nextFrame" => Stef.Gen.LoadFlow.nextFrame
local notation "G.readFixedHeader" => Stef.Gen.LoadFlow.readFixedHeader
local notation "G.readVarHeader" => Stef.Gen.LoadFlow.readVarHeader

/-! ### the regenerated functions ARE the hand models (restated from Proofs/LoadFlowGen) -/

/-- **gen_sizes_is_hand_model**: `ReadColumnSet.ReadSizesFrom` as translated from the source, on every
    column tree and every state (bit reader over the size table, remaining budget, recorded
    allocations): the state it leaves is the hand model's, it fails with
    `ErrColumnSizeLimitExceeded` exactly when the hand model says `false`, the tree keeps its shape;
    after a success the buffers handed out by `EnsureLen` are exactly those of the visited columns,
    in visit order, and everything below an empty column was reset. -/
theorem gen_sizes_is_hand_model (c : Cols) (st : Sizes.St) :
    (G.readSizesFrom c st).2.1 = (Sizes.readSizes (shape c) st).1 ∧
    (G.readSizesFrom c st).2.2 = errOf (Sizes.readSizes (shape c) st).2 ∧
    shape (G.readSizesFrom c st).1 = shape c ∧
    ((Sizes.readSizes (shape c) st).2 = true →
      norm (G.readSizesFrom c st).1 = true ∧
      (G.readSizesFrom c st).2.1.alloc =
        ((visited (G.readSizesFrom c st).1).map List.length).reverse ++ st.alloc) :=
  readSizesFrom_eq c st

/-- **gen_load_is_hand_model**: `ReadBufs.ReadFrom`, `BaseReader.NextFrame`, `ReadFixedHeader` and the
    source-touching part of `ReadVarHeader`, as translated from the source, compute what the hand
    models of Stef/ReaderIO.lean compute - same decoder state, same error (or flags / compression /
    header bytes), and on success the visited columns hold the hand model's column bytes - on every
    state of an uncompressed stream; the wiring facts of `Init` the vocabulary relies on hold. -/
theorem gen_load_is_hand_model (r : Rs) (rd : Rd) (h : Rel r rd) (lim : Nat) :
    ((G.readFrom r.bufs r.dec lim).2.1 = r.dec.withFd (ReaderIO.readFrom (shape r.bufs.columns) r.dec.fd lim).1 ∧
     Agree (ReaderIO.readFrom (shape r.bufs.columns) r.dec.fd lim).2 (G.readFrom r.bufs r.dec lim).2.2
       (fun cols => cols = visited (G.readFrom r.bufs r.dec lim).1.columns) ∧
     shape (G.readFrom r.bufs r.dec lim).1.columns = shape r.bufs.columns) ∧
    (Rel (G.nextFrame r).1 (ReaderIO.nextFrame rd).1 ∧
     (G.nextFrame r).1.dec = r.dec.withFd (ReaderIO.nextFrame rd).1.fd ∧
     (G.nextFrame r).1.compression = r.compression ∧
     (match (ReaderIO.nextFrame rd).2 with
      | .ok fl => (G.nextFrame r).2 = (fl, none) ∧
          (ReaderIO.nextFrame rd).1.cols = visited (G.nextFrame r).1.bufs.columns
      | .error e => (G.nextFrame r).2 = (0, some e))) ∧
    ((G.readFixedHeader r).1.dec = withB r.dec (ReaderIO.readFixedHeader r.dec.fd.b).1 ∧
     (G.readFixedHeader r).1.bufs = r.bufs ∧
     (G.readFixedHeader r).1.frameRecordCount = r.frameRecordCount ∧
     Agree (ReaderIO.readFixedHeader r.dec.fd.b).2 (G.readFixedHeader r).2
       (fun comp => (G.readFixedHeader r).1.compression = comp)) ∧
    (Rel (G.readVarHeader r).1 (readVarHeaderBytes rd).1 ∧
     (G.readVarHeader r).1.dec = r.dec.withFd (readVarHeaderBytes rd).1.fd ∧
     (match (readVarHeaderBytes rd).2 with
      | .ok bytes => (G.readVarHeader r).2 = (none, some bytes)
      | .error e => (G.readVarHeader r).2 = (some e, none))) ∧
    Stef.Gen.LoadFlow.initWiring = true :=
  ⟨readFrom_eq r.bufs r.dec lim h.none, nextFrame_eq r rd h, readFixedHeader_eq r, readVarHeader_eq r rd h,
   Proofs.LoadFlowGen.init_wiring⟩

/-- the hand model's reader state that a regenerated reader state describes -/
def toRd (r : Rs) : Rd :=
  { fd := r.dec.fd, tree := shape r.bufs.columns, frameRecordCount := r.frameRecordCount }

theorem rel_toRd (r : Rs) (hc : r.dec.compression = Stef.Gen.compressionNone) : Rel r (toRd r) :=
  ⟨hc, rfl, rfl, rfl⟩

/-! ### C03: sibling columns share ONE budget -/

/-- **gen_column_budget_conserved** (C03.column_budget_conserved for the regenerated
    `ReadSizesFrom`): whatever the size table says, and on the error path too, what was handed to
    `EnsureLen` plus what is left of `*readLimit` is what the caller passed in - a column cannot get
    more than what its siblings left. -/
theorem gen_column_budget_conserved (c : Cols) (st : Sizes.St) :
    (G.readSizesFrom c st).2.1.alloc.sum + (G.readSizesFrom c st).2.1.limit = st.alloc.sum + st.limit := by
  rw [(readSizesFrom_eq c st).1]
  exact Sizes.readSizes_conserve (shape c) st

/-- **gen_frame_columns_alloc_bounded** (C03.frame_columns_alloc_bounded for the regenerated
    `ReadBufs.ReadFrom`): for every column tree, every decoder state (compressed or not), every
    input and every `readLimit`, all sizes handed to `EnsureLen` by one `ReadFrom` call - the size
    table buffer and every column buffer, on the error paths too - sum up to at most `readLimit`. -/
theorem gen_frame_columns_alloc_bounded (s : Bufs) (d : St) (lim : Nat) :
    (G.readFrom s d lim).1.allocs.sum ≤ s.allocs.sum + lim := by
  rcases hG : G.readFrom s d lim with ⟨s', d', e'⟩
  unfold Stef.Gen.LoadFlow.readFrom at hG
  rcases hu : fdReadUvarint d with ⟨d1, bufSize, e1⟩
  simp only [hu] at hG
  split at hG
  · simp only [Prod.mk.injEq] at hG; obtain ⟨rfl, _, _⟩ := hG; simp
  · split at hG
    · simp only [Prod.mk.injEq] at hG; obtain ⟨rfl, _, _⟩ := hG; simp
    · rename_i hle
      simp only [noteAllocB, ensureLen] at hG
      rcases hf : fdReadFull d1 (List.replicate bufSize 0#8) with ⟨d2, table, e2⟩
      simp only [hf] at hG
      split at hG
      · simp only [Prod.mk.injEq] at hG; obtain ⟨rfl, _, _⟩ := hG
        simp only [List.sum_cons]; omega
      · simp only [sizesArgs, sizesBack] at hG
        have hcons := gen_column_budget_conserved s.columns
          { rd := s.tempBuf.reset table, limit := lim - bufSize, alloc := bufSize :: s.allocs }
        rcases hs : G.readSizesFrom s.columns
          { rd := s.tempBuf.reset table, limit := lim - bufSize, alloc := bufSize :: s.allocs } with ⟨c', st', e3⟩
        rw [hs] at hcons
        simp only [hs] at hG
        simp only [List.sum_cons] at hcons
        split at hG
        · simp only [Prod.mk.injEq] at hG; obtain ⟨rfl, _, _⟩ := hG
          simp only; omega
        · rcases hd : G.readDataFrom c' d2 with ⟨c'', d3, e4⟩
          simp only [hd, Prod.mk.injEq] at hG; obtain ⟨rfl, _, _⟩ := hG
          simp only; omega

/-! ### C03 / C05: NextFrame makes progress -/

/-- **gen_nextFrame_progress** (ReaderIO.nextFrame_progress for the regenerated `NextFrame`): a
    `NextFrame` that succeeds leaves a well-formed decoder and strictly fewer undelivered bytes, so
    the `Read` loop cannot spin on a fixed input. -/
theorem gen_nextFrame_progress (r : Rs) (hc : r.dec.compression = Stef.Gen.compressionNone) (hw : r.dec.fd.WF)
    (hok : (G.nextFrame r).2.2 = none) :
    (G.nextFrame r).1.dec.fd.WF ∧ (G.nextFrame r).1.dec.fd.b.rest.length < r.dec.fd.b.rest.length := by
  obtain ⟨_, h2, _, h4⟩ := nextFrame_eq r (toRd r) (rel_toRd r hc)
  rcases hh : (ReaderIO.nextFrame (toRd r)).2 with e | fl
  · rw [hh] at h4; simp only at h4; rw [h4] at hok; cases hok
  · have := nextFrame_progress (toRd r) hw fl hh
    rw [h2]
    exact this

/-! ### C07: the loaders do not depend on how the source chunks its data -/

/-- **gen_readFixedHeader_chunking** (readFixedHeader_sim for the regenerated `ReadFixedHeader`): two
    readers whose sources hold the same undelivered bytes and end the same way - whatever their
    buffers, schedules and stored errors - return the same error, store the same compression
    method, and leave sources that are related again. -/
theorem gen_readFixedHeader_chunking (r₁ r₂ : Rs) (h : Bufio.Sim r₁.dec.fd.b r₂.dec.fd.b) :
    (G.readFixedHeader r₁).2 = (G.readFixedHeader r₂).2 ∧
    ((G.readFixedHeader r₁).2 = none → (G.readFixedHeader r₁).1.compression = (G.readFixedHeader r₂).1.compression) ∧
    Bufio.Sim (G.readFixedHeader r₁).1.dec.fd.b (G.readFixedHeader r₂).1.dec.fd.b := by
  obtain ⟨a1, _, _, a4⟩ := readFixedHeader_eq r₁
  obtain ⟨b1, _, _, b4⟩ := readFixedHeader_eq r₂
  obtain ⟨hr, hs⟩ := readFixedHeader_sim h
  rw [a1, b1]
  refine ⟨?_, ?_, hs⟩
  · rcases h1 : (ReaderIO.readFixedHeader r₁.dec.fd.b).2 with e | c
    · rw [h1] at a4 hr; rw [← hr] at b4; simp only [Agree] at a4 b4; rw [a4, b4]
    · rw [h1] at a4 hr; rw [← hr] at b4; simp only [Agree] at a4 b4; rw [a4.1, b4.1]
  · intro hok
    rcases h1 : (ReaderIO.readFixedHeader r₁.dec.fd.b).2 with e | c
    · rw [h1] at a4; simp only [Agree] at a4; rw [a4] at hok; cases hok
    · rw [h1] at a4 hr; rw [← hr] at b4; simp only [Agree] at a4 b4; rw [a4.2, b4.2]

/-- two regenerated reader states that differ only in how their sources chunk the data -/
structure Sim (r₁ r₂ : Rs) : Prop where
  none₁ : r₁.dec.compression = Stef.Gen.compressionNone
  none₂ : r₂.dec.compression = Stef.Gen.compressionNone
  fd : Fd.Sim r₁.dec.fd r₂.dec.fd
  tree : shape r₁.bufs.columns = shape r₂.bufs.columns
  count : r₁.frameRecordCount = r₂.frameRecordCount

theorem Sim.toRd {r₁ r₂ : Rs} (h : Sim r₁ r₂) : Rd.Sim (toRd r₁) (toRd r₂) :=
  ⟨h.fd, h.tree, h.count, rfl, rfl, rfl, rfl, rfl⟩

/-- **gen_readVarHeader_chunking** (readVarHeaderBytes_sim for the regenerated `ReadVarHeader`): the
    error, or the bytes handed to `VarHeader.Deserialize`, do not depend on the chunking. -/
theorem gen_readVarHeader_chunking (r₁ r₂ : Rs) (h : Sim r₁ r₂) :
    (G.readVarHeader r₁).2 = (G.readVarHeader r₂).2 ∧
    Fd.Sim (G.readVarHeader r₁).1.dec.fd (G.readVarHeader r₂).1.dec.fd := by
  obtain ⟨_, a2, a3⟩ := readVarHeader_eq r₁ (toRd r₁) (rel_toRd r₁ h.none₁)
  obtain ⟨_, b2, b3⟩ := readVarHeader_eq r₂ (toRd r₂) (rel_toRd r₂ h.none₂)
  obtain ⟨hr, hs⟩ := readVarHeaderBytes_sim h.toRd
  rw [a2, b2]
  refine ⟨?_, hs.fd⟩
  rcases h1 : (readVarHeaderBytes (toRd r₁)).2 with e | bs
  · rw [h1] at a3 hr; rw [← hr] at b3; simp only at a3 b3; rw [a3, b3]
  · rw [h1] at a3 hr; rw [← hr] at b3; simp only at a3 b3; rw [a3, b3]

/-- **gen_nextFrame_chunking** (ReaderIO.nextFrame_rel for the regenerated `NextFrame`): for two
    readers that differ only in the chunking of their sources, `NextFrame` returns the same flags
    and the same error, stores the same record count, loads the same column bytes and leaves
    related decoders - or both have failed in an `io.ReadFull` that asked for more than the frame
    had left (the known overrun of a malformed frame, known_findings C07). -/
theorem gen_nextFrame_chunking (r₁ r₂ : Rs) (h : Sim r₁ r₂) :
    ((∃ e₁ e₂, (G.nextFrame r₁).2 = (0, some e₁) ∧ (G.nextFrame r₂).2 = (0, some e₂)) ∧
      (G.nextFrame r₁).1.dec.fd.overrun = true ∧ (G.nextFrame r₂).1.dec.fd.overrun = true) ∨
    ((G.nextFrame r₁).2 = (G.nextFrame r₂).2 ∧
      Fd.Sim (G.nextFrame r₁).1.dec.fd (G.nextFrame r₂).1.dec.fd ∧
      (G.nextFrame r₁).1.frameRecordCount = (G.nextFrame r₂).1.frameRecordCount ∧
      ((G.nextFrame r₁).2.2 = none →
        visited (G.nextFrame r₁).1.bufs.columns = visited (G.nextFrame r₂).1.bufs.columns)) := by
  obtain ⟨a1, a2, _, a4⟩ := nextFrame_eq r₁ (toRd r₁) (rel_toRd r₁ h.none₁)
  obtain ⟨b1, b2, _, b4⟩ := nextFrame_eq r₂ (toRd r₂) (rel_toRd r₂ h.none₂)
  rw [a2, b2]
  simp only [withFd_fd]
  rcases nextFrame_rel h.toRd with ⟨⟨e₁, e₂, h1, h2⟩, o1, o2, _⟩ | ⟨hr, hs⟩
  · left
    rw [h1] at a4; rw [h2] at b4
    exact ⟨⟨e₁, e₂, a4, b4⟩, o1, o2⟩
  · right
    have hc : (G.nextFrame r₁).1.frameRecordCount = (G.nextFrame r₂).1.frameRecordCount := by
      rw [← a1.count, ← b1.count]; exact hs.frameRecordCount
    rcases h1 : (ReaderIO.nextFrame (toRd r₁)).2 with e | fl
    · rw [h1] at a4 hr; rw [← hr] at b4; simp only at a4 b4
      refine ⟨by rw [a4, b4], hs.fd, hc, ?_⟩
      intro hok; rw [a4] at hok; cases hok
    · rw [h1] at a4 hr; rw [← hr] at b4; simp only at a4 b4
      refine ⟨by rw [a4.1, b4.1], hs.fd, hc, ?_⟩
      intro _; rw [← a4.2, ← b4.2]; exact hs.cols

/-! ### non-vacuity: the regenerated loaders run a whole stream -/

/-- the column set of a reader over the tree root(child, child) -/
def smallCols : Cols := .node [] [.node [] [], .node [] []]

/-- a reader over `C07IO.smallStream` (two frames, 2 + 1 records) delivered one byte per call -/
def smallReader (data : Bytes) (σ : List Beh) : Rs :=
  { dec := C05Gen.start { src := { data := data, sched := σ }, size := readerBufSize }, bufs := { columns := smallCols } }

example : shape smallCols = C07IO.smallTree := rfl

example : Rel (smallReader C07IO.smallStream []) (toRd (smallReader C07IO.smallStream [])) := rel_toRd _ rfl

/-- fixed header, var header, the two frames and the end of the stream, through the regenerated
    functions only, one byte per source call: flags, record counts, column bytes, the header bytes,
    the final io.EOF, and every allocation within the frame's size. -/
example :
    let r0 := smallReader C07IO.smallStream (List.replicate 60 { want := 1 })
    let r1 := (G.readFixedHeader r0).1
    let r2 := (G.readVarHeader r1).1
    let r3 := (G.nextFrame r2).1
    let r4 := (G.nextFrame r3).1
    (G.readFixedHeader r0).2 = none ∧ r1.compression = Stef.Gen.compressionNone ∧
    (G.readVarHeader r1).2 = (none, some [0#8, 0#8]) ∧
    (G.nextFrame r2).2 = (0, none) ∧ r3.frameRecordCount = 2 ∧
    visited r3.bufs.columns = [[1#8, 2#8, 3#8], [4#8, 5#8], [6#8]] ∧ r3.bufs.allocs = [1, 2, 3, 2] ∧
    (G.nextFrame r3).2 = (1, none) ∧ r4.frameRecordCount = 1 ∧
    visited r4.bufs.columns = [[7#8], [], [8#8, 9#8, 10#8, 11#8]] ∧
    (G.nextFrame r4).2 = (0, some .eof) := by
  decide +kernel

/-- a stream cut inside the last column: `NextFrame` fails with io.ErrUnexpectedEOF and returns flags 0 -/
example :
    let r0 := smallReader (C07IO.smallStream.take 32) [{ want := 65536, eager := true }]
    let r2 := (G.readVarHeader (G.readFixedHeader r0).1).1
    let r3 := (G.nextFrame r2).1
    (G.nextFrame r2).2 = (0, none) ∧ (G.nextFrame r3).2 = (0, some .unexpectedEof) := by
  decide +kernel

/-- three columns each claiming 3 bytes of a budget of 8 (size table 0x77 0x70): each claim fits
    alone, the third is refused by the regenerated `ReadSizesFrom`; what was allocated before the
    refusal is 3 + 3 -/
example :
    (G.readSizesFrom smallCols { rd := { buf := [0x77#8, 0x70#8] }, limit := 8 }).2.2 = some .columnSizeLimit ∧
    (G.readSizesFrom smallCols { rd := { buf := [0x77#8, 0x70#8] }, limit := 8 }).2.1.alloc = [3, 3] ∧
    (G.readSizesFrom smallCols { rd := { buf := [0x77#8, 0x70#8] }, limit := 8 }).2.1.limit = 2 := by
  decide +kernel

end Stef.Props.C03Gen
