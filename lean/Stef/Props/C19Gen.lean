/-
  C19 for the REGENERATED exporter. The bodies of pushMetrics, onGrpcAck and the arms of the flusher of the
  CURRENT otelcol/internal/stefexporter/exporter.go are translated statement by statement by /verif/extract
  (exporterflow.go -> Gen/ExporterFlow.lean, data of the statement language of Stef/ExporterFlowSem.lean).
  Proofs/ExporterGen.lean proves that they make exactly the exporter-side steps of the hand model
  Stef/Pipeline.lean; here the C19 theorems are restated for the pipeline whose exporter is the regenerated
  code (`grun`), and the facts about locking, acknowledgements and the flusher that the hand model takes for
  granted are stated for every state and every outcome of the callees.

  `XSt.of p`: a goroutine that holds no mutex on an exporter whose Start() succeeded (remoteWriter set).
  Not covered: see design_parts/exporterflow.md (interleaving INSIDE a call is the meaning of sync.Mutex, not
  modelled; ToStef / OtlpToSortedTree / Flush are whitelisted operations; Start / Shutdown only as facts).
-/
import Stef.Proofs.ExporterGen
import Stef.Props.C19

set_option linter.unusedSimpArgs false

namespace Stef.Props.C19Gen
open Stef.Pipeline Stef.ExporterFlowSem Stef.Gen.ExporterFlow Stef.Proofs.ExporterGen

/-! ## the pipeline with the regenerated exporter is the hand pipeline -/

/-- Each exporter-side transition of the pipeline model is what the regenerated code computes: `push pts` is
    one call of pushMetrics in which every callee succeeds, `emit k` with k = everything open is one tick of the
    flusher, `ackrecv` hands the oldest acknowledgement in flight to onGrpcAck. -/
theorem gen_step_is_hand_step (p : PState) (e : Event) : gstep p e = step p e := gstep_eq p e

/-- ... hence the runs are the same, for every event list from every state. -/
theorem gen_runs_are_hand_runs (evs : List Event) (p : PState) : grun p evs = run p evs := grun_eq evs p

/-- C19.exactly_once for the regenerated exporter: in every reachable state the points accepted by pushMetrics
    are, in order, those delivered, the batch being consumed, the chunks in flight, the open frame. -/
theorem gen_exactly_once (evs : List Event) (s : PState) (h : grun init evs = some s) :
    s.pushed = s.delivered ++ s.cur ++ s.fwd.flatten ++ s.open_ :=
  C19.exactly_once evs s (by rw [← grun_eq]; exact h)

/-- C19.delivered_at_most_once for the regenerated exporter. -/
theorem gen_delivered_at_most_once (evs : List Event) (s : PState) (h : grun init evs = some s) (p : Pt) :
    s.delivered.count p ≤ s.pushed.count p :=
  C19.delivered_at_most_once evs s (by rw [← grun_eq]; exact h) p

/-- C19.exactly_once_quiescent for the regenerated exporter. -/
theorem gen_exactly_once_quiescent (evs : List Event) (s : PState) (h : grun init evs = some s)
    (ho : s.open_ = []) (hf : s.fwd = []) (hb : s.busy = false) :
    s.delivered = s.pushed ∧ ∀ p, s.delivered.count p = s.pushed.count p :=
  C19.exactly_once_quiescent evs s (by rw [← grun_eq]; exact h) ho hf hb

/-- non-vacuity: two calls of the regenerated pushMetrics sharing a frame, one flusher tick, delivery. -/
example : ∃ s, grun init [.push [10, 11], .push [12], .emit 3, .deliver, .accept] = some s ∧
    s.delivered = [10, 11, 12] ∧ s.pushed = [10, 11, 12] ∧ s.open_ = [] ∧ s.fwd = [] ∧ s.busy = false := by
  rw [grun_eq]; exact ⟨_, rfl, rfl, rfl, rfl, rfl, rfl⟩

/-- C19.eventually_acked for the regenerated exporter: from every reachable state the canonical continuation
    (its flush is a flusher tick, its ackrecv's are onGrpcAck calls) is enabled to its end and ends with every
    delivered batch id <= the last ack id held by the exporter. -/
theorem gen_eventually_acked (evs : List Event) (s : PState) (h : grun init evs = some s) :
    ∃ s', grun s (drain s) = some s' ∧
      (∀ id ∈ s'.batchIds, id ≤ s'.lastAckedX) ∧
      (∀ id ∈ s.batchIds, id ∈ s'.batchIds) ∧
      s'.pushed = s.pushed ∧ s'.delivered = s'.pushed := by
  obtain ⟨s', h1, h2⟩ := C19.eventually_acked evs s (by rw [← grun_eq]; exact h)
  exact ⟨s', by rw [grun_eq]; exact h1, h2⟩

/-- non-vacuity: the reachable state `C19.mid` (batch inside the consumer, chunk in flight, open records, ack in flight) -/
example : grun init C19.midRun = some C19.mid := by rw [grun_eq]; decide

/-- C19.exporter_ack_monotone for the regenerated exporter (any step of the pipeline). -/
theorem gen_exporter_ack_monotone (s s' : PState) (e : Event) (h : gstep s e = some s') :
    s.lastAckedX ≤ s'.lastAckedX :=
  C19.exporter_ack_monotone s s' e (by rw [← gstep_eq]; exact h)

example : ∃ s', gstep { back := [7], lastAckedX := 3 } .ackrecv = some s' ∧ s'.lastAckedX = 7 := by
  rw [gstep_eq]; exact ⟨_, rfl, rfl⟩

/-! ## pushMetrics: the write lock, what nil means -/

/-- A call of pushMetrics whose callees all succeed is the hand model's `push` and returns nil. -/
theorem push_is_hand_push (p : PState) (pts : List Pt) :
    step p (.push pts) = some (pushMetrics .ok pts (.of p)).1.p ∧ (pushMetrics .ok pts (.of p)).2 = some false := by
  rw [push_char .ok pts (.of p) rfl rfl]
  simp [pushResult, Oracle.ok, failsAt, XSt.of, step_push]

/-- THE WRITE LOCK IS HELD ACROSS ToStef (all Write() calls of one push), RecordCount() and the pending-ack
    bookkeeping: for every outcome of the callees and every state (the goroutine holding no mutex), once the
    conversion to a sorted tree has succeeded the actions of the call are `writeMutex.Lock()`, then actions among
    which is neither a Lock nor an Unlock of writeMutex, then - last, on every return path - `writeMutex.Unlock()`.
    So between the first and the last Write() of one push no other holder of writeMutex (another pushMetrics, the
    flusher) runs: the records of one push are contiguous in the stream. Nothing guarded is touched without its
    mutex (`viol` unchanged) and both mutexes are free at the end. -/
theorem push_holds_write_lock_throughout (o : Oracle) (pts : List Pt) (s : XSt)
    (hw : s.wHeld = false) (ha : s.aHeld = false) (hc : o.convertFails = false) :
    ∃ mid, (pushMetrics o pts s).1.acts = s.acts ++ Act.lock .write :: (mid ++ [Act.unlock .write]) ∧
      (∀ a ∈ mid, a ≠ Act.lock .write ∧ a ≠ Act.unlock .write) ∧
      (pushMetrics o pts s).1.viol = s.viol ∧ (pushMetrics o pts s).1.wHeld = false ∧
      (pushMetrics o pts s).1.aHeld = false := by
  rw [push_char o pts s hw ha]
  simp only [pushResult, hc]
  by_cases hW : s.hasWriter = false
  · exact ⟨[], by simp [hW], by simp, by simp [hW], by simp [hW, hw], by simp [hW, ha]⟩
  · cases hf : failsAt o pts.length with
    | some k => exact ⟨[.wrote k], by simp [hW], by simp, by simp [hW], by simp [hW, hw], by simp [hW, ha]⟩
    | none =>
      exact ⟨[.wrote pts.length, .lock .ack, .unlock .ack], by simp [hW], by simp, by simp [hW],
        by simp [hW, hw], by simp [hW, ha]⟩

/-- non-vacuity: a call in which the third Write() fails: lock, two records, unlock; an error is returned. -/
example : (pushMetrics { toStefFailsAfter := some 2 } [1, 2, 3] (.of init)).1.acts =
      [.lock .write, .wrote 2, .unlock .write] ∧
    (pushMetrics { toStefFailsAfter := some 2 } [1, 2, 3] (.of init)).2 = some true := by
  rw [push_char _ _ _ rfl rfl]; decide

/-- A PUSH THAT RETURNS nil HAS WRITTEN ALL ITS RECORDS: on an exporter with a writer, whatever the callees do,
    if pushMetrics returns nil then the state is the hand model's `push`: every record of the batch went to the
    writer, in order (`pushed`, `open_`, `written`), lastSentRecordId is the writer's record count, the batch is
    keyed under it unless already acknowledged. -/
theorem push_nil_has_written_everything (o : Oracle) (pts : List Pt) (s : XSt)
    (hw : s.wHeld = false) (ha : s.aHeld = false) (hW : s.hasWriter = true)
    (hr : (pushMetrics o pts s).2 = some false) :
    step s.p (.push pts) = some (pushMetrics o pts s).1.p ∧
    (pushMetrics o pts s).1.p.pushed = s.p.pushed ++ pts ∧
    (pushMetrics o pts s).1.p.written = s.p.written + pts.length ∧
    (pushMetrics o pts s).1.p.lastSent = s.p.written + pts.length := by
  rw [push_char o pts s hw ha] at hr ⊢
  simp only [pushResult, hW] at hr ⊢
  cases hc : o.convertFails
  · cases hf : failsAt o pts.length with
    | some k => simp [hc, hf] at hr
    | none => simp [hc, step_push, handPush, step]
  · simp [hc] at hr

example : (pushMetrics .ok [1, 2] (.of init)).2 = some false := by rw [push_char _ _ _ rfl rfl]; decide

/-- pushMetrics always returns; an error leaves lastSentRecordId, lastAckedRecordId and sentPendingAck as they
    were, and what reached the writer is a prefix of the batch (nothing when the conversion failed). -/
theorem push_error_keeps_ack_state (o : Oracle) (pts : List Pt) (s : XSt)
    (hw : s.wHeld = false) (ha : s.aHeld = false) (hr : (pushMetrics o pts s).2 ≠ some false) :
    (pushMetrics o pts s).2 = some true ∧
    (pushMetrics o pts s).1.p.lastSent = s.p.lastSent ∧ (pushMetrics o pts s).1.p.lastAckedX = s.p.lastAckedX ∧
    (pushMetrics o pts s).1.p.pending = s.p.pending ∧
    ∃ k, k ≤ pts.length ∧ (pushMetrics o pts s).1.p.pushed = s.p.pushed ++ pts.take k := by
  rw [push_char o pts s hw ha] at hr ⊢
  simp only [pushResult] at hr ⊢
  cases hc : o.convertFails
  · cases hW : s.hasWriter
    · simp [hc, hW] at hr
    · cases hf : failsAt o pts.length with
      | some k =>
        have hk : k < pts.length := by
          simp only [failsAt] at hf
          split at hf
          · split at hf <;> simp at hf; omega
          · simp at hf
        simp only [hc, hW, hf]
        exact ⟨rfl, rfl, rfl, rfl, k, by omega, rfl⟩
      | none => simp [hc, hW, hf] at hr
  · simp only [hc]
    exact ⟨rfl, rfl, rfl, rfl, 0, by omega, by simp⟩

example : (pushMetrics { convertFails := true } [1] (.of init)).2 ≠ some false := by
  rw [push_char _ _ _ rfl rfl]; decide

/-- Recorded (not reachable after a successful Start, fact `flusherStartedAfterWriterSet`; Start's failure stops
    the collector): while remoteWriter is nil pushMetrics returns nil WITHOUT writing anything. -/
theorem push_without_writer_returns_nil_and_writes_nothing (o : Oracle) (pts : List Pt) (s : XSt)
    (hw : s.wHeld = false) (ha : s.aHeld = false) (hW : s.hasWriter = false) (hc : o.convertFails = false) :
    (pushMetrics o pts s).2 = some false ∧ (pushMetrics o pts s).1.p = s.p := by
  rw [push_char o pts s hw ha]
  simp [pushResult, hW, hc]

example : (pushMetrics .ok [1] { p := init, hasWriter := false }).1.p.pushed = [] := by
  rw [push_char _ _ _ rfl rfl]; decide

/-! ## onGrpcAck: monotone, releases the waiters below the id -/

/-- onGrpcAck(a) from ANY state and for ANY id (also one beyond lastSentRecordId, also a stale one) is the
    exporter half of the hand model's `ackrecv`: lastAckedRecordId becomes max(lastAckedRecordId, a), exactly the
    keys k with lastAckedRecordId <= k < a leave sentPendingAck, nothing else changes, nil is returned, the loop
    ends, ackMutex is taken and released and nothing is touched without it. -/
theorem ack_is_hand_ackrecv (a : Nat) (s : XSt) (h : s.aHeld = false) :
    onGrpcAck a s =
      ({ s with p := { s.p with pending := s.p.pending.filter (fun k => ¬ (s.p.lastAckedX ≤ k ∧ k < a)),
                                lastAckedX := if s.p.lastAckedX < a then a else s.p.lastAckedX },
                acts := s.acts ++ [.lock .ack, .unlock .ack] }, some false) :=
  ack_eq a s h

/-- AN ACKNOWLEDGEMENT ID NEVER MOVES BACKWARDS, whatever id the callback is given. -/
theorem ack_never_moves_backwards (a : Nat) (s : XSt) (h : s.aHeld = false) :
    s.p.lastAckedX ≤ (onGrpcAck a s).1.p.lastAckedX ∧ a ≤ (onGrpcAck a s).1.p.lastAckedX := by
  rw [ack_eq a s h]
  simp only [handAck]
  split <;> omega

/-- non-vacuity: a stale id (2 after 5) changes nothing; an id ahead releases what is below it. -/
example : (onGrpcAck 2 (.of { lastAckedX := 5, pending := [5, 7] })).1.p.lastAckedX = 5 ∧
    (onGrpcAck 2 (.of { lastAckedX := 5, pending := [5, 7] })).1.p.pending = [5, 7] ∧
    (onGrpcAck 8 (.of { lastAckedX := 5, pending := [5, 7, 8] })).1.p.lastAckedX = 8 ∧
    (onGrpcAck 8 (.of { lastAckedX := 5, pending := [5, 7, 8] })).1.p.pending = [8] := by
  rw [ack_eq _ _ rfl, ack_eq _ _ rfl]; decide

/-- onGrpcAck leaves the writer side alone (it needs no writeMutex and commutes with everything under it). -/
theorem ack_touches_only_ack_fields (a : Nat) (s : XSt) (h : s.aHeld = false) :
    (onGrpcAck a s).1.p.written = s.p.written ∧ (onGrpcAck a s).1.p.open_ = s.p.open_ ∧
    (onGrpcAck a s).1.p.pushed = s.p.pushed ∧ (onGrpcAck a s).1.p.lastSent = s.p.lastSent ∧
    (onGrpcAck a s).1.p.fwd = s.p.fwd ∧ (onGrpcAck a s).1.viol = s.viol ∧ (onGrpcAck a s).1.diverged = s.diverged := by
  rw [ack_eq a s h]; simp [handAck]

/-! ## the flusher only calls Flush -/

/-- One tick of the flusher, from any state of an exporter with a writer: `writeMutex.Lock()`, `Flush()`,
    `writeMutex.Unlock()` and nothing else - the open frame leaves as one chunk if it has records (the hand
    model's `emit` of everything open), nothing happens otherwise; no record is written, no ack field changes; the
    loop goes on (no return) whether or not Flush failed. -/
theorem flusher_only_calls_flush (o : Oracle) (s : XSt) (hw : s.wHeld = false) (hW : s.hasWriter = true) :
    (flusherTick o s).1.acts = s.acts ++ [.lock .write, .flushed, .unlock .write] ∧
    (flusherTick o s).2 = none ∧
    (flusherTick o s).1.p = flushP s.p ∧
    (s.p.open_.length ≠ 0 → step s.p (.emit s.p.open_.length) = some (flusherTick o s).1.p) ∧
    (s.p.open_.length = 0 → (flusherTick o s).1.p = s.p) ∧
    (flusherTick o s).1.p.pushed = s.p.pushed ∧ (flusherTick o s).1.p.written = s.p.written ∧
    (flusherTick o s).1.p.lastSent = s.p.lastSent ∧ (flusherTick o s).1.p.lastAckedX = s.p.lastAckedX ∧
    (flusherTick o s).1.p.pending = s.p.pending ∧
    (flusherTick o s).1.viol = s.viol ∧ (flusherTick o s).1.panicked = s.panicked ∧
    (flusherTick o s).1.wHeld = false := by
  rw [flushTick_char o s hw hW]
  refine ⟨rfl, rfl, rfl, fun h => flushP_emit s.p h, fun h => flushP_noop s.p h, ?_, ?_, ?_, ?_, ?_, rfl, rfl, hw⟩ <;>
    (simp only [flushP]; split <;> rfl)

/-- non-vacuity: three open records leave as one chunk -/
example : (flusherTick .ok (.of { open_ := [1, 2, 3], pushed := [1, 2, 3], written := 3 })).1.p.fwd = [[1, 2, 3]] := by
  rw [flushTick_char _ _ rfl rfl]; decide

/-- closed facts about the regenerated arms: the tick arm contains a Flush and neither a ToStef nor an assignment
    to an ack field / the pending map; the `stopped` arm is a bare `return`. -/
theorem flusher_arms_static :
    flusherTickArm.has Stmt.isFlush = true ∧ flusherTickArm.has Stmt.isWriterWrite = false ∧
    flusherTickArm.has Stmt.isAckFieldWrite = false ∧ flusherStopArm = .ret none :=
  ⟨tick_arm_static.1, tick_arm_static.2.1, tick_arm_static.2.2, rfl⟩

/-- after `close(stopped)` the flusher returns without touching anything (no final Flush: what is still open
    when Shutdown is called is not sent - outside C19, whose runs have no Shutdown). -/
theorem flusher_stop_touches_nothing (s : XSt) : flusherStop s = (s, some false) := flusherStop_char s

/-- only pushMetrics writes records, only the flusher calls Flush() -/
theorem who_writes_and_who_flushes :
    pushMetricsBody.has Stmt.isWriterWrite = true ∧ pushMetricsBody.has Stmt.isFlush = false ∧
    onGrpcAckBody.has Stmt.isWriterWrite = false ∧ onGrpcAckBody.has Stmt.isFlush = false :=
  ⟨push_static.2, push_static.1, ack_static.2, ack_static.1⟩

/-- the facts about the rest of the package the translation depends on (each is `true` or the generator fails) -/
theorem package_facts :
    pushIgnoresContext = true ∧ guardedStateOnlyInTranslatedFunctions = true ∧
    flusherStartedAfterWriterSet = true ∧ onAckCallbackIsOnGrpcAck = true ∧ flushIntervalMs = 100 :=
  ⟨rfl, rfl, rfl, rfl, rfl⟩

end Stef.Props.C19Gen
