/-
  C06 - Flushed records are readable at once; frame-bounded reads never touch the source.
-/
import Stef.Proofs.Reader
import Stef.Proofs.Limiter

namespace Stef.Props.C06
open Stef Stef.Reader

/-- **till_end_of_frame_no_io**: a read restricted to the current frame leaves the source
    exactly as it was - data, schedule and even the access counter - for every reader state. -/
theorem till_end_of_frame_no_io (sites : Sites) (fuel : Nat) (r : Rd) :
    (Reader.read sites true fuel r).1.src = r.src := by
  cases fuel with
  | zero => simp [Reader.read]
  | succ fuel =>
    simp only [Reader.read]
    by_cases h : r.frameRecordCount = 0 <;> simp [h]

/-- ... and it returns a record of the already loaded frame, or the end-of-frame indication
    exactly when no record of the loaded frame is left. -/
theorem till_end_of_frame_outcome (sites : Sites) (fuel : Nat) (r : Rd) :
    (r.frameRecordCount = 0 → (Reader.read sites true (fuel + 1) r).2 = .err .endOfFrame) ∧
    (r.frameRecordCount ≠ 0 → (Reader.read sites true (fuel + 1) r).2 = .record r.framesLoaded r.nextInFrame) := by
  constructor
  · intro h; simp [Reader.read, h]
  · intro h; simp [Reader.read, h]

/-- **flush_visible** (reader half): when the stream holds the complete frames `fs` and nothing
    else, every record of every frame is returned, then `eof`. -/
theorem complete_frames_all_readable (fs : List FrameSpec) (r : Rd) (fuel : Nat)
    (hwf : ∀ f ∈ fs, f.Wf1) (hb : r.AtBoundary) (hd : r.src.data = encFrames fs)
    (hfuel : totalRecs fs < fuel) :
    ∃ r', readAll Sites.current fuel r = (frameRecords fs r.framesLoaded, .eof, r') :=
  readAll_exact Sites.current (by decide) fs r fuel hwf hb hd hfuel

/-- **flush_visible** (writer half): after `Flush` no record is left in the open frame, and
    every emitted frame holds at least one record. -/
theorem flush_leaves_nothing_open (w : Limiter.Writer) : w.flush.frameRecs = [] := by
  unfold Limiter.Writer.flush
  by_cases h : w.frameRecs.isEmpty = true
  · simp only [h, ↓reduceIte]; simpa using h
  · simp [h, Limiter.Writer.restartFrame]

/-- **resume_at_boundary**: a reader that consumed the frames `fs1` and met the end of the
    source exactly at the frame boundary is at a boundary state; when the frames `fs2` are
    appended to the source later, continuing from that state yields exactly the records of
    `fs2` (numbered after those of `fs1`). -/
theorem resume_at_boundary (fs1 fs2 : List FrameSpec) (r : Rd) (fuel fuel2 : Nat)
    (hwf1 : ∀ f ∈ fs1, f.Wf1) (hwf2 : ∀ f ∈ fs2, f.Wf1) (hb : r.AtBoundary)
    (hd : r.src.data = encFrames fs1) (hfuel : totalRecs fs1 ≤ fuel) (hfuel2 : totalRecs fs2 < fuel2) :
    ∃ r1, (readAll Sites.current fuel r).1 = frameRecords fs1 r.framesLoaded ++ (readAll Sites.current (fuel - totalRecs fs1) r1).1 ∧
      r1.AtBoundary ∧ r1.src.data = [] ∧
      ∃ r2, readAll Sites.current fuel2 { r1 with src := { r1.src with data := encFrames fs2 } }
          = (frameRecords fs2 (r.framesLoaded + fs1.length), .eof, r2) := by
  obtain ⟨r1, h1, h1b, h1d, _, h1f⟩ := readAll_frames Sites.current (by decide) fs1 r [] fuel hwf1 hb
    (by simpa using hd) hfuel
  refine ⟨r1, by rw [h1], h1b, h1d, ?_⟩
  have hb' : ({ r1 with src := { r1.src with data := encFrames fs2 } } : Rd).AtBoundary := h1b
  obtain ⟨r2, h2⟩ := readAll_exact Sites.current (by decide) fs2
    { r1 with src := { r1.src with data := encFrames fs2 } } fuel2 hwf2 hb' rfl hfuel2
  exact ⟨r2, by rw [h2]; simp [h1f]⟩

-- non-vacuity
example :
    let f1 : FrameSpec := { flags := 0, nrec := 2, body := [1#8, 2#8] }
    (readAll Sites.current 5 { src := { data := encFrames [f1] } }).1 = [(1, 0), (1, 1)] := by with_unfolding_all decide

end Stef.Props.C06
