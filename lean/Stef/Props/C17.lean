/-
  C17 - OTLP metrics survive conversion to STEF and back.
  Property theorems only (helper lemmas: Stef/Proofs/Otlp*.lean). The model is Stef/Otlp/{Value,Metrics}.lean.
-/
import Stef.Proofs.OtlpTyped

namespace Stef.Props.C17
open Stef.Otlp

/-! ### attribute values -/

/-- What the STEF value holds after the conversion is exactly the OTLP value - for EVERY value
    (nested arrays and maps of any size, every double bit pattern) and whatever the re-used
    destination object held before (any `into`, hidden storage included). Full strength since repo
    commits 571960a (the map case increments its index; before it `{"a":1,"b":2}` was stored as
    `{"b":2,"":<empty>}`) and 59db810 (float setters compare bit patterns). -/
theorem anyvalue_stored (v : AnyValue) (into : SVal) : tefToOtlpRaw (otlpToTef v into) = v :=
  otlpToTef_spec v into

/-- Value conversion there and back (otlpValueToTefAnyValue then tefAnyValueToOtlp) is the identity
    on every value whose maps have distinct keys - which pcommon.Map guarantees (`Map.PutEmpty`, used
    on the way back, replaces an existing key). -/
theorem anyvalue_roundtrip (v : AnyValue) (into : SVal) (hd : v.nodup = true) :
    tefToOtlp (otlpToTef v into) = v := by
  unfold tefToOtlp
  rw [otlpToTef_spec v into, dedupValue_nodup v hd]

/-- the distinct-keys hypothesis is needed: a (non-pdata) value with a repeated key is merged -/
example : tefToOtlp (otlpToTef (.map (.cons [97] (.int 1) (.cons [97] (.int 2) .nil))) SVal.fresh)
    = .map (.cons [97] (.int 2) .nil) := by decide

/-- -0.0 written over +0.0 is stored, in values and in histogram bounds (repo commits 59db810, 7828c58) -/
theorem negzero_kept :
    tefToOtlp (otlpToTef (.dbl negZero) (otlpToTef (.dbl 0) SVal.fresh)) = .dbl negZero ∧
    setFSlice [0] [negZero] = [negZero] := by decide

/-- A top-level attribute map (any number of entries) written by `MapUnsorted` into a re-used
    otelstef.Attributes and read back by `TefToOtlpMap` is unchanged. -/
theorem attributes_roundtrip (m : KVs) (out : SAttrs) (hc : m.clean = true) :
    (SAttrs.mapUnsorted m out).toOtlp = m :=
  attrs_roundtrip m out hc

/-- non-vacuity: a value with a nested array, nested maps of one and three entries and several
    kinds, written over a destination that previously held other content (stale hidden storage). -/
def sampleValue : AnyValue :=
  .slice (.cons (.map (.cons [107] (.dbl 0x7ff8000000000001) .nil))
    (.cons (.slice (.cons (.str [120]) (.cons .empty .nil)))
      (.cons (.map (.cons [97] (.int 1) (.cons [98] (.dbl negZero) (.cons [] (.bytes [0, 255]) .nil))))
        (.cons (.bool true) .nil))))

def staleInto : SVal :=
  otlpToTef (.slice (.cons (.map (.cons [122] (.int 9) (.cons [121] (.int 8) .nil))) (.cons (.int 5) .nil))) SVal.fresh

example : sampleValue.nodup = true ∧ staleInto ≠ SVal.fresh := by decide

example : tefToOtlp (otlpToTef sampleValue staleInto) = sampleValue :=
  anyvalue_roundtrip sampleValue staleInto (by decide)

/-! ### number of records -/

/-- The unsorted converter writes exactly one record per data point - for every batch, no side
    condition: whenever `Convert` returns without error, |records| = |flatten m|. -/
theorem record_count (m : Metrics) (recs : List SRecord) (h : otlpToStefUnsorted m = .ok recs) :
    recs.length = (flatten m).length := by
  simp only [otlpToStefUnsorted] at h
  split at h
  · simp at h
  · rename_i st hst
    simp at h; subst h
    have := writeResources_len m.rms {} st hst
    simp [flatten_length, this]

/-- The sorting converter too writes exactly one record per data point - for every batch, no side
    condition (since repo commit 42fcfbf; before it covertNumberDataPoints skipped number points
    without a value and the statement was false). -/
theorem record_count_sorted (m : Metrics) (recs : List SRecord) (h : otlpToStefSorted m = .ok recs) :
    recs.length = (flatten m).length :=
  otlpToStefSorted_count m recs h

/-- a gauge with one value-less point: one record from either converter -/
def valuelessWitness : Metrics :=
  { rms := [{ scopes := [{ metrics := [{ name := [103], type := .gauge, points := [{ ts := 1 }] }] }] }] }

example : (otlpToStefSorted valuelessWitness).toOption.map List.length = some 1 ∧
    (otlpToStefUnsorted valuelessWitness).toOption.map List.length = some 1 := by decide

/-! ### round trip, unsorted converters -/

/-- what both directions give for a batch, as data points (`none` when a conversion fails) -/
def roundTripUnsorted (m : Metrics) : Option (List DataPoint) :=
  match otlpToStefUnsorted m with
  | .error _ => none
  | .ok recs =>
    match stefToOtlpUnsorted recs with
    | .error _ => none
    | .ok m' => some (flatten m')

/-- Round trip, full statement: converting to STEF and back yields the same data points. Still FALSE
    on HEAD; the recorded witness (the others are in known_findings.txt): a number point without a
    value and without the NoRecordedValue flag comes back flagged (STEF has one encoding,
    PointValueTypeNone, for both). -/
theorem roundtrip_unsorted_false : ¬ ∀ m : Metrics, roundTripUnsorted m = some (flatten m) := by
  intro h
  have := h valuelessWitness
  revert this
  decide

/-- Round trip through the unsorted converters for every clean batch (`Metrics.clean`: distinct
    attribute keys, number points with a value or flagged NoRecordedValue, histogram buckets =
    bounds + 1 or neither buckets nor bounds (accepted since repo commit 9c5d1f7) unless flagged, valid temporality, 32-bit scale/offsets, 16/8-byte exemplar ids;
    flagged summaries and exemplars on flagged points are covered since repo commit ede8608): both
    conversions succeed and the data points come back in
    the same order with the same resource, scope, metric identity and metadata, attributes,
    timestamps, flags, value or no-recorded-value marker, buckets and bounds, optional sum/min/max,
    quantiles and exemplars - the only difference being that exemplar filtered attributes come back
    in key order (`DataPoint.sortExAttrs`; ConvertExemplars goes through MapSorted). -/
theorem roundtrip_unsorted_partial (m : Metrics) (hc : m.clean = true) :
    ∃ recs m', otlpToStefUnsorted m = .ok recs ∧ stefToOtlpUnsorted recs = .ok m' ∧
      flatten m' = (flatten m).map DataPoint.sortExAttrs := by
  obtain ⟨recs, h1, h2⟩ := otlpToStefUnsorted_spec m hc
  obtain ⟨m', h3, h4⟩ := stefToOtlpUnsorted_flatten recs ((flatten m).map DataPoint.sortExAttrs)
    (by rw [h2]; simp [okBack])
  exact ⟨recs, m', h1, h3, h4⟩

/-- the grouping the unsorted reader chooses never matters: whatever a stream of records is, if each
    record reads as a data point then the reader returns exactly those points, in order. -/
theorem reader_returns_record_points (recs : List SRecord) (ds : List DataPoint)
    (h : recs.map pointOfRecord = ds.map Except.ok) : ∃ m, stefToOtlpUnsorted recs = .ok m ∧ flatten m = ds :=
  stefToOtlpUnsorted_flatten recs ds h

/-! ### round trip, sorting writer -/

/-- Sorting writer, every clean batch whose attribute values and histogram bounds are 64-bit
    patterns (`Metrics.b64`: what pdata can hold; on such keys the generated Cmp functions of the
    sorted trees decide equality): `OtlpToStefSorted.Convert` succeeds and reading its records one
    by one gives a PERMUTATION of the batch's data points - same resource, scope, metric identity
    and metadata, attributes, timestamps, flags, value or no-recorded-value marker, buckets, bounds,
    optional fields, quantiles and exemplars - with every attribute list in key order
    (`DataPoint.sortAttrs`; the sorting converter goes through MapSorted everywhere). -/
theorem roundtrip_sorted_records (m : Metrics) (hc : m.clean = true) (hb : m.b64 = true) :
    ∃ recs, otlpToStefSorted m = .ok recs ∧
      (recs.map pointOfRecord).Perm ((flatten m).map fun d => .ok d.sortAttrs) :=
  otlpToStefSorted_spec m hc hb

/-- Round trip sorting writer -> order-preserving reader: both conversions succeed and the batch
    that comes back has the same multiset of data points, attribute lists in key order. -/
theorem roundtrip_sorted (m : Metrics) (hc : m.clean = true) (hb : m.b64 = true) :
    ∃ recs m', otlpToStefSorted m = .ok recs ∧ stefToOtlpUnsorted recs = .ok m' ∧
      (flatten m').Perm ((flatten m).map DataPoint.sortAttrs) := by
  obtain ⟨recs, h1, h2⟩ := otlpToStefSorted_spec m hc hb
  have h2' : (recs.map pointOfRecord).Perm (((flatten m).map DataPoint.sortAttrs).map Except.ok) := by
    simpa [okSorted, List.map_map, Function.comp_def] using h2
  obtain ⟨ds, e, hp⟩ := perm_map_inv Except.ok _ _ h2'
  obtain ⟨m', h3, h4⟩ := stefToOtlpUnsorted_flatten recs ds e
  exact ⟨recs, m', h1, h3, by rw [h4]; exact hp⟩

/-- The sorting READER (sortedbyresource) returns the records' points: whatever a stream of records
    is, if each record reads as a data point and is typed (`RecTyped`: resource, scope, metric and
    attribute keys are 64-bit patterns, the exemplar array is backed), `Convert` succeeds and returns
    a batch with exactly those points, as a multiset. -/
theorem sorted_reader_returns_record_points (recs : List SRecord) (ds : List DataPoint)
    (h : recs.map pointOfRecord = ds.map Except.ok) (hty : ∀ r ∈ recs, RecTyped r) :
    ∃ m, stefToOtlpSorted recs = .ok m ∧ (flatten m).Perm ds :=
  stefToOtlpSorted_flatten recs ds h hty

/-- Round trip order-preserving writer -> sorting reader, every clean 64-bit typed batch: the same
    multiset of data points comes back (exemplar filtered attributes in key order). -/
theorem roundtrip_sorted_reader (m : Metrics) (hc : m.clean = true) (hb : m.b64 = true) :
    ∃ recs m', otlpToStefUnsorted m = .ok recs ∧ stefToOtlpSorted recs = .ok m' ∧
      (flatten m').Perm ((flatten m).map DataPoint.sortExAttrs) := by
  obtain ⟨recs, h1, h2⟩ := otlpToStefUnsorted_spec m hc
  obtain ⟨m', h3, h4⟩ := stefToOtlpSorted_flatten recs ((flatten m).map DataPoint.sortExAttrs)
    (by rw [h2]; simp [okBack]) (otlpToStefUnsorted_typed m recs hc hb h1)
  exact ⟨recs, m', h1, h3, h4⟩

/-- Round trip sorting writer -> sorting reader, every clean 64-bit typed batch: the same multiset
    of data points comes back (attribute lists in key order). -/
theorem roundtrip_sorted_both (m : Metrics) (hc : m.clean = true) (hb : m.b64 = true) :
    ∃ recs m', otlpToStefSorted m = .ok recs ∧ stefToOtlpSorted recs = .ok m' ∧
      (flatten m').Perm ((flatten m).map DataPoint.sortAttrs) := by
  obtain ⟨recs, h1, h2, hty⟩ := otlpToStefSorted_full m hc hb
  have h2' : (recs.map pointOfRecord).Perm (((flatten m).map DataPoint.sortAttrs).map Except.ok) := by
    simpa [okSorted, List.map_map, Function.comp_def] using h2
  obtain ⟨ds, e, hp⟩ := perm_map_inv Except.ok _ _ h2'
  obtain ⟨m', h3, h4⟩ := stefToOtlpSorted_flatten recs ds e hty
  exact ⟨recs, m', h1, h3, h4.trans hp⟩

/-! ### non-vacuity of the round trip -/

/-- two resources (the first repeated), two scopes, all five metric types, an interleaved metric
    identity, a flagged point, per-point bounds (one differing from the previous point's only in the
    sign of a zero), exemplars with unsorted filtered attributes, nested array and a nested map of three
    entries, NaN, infinity and -0.0 values (the latter written over +0.0), a flagged summary point,
    a flagged point with an exemplar, a flagged number point without a value and a histogram point
    without buckets. -/
def sample : Metrics :=
  let id16 := List.replicate 16 3
  let id8 := List.replicate 8 4
  let a1 : KVs := .cons [98] (.slice (.cons (.int 1) (.cons (.map (.cons [120] (.dbl 0x7ff8000000000000) (.cons [121] (.int 2) (.cons [119] .empty .nil)))) .nil)))
                    (.cons [97] (.str [118]) .nil)
  let ex1 : Exemplar := { ts := 5, vt := 2, v := 0x7ff0000000000000, traceID := id16, spanID := id8,
                          attrs := .cons [122] (.int 1) (.cons [97] (.bool true) .nil) }
  let g : Metric := { name := [103], type := .gauge, points := [
      { ts := 1, vt := 1, v := 7, attrs := a1, exemplars := [ex1] },
      { ts := 2, vt := 2, v := 0x7ff8000000000001 },
      { ts := 3, vt := 1, v := 9, flags := 1, exemplars := [ex1] },
      { ts := 4, flags := 1 }] }
  let su : Metric := { name := [115], type := .sum, temp := 2, mono := true, points := [{ ts := 4, vt := 2, v := 0 }, { ts := 5, vt := 2, v := negZero }] }
  let h : Metric := { name := [104], type := .hist, temp := 1, points := [
      { ts := 5, count := 3, hasSum := true, sum := 0x3ff0000000000000, buckets := [1, 2], bounds := [0x4000000000000000] },
      { ts := 6, count := 1, buckets := [1], bounds := [], exemplars := [ex1] },
      { ts := 7, count := 1, buckets := [1, 0], bounds := [0] },
      { ts := 8, count := 1, buckets := [1, 0], bounds := [negZero] },
      { ts := 9, count := 4, buckets := [], bounds := [] }] }
  let e : Metric := { name := [101], type := .exp, temp := 2, points := [
      { ts := 7, count := 2, scale := 0xffffffff, posOff := 1, pos := [1, 1], negOff := 0xfffffffe, neg := [2],
        hasMin := true, min := 0xfff0000000000000 }] }
  let q : Metric := { name := [113], type := .summary, points := [
      { ts := 8, count := 2, sum := 0x4008000000000000, quantiles := [(0, 1), (0x3ff0000000000000, 2)] },
      { ts := 9, flags := 1 }] }
  let res : ResourceMetrics := { url := [117], dropped := 1, attrs := .cons [107] (.str [118]) .nil }
  { rms := [{ res with scopes := [{ name := [115], metrics := [g, su, g] }, { name := [116], metrics := [h, q] }] },
            { url := [119], scopes := [{ metrics := [e] }] },
            { res with scopes := [{ name := [115], metrics := [su] }] }] }

example : sample.clean = true ∧ sample.b64 = true ∧ (flatten sample).length = 20 := by decide

example : ∃ recs m', otlpToStefUnsorted sample = .ok recs ∧ stefToOtlpUnsorted recs = .ok m' ∧
    flatten m' = (flatten sample).map DataPoint.sortExAttrs ∧ recs.length = 20 := by
  obtain ⟨recs, m', h1, h2, h3⟩ := roundtrip_unsorted_partial sample (by decide)
  exact ⟨recs, m', h1, h2, h3, by rw [record_count sample recs h1]; decide⟩

/-- the exemplar attribute order really changes on `sample` (the partial theorem is not an identity) -/
example : (flatten sample).map DataPoint.sortExAttrs ≠ flatten sample := by decide

/-- the sorting converter on `sample`: it returns, reorders, and writes one record per point; the
    hypotheses of `roundtrip_sorted` hold for it and its conclusion is not an identity either -/
example : (otlpToStefSorted sample).toOption.map List.length = some (flatten sample).length ∧
    (otlpToStefSorted sample).toOption ≠ (otlpToStefUnsorted sample).toOption ∧
    (flatten sample).map DataPoint.sortAttrs ≠ (flatten sample).map DataPoint.sortExAttrs := by decide

example : ∃ recs m', otlpToStefSorted sample = .ok recs ∧ stefToOtlpUnsorted recs = .ok m' ∧
    (flatten m').Perm ((flatten sample).map DataPoint.sortAttrs) :=
  roundtrip_sorted sample (by decide) (by decide)

example : ∃ recs m', otlpToStefSorted sample = .ok recs ∧ stefToOtlpSorted recs = .ok m' ∧
    (flatten m').Perm ((flatten sample).map DataPoint.sortAttrs) :=
  roundtrip_sorted_both sample (by decide) (by decide)

/-- the sorting reader really regroups `sample`: what it returns is not in document order -/
example : ((otlpToStefUnsorted sample).toOption.bind fun recs => (stefToOtlpSorted recs).toOption.map flatten)
    ≠ some ((flatten sample).map DataPoint.sortExAttrs) := by decide

end Stef.Props.C17
