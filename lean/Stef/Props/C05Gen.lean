/-
  C05 / C07 / C03 (regenerated) - theorems about the frame decoder restated for the functions that
  /verif/extract translates from the CURRENT go/pkg/frame.go (Stef/Gen/FrameFlow.lean):
  `lrReadByte`, `lrRead` (limitedReader), `read`, `readByte`, `nextFrame`, `nextLoop1` (the skip
  loop) and `next` (FrameDecoder). They are corollaries of Proofs/FrameFlowGen (regenerated = hand
  model `Stef.ReaderIO.Fd` on every state of an uncompressed stream) and of the theorems about the
  hand model (Proofs/ReaderIOFd, Proofs/ReaderIOProgress, Props/C07IO). The compressed branch of
  `nextFrame`, which the hand model does not have, gets a statement of its own.
-/
import Stef.Proofs.FrameFlowGen
import Stef.Props.C07IO

namespace Stef.Props.C05Gen
open Stef Stef.ReaderIO Stef.FrameFlowSem Stef.Proofs.FrameFlowGen

local notation "G.read" => Stef.Gen.FrameFlow.read
local notation "G.readByte" => Stef.Gen.FrameFlow.readByte
local notation "G.nextFrame" => Stef.Gen.FrameFlow.nextFrame
local notation "G.next" => Stef.Gen.FrameFlow.next
local notation "G.nextLoop1" => Stef.Gen.FrameFlow.nextLoop1
local notation "G.lrRead" => Stef.Gen.FrameFlow.lrRead
local notation "G.lrReadByte" => Stef.Gen.FrameFlow.lrReadByte

/-- an uncompressed stream whose decoder state is well formed (`Fd.WF`: bufio layer well formed,
    buffer larger than the 4 KiB skip chunk, `limitedReader.limit = uncompressedSize`) -/
structure Ok (d : St) : Prop where
  none : d.compression = Stef.Gen.compressionNone
  wf : d.fd.WF

/-- the state a reader starts its first `Next` in -/
def start (b : Bufio) : St := { fd := { b := b } }

theorem start_ok (s : Src) (B : Nat) (hB : Fd.skipChunk < B) (hc : Contract s.sched) :
    Ok (start { src := s, size := B }) :=
  ⟨rfl, ⟨C07IO.bufio_init_wf s B (Nat.lt_trans (by decide) hB) hc, hB, rfl⟩⟩

/-! ### the regenerated functions ARE the hand model (restated from Proofs/FrameFlowGen) -/

/-- all six translated functions, on every state of an uncompressed stream, and the wiring of
    `Init` the vocabulary relies on. -/
theorem gen_is_hand_model (d : St) (n fuel : Nat) (hc : d.compression = Stef.Gen.compressionNone) :
    G.lrReadByte d = (d.withFd d.fd.lrReadByte.1, unpackByte d.fd.lrReadByte.2) ∧
    G.lrRead d n = (d.withFd (d.fd.lrRead n).1, (d.fd.lrRead n).2) ∧
    G.read d n = (d.withFd (d.fd.read n).1, (d.fd.read n).2) ∧
    G.readByte d = (d.withFd d.fd.readByte.1, unpackByte d.fd.readByte.2) ∧
    G.nextFrame d = (d.withFd d.fd.nextFrameHdr.1, d.fd.nextFrameHdr.2) ∧
    G.nextLoop1 fuel d =
      (d.withFd (Fd.skipLoop fuel d.fd).1, (Fd.skipLoop fuel d.fd).2.map (fun e => (0, some e))) ∧
    G.next d = (d.withFd d.fd.next.1, (if d.fd.next.2 = none then d.fd.next.1.flags else 0), d.fd.next.2) ∧
    Stef.Gen.FrameFlow.initWiring = true :=
  ⟨lrReadByte_eq d, lrRead_eq d n, read_eq d n hc, readByte_eq d hc, nextFrame_eq d hc,
   nextLoop1_eq fuel d hc, next_eq d hc, init_wiring⟩

/-! ### C07: FrameDecoder.Read passes its source through -/

/-- **gen_read_passthrough** (C07IO.frameDecoder_read_passthrough for the regenerated `Read`): in
    every state and for every `len(p)` the bytes returned are exactly those of the underlying read,
    nothing of the source is lost, and `uncompressedSize`, `limit`, `ofs` account for exactly the
    returned bytes - also when bytes and an error come together. -/
theorem gen_read_passthrough (d : St) (hc : d.compression = Stef.Gen.compressionNone) (hb : d.fd.b.WF)
    (n : Nat) :
    (G.read d n).2.1 ++ (G.read d n).1.fd.b.rest = d.fd.b.rest ∧ (G.read d n).2.1.length ≤ n ∧
    (G.read d n).1.fd.remaining + (G.read d n).2.1.length = d.fd.remaining ∧
    (G.read d n).1.fd.limit + (G.read d n).2.1.length = d.fd.limit ∧
    (G.read d n).1.fd.ofs = d.fd.ofs + (G.read d n).2.1.length ∧
    (G.read d n).1.fd.b.WF := by
  obtain ⟨a1, a2, a3, a4, a5, a6, _⟩ := C07IO.frameDecoder_read_passthrough d.fd hb n
  rw [read_eq d n hc]
  exact ⟨a1, a2, a3, a4, a5, a6⟩

/-- **gen_read_end_of_frame**: at the end of the frame the regenerated `Read` and `ReadByte` touch
    nothing of the source and report `EndOfFrame` (how the end of a frame is reported). -/
theorem gen_read_end_of_frame (d : St) (n : Nat) (h : d.fd.remaining = 0) :
    G.read d n = ({ d with fd := { d.fd with frameLoaded := false } }, [], some .endOfFrame) ∧
    G.readByte d = ({ d with fd := { d.fd with frameLoaded := false } }, 0#8, some .endOfFrame) := by
  simp [Stef.Gen.FrameFlow.read, Stef.Gen.FrameFlow.readByte, h]

example : (G.read (start { src := { data := [1#8] }, size := 8 }) 3).2 = ([], some .endOfFrame) := by decide

/-! ### C07 / C05: the skip loop and Next -/

/-- **gen_skip_tail** (Fd.skipLoop_spec for the regenerated loop of `Next`): whatever the schedule
    of the source, the loop skips exactly what is left of the current frame (`drop`); it ends
    normally iff the source holds that many bytes, otherwise `Next` returns `0` and the source's
    terminal error; the invariant is kept. -/
theorem gen_skip_tail (d : St) (h : Ok d) :
    (G.nextLoop1 (loopFuel d) d).1.fd.b.rest = d.fd.b.rest.drop d.fd.remaining ∧
    (G.nextLoop1 (loopFuel d) d).1.fd.remaining = d.fd.remaining - d.fd.b.rest.length ∧
    (G.nextLoop1 (loopFuel d) d).1.fd.ofs = d.fd.ofs + min d.fd.remaining d.fd.b.rest.length ∧
    (G.nextLoop1 (loopFuel d) d).2 =
      (if d.fd.remaining ≤ d.fd.b.rest.length then none else some (0, some d.fd.b.term)) ∧
    Ok (G.nextLoop1 (loopFuel d) d).1 := by
  obtain ⟨a1, _, _, _, _, _, _, a8, a9, a10, a11⟩ :=
    Fd.skipLoop_spec (loopFuel d) d.fd h.wf (by unfold loopFuel; omega)
  rw [nextLoop1_eq _ d h.none]
  refine ⟨a8, a9, a10, ?_, ⟨h.none, a1⟩⟩
  simp only [a11]
  split <;> rfl

/-- what a successful `nextFrameHdr` of the hand model leaves -/
theorem Fd.nextFrameHdr_ok (d : Fd) (h : d.nextFrameHdr.2 = none) :
    d.nextFrameHdr.1.remaining ≤ Stef.Gen.frameSizeLimit ∧
    d.nextFrameHdr.1.limit = d.nextFrameHdr.1.remaining ∧
    d.nextFrameHdr.1.flags ||| Stef.Gen.frameFlagsMask = Stef.Gen.frameFlagsMask ∧
    d.nextFrameHdr.1.frameLoaded = true ∧ d.nextFrameHdr.1.ofs = 0 := by
  revert h
  rcases hrb : d.b.readByte with ⟨b, r⟩
  rcases hu : b.readUvarint with ⟨b2, sz, e⟩
  simp only [ReaderIO.Fd.nextFrameHdr, hrb]
  cases r with
  | error e => simp
  | ok hb =>
    simp only
    split
    · simp
    · rename_i hfl
      simp only [hu]
      cases e with
      | some e => simp
      | none =>
        simp only
        split
        · simp
        · rename_i h3
          intro _
          simp only [Decidable.not_not] at hfl
          exact ⟨Nat.le_of_not_gt h3, rfl, hfl, rfl, rfl⟩

/-- **gen_next_loads_bounded_frame** (C03 frame bound, C05/C07 progress, for the regenerated `Next`):
    when `Next` succeeds on an uncompressed stream, the new frame's announced size is at most
    `FrameSizeLimit`, the limited reader is limited to exactly that size, the flags are within
    `FrameFlagsMask` and are the value returned, the frame is marked loaded at offset 0, at least
    one byte of the source was consumed, and the state is well formed again. -/
theorem gen_next_loads_bounded_frame (d : St) (h : Ok d) (hok : (G.next d).2.2 = none) :
    (G.next d).1.fd.remaining ≤ Stef.Gen.frameSizeLimit ∧
    (G.next d).1.fd.limit = (G.next d).1.fd.remaining ∧
    (G.next d).2.1 = (G.next d).1.fd.flags ∧
    (G.next d).2.1 ||| Stef.Gen.frameFlagsMask = Stef.Gen.frameFlagsMask ∧
    (G.next d).1.fd.frameLoaded = true ∧ (G.next d).1.fd.ofs = 0 ∧
    (G.next d).1.fd.b.rest.length < d.fd.b.rest.length ∧
    Ok (G.next d).1 := by
  rw [next_eq d h.none] at hok ⊢
  simp only at hok
  obtain ⟨w, l⟩ := Fd.next_len d.fd h.wf hok
  have hsk := Fd.skipLoop_spec (d.fd.remaining + d.fd.b.src.sched.length + 1) d.fd h.wf (by omega)
  have hdef : d.fd.next = (match Fd.skipLoop (d.fd.remaining + d.fd.b.src.sched.length + 1) d.fd with
      | (d, some e) => (d, some e) | (d, none) => d.nextFrameHdr) := rfl
  rcases hs : Fd.skipLoop (d.fd.remaining + d.fd.b.src.sched.length + 1) d.fd with ⟨f, e⟩
  rw [hs] at hdef
  cases e with
  | some e => rw [hdef] at hok; cases hok
  | none =>
    simp only at hdef
    rw [hdef] at hok w l ⊢
    obtain ⟨b1, b2, b3, b4, b5⟩ := Fd.nextFrameHdr_ok f hok
    simp only [hok, ↓reduceIte, withFd_fd]
    exact ⟨b1, b2, trivial, b3, b4, b5, l, ⟨h.none, w⟩⟩

/-- **gen_next_cut_is_error** (C05: a stream cut inside - or exactly at the end of - the current
    frame never yields another frame): if the source holds no more than what is left of the current
    frame, the regenerated `Next` returns flags 0 and the source's terminal error (io.EOF for a
    source that ends with io.EOF), whatever the schedule. -/
theorem gen_next_cut_is_error (d : St) (h : Ok d) (hcut : d.fd.b.rest.length ≤ d.fd.remaining) :
    (G.next d).2 = (0, some d.fd.b.term) := by
  rw [next_eq d h.none]
  obtain ⟨a1, _, a3, _, _, _, _, a8, _, _, a11⟩ :=
    Fd.skipLoop_spec (d.fd.remaining + d.fd.b.src.sched.length + 1) d.fd h.wf (by omega)
  have hdef : d.fd.next = (match Fd.skipLoop (d.fd.remaining + d.fd.b.src.sched.length + 1) d.fd with
      | (d, some e) => (d, some e) | (d, none) => d.nextFrameHdr) := rfl
  rcases hs : Fd.skipLoop (d.fd.remaining + d.fd.b.src.sched.length + 1) d.fd with ⟨f, e⟩
  rw [hs] at hdef a1 a3 a8 a11
  simp only at a1 a3 a8 a11
  by_cases hlt : d.fd.remaining ≤ d.fd.b.rest.length
  · -- the tail is exactly what is left: skipped, then the frame header read hits the end
    simp only [hlt, ↓reduceIte] at a11
    subst a11
    simp only at hdef
    have hrest : f.b.rest = [] := by rw [a8]; simp; omega
    obtain ⟨_, _, _, _, _, c6⟩ := Bufio.readByte_spec f.b a1.b
    rw [hrest] at c6
    have hterm : f.b.term = d.fd.b.term := by simp [Bufio.term, Src.term, a3]
    have hn : f.nextFrameHdr = ({ f with b := f.b.readByte.1 }, some d.fd.b.term) := by
      rcases hrb : f.b.readByte with ⟨b', r⟩
      rw [hrb] at c6
      simp only at c6
      subst c6
      simp only [ReaderIO.Fd.nextFrameHdr, hrb, hterm]
    rw [hdef, hn]
    simp
  · simp only [hlt, ↓reduceIte] at a11
    subst a11
    simp only at hdef
    rw [hdef]
    simp

-- non-vacuity: a started reader over a source that delivers one byte per call; first frame of 3
-- bytes (flags 1), then a frame header cut after the flags byte.
example : Ok (start { src := { data := [1#8, 3#8, 7#8, 8#8, 9#8, 0#8], sched := List.replicate 9 { want := 1 } }, size := 5000 }) :=
  start_ok _ _ (by decide) (by decide)

example :
    let d := start { src := { data := [1#8, 3#8, 7#8, 8#8, 9#8, 0#8], sched := List.replicate 9 { want := 1 } }, size := 5000 }
    (G.next d).2 = (1, none) ∧ (G.next d).1.fd.remaining = 3 ∧
    (G.next (G.next d).1).2 = (0, some .eof) ∧
    (G.next { (G.next d).1 with fd := { (G.next d).1.fd with b := { (G.next d).1.fd.b with src := { data := [7#8, 8#8] } } } }).2
      = (0, some .eof) := by
  decide +kernel

/-! ### the compressed branch of nextFrame (beyond the hand model) -/

/-- **gen_nextFrame_zstd**: on a compressed stream a successful `nextFrame` has checked BOTH
    announced sizes against `FrameSizeLimit`, limits the limited reader to the compressed size, and
    has reset the zstd decoder - onto the limited reader with the new limit - exactly when this is
    the first frame or the frame carries `RestartCompression`. -/
theorem gen_nextFrame_zstd (d : St) (hc : d.compression ≠ Stef.Gen.compressionNone)
    (hok : (G.nextFrame d).2 = none) :
    (G.nextFrame d).1.fd.remaining ≤ Stef.Gen.frameSizeLimit ∧
    (G.nextFrame d).1.fd.limit ≤ Stef.Gen.frameSizeLimit ∧
    (G.nextFrame d).1.fd.flags ||| Stef.Gen.frameFlagsMask = Stef.Gen.frameFlagsMask ∧
    (G.nextFrame d).1.notFirstFrame = true ∧
    (G.nextFrame d).1.zAttached = d.zAttached + 1 ∧
    (G.nextFrame d).1.zResets =
      (if d.notFirstFrame = false ∨ (G.nextFrame d).1.fd.flags &&& Stef.Gen.restartCompression ≠ 0
       then (G.nextFrame d).1.fd.limit :: d.zResets else d.zResets) :=
  nextFrame_zstd d hc hok

-- non-vacuity: zstd stream, second frame (notFirstFrame), flags = RestartCompression, sizes 5 / 4.
example :
    let d : St := { fd := { b := { src := { data := [2#8, 5#8, 4#8, 0#8] }, size := 5000 } }, compression := 1,
                    notFirstFrame := true, zResets := [9] }
    (G.nextFrame d).2 = none ∧ (G.nextFrame d).1.zResets = [4, 9] ∧ (G.nextFrame d).1.fd.remaining = 5 := by
  decide +kernel

example :
    let d : St := { fd := { b := { src := { data := [1#8, 5#8, 4#8, 0#8] }, size := 5000 } }, compression := 1,
                    notFirstFrame := true, zResets := [9] }
    (G.nextFrame d).2 = none ∧ (G.nextFrame d).1.zResets = [9] := by
  decide +kernel

/-- an uncompressed stream never touches the decompressor, whatever the flags say (the
    `RestartCompression` bit of an uncompressed frame is accepted and ignored). -/
theorem gen_next_no_zstd_uncompressed (d : St) (hc : d.compression = Stef.Gen.compressionNone) :
    (G.next d).1.zResets = d.zResets ∧ (G.next d).1.zAttached = d.zAttached ∧
    (G.next d).1.compression = d.compression ∧ (G.next d).1.notFirstFrame = d.notFirstFrame := by
  rw [next_eq d hc]
  exact ⟨rfl, rfl, rfl, rfl⟩

end Stef.Props.C05Gen
