/-
  C04 - append-only schema evolution interoperates in both directions.    PARTIAL.

  The Lean specification decoder (`Stef.Spec`) honours the wire-schema descriptor of a stream:
  while it builds the column tree (`mkNode`) it fetches, for every struct / oneof on FIRST
  encounter in depth-first order, the next field count of the descriptor (`fetchCount`), keeps
  only that many fields, remembers the count for later encounters of the same name, and refuses
  a count larger than its own.  The theorems below are about `fetchCount`, i.e. about one step
  of that traversal.

  NOT proved: the generic theorem `init_with_override` of DESIGN.md (for schemas A ≼ B, B's
  traversal under A's count list consumes the list exactly, gives every struct reachable in A
  its A count and never visits a field beyond it - hence B's column tree under A's descriptor
  EQUALS A's column tree), and therefore none of `forward`, `downgrade` as statements about all
  schema pairs.  The interoperability statement of C04 is DECIDED, pair by pair, by the
  cross-package runs of h_gen: code generated for A and for B by stefc, data written by one and
  read by the other in both directions, with the Lean decoder (given schema B and A's descriptor
  in the stream, resp. schema A) as an independent oracle for every stream; `refuse` is run
  against the real reader with genuine and crafted descriptors.
-/
import Stef.Spec

namespace Stef.Props.C04
open Stef Stef.Spec

/-- (a) first encounter, descriptor present, next count `c ≤ own`: the count is `c`, it is
    consumed from the descriptor and remembered under the struct's name. -/
theorem fetch_consumes (b : Build) (name : String) (own c : Nat) (rest : List Nat)
    (hnew : b.known.find? (·.1 = name) = none) (hov : b.override = some (c :: rest)) (hc : c ≤ own) :
    fetchCount b name own =
      .ok (c, { b with override := some rest, known := (name, c) :: b.known }) := by
  unfold fetchCount
  simp [hnew, hov, Nat.not_lt.mpr hc]

example : fetchCount { override := some [2, 5] } "Point" 3 =
    .ok (2, { override := some [5], known := [("Point", 2)] }) :=
  fetch_consumes { override := some [2, 5] } "Point" 3 2 [5] rfl rfl (by decide)

/-- (b) **refuse**: a descriptor count larger than the reader's own field count is an error,
    whatever else the descriptor says - never a decode. -/
theorem refuse (b : Build) (name : String) (own c : Nat) (rest : List Nat)
    (hnew : b.known.find? (·.1 = name) = none) (hov : b.override = some (c :: rest)) (hc : own < c) :
    fetchCount b name own = .error "too-many-fields" := by
  unfold fetchCount
  simp [hnew, hov, hc]

example : fetchCount { override := some [4, 1] } "Point" 3 = .error "too-many-fields" :=
  refuse { override := some [4, 1] } "Point" 3 4 [1] rfl rfl (by decide)

/-- (c) later encounters of a name (recursion, reuse of a struct in several places) return the
    count fetched the first time and leave the descriptor untouched. -/
theorem fetch_again (b : Build) (name : String) (own c : Nat) (p : String × Nat)
    (hk : b.known.find? (·.1 = name) = some p) (hp : p.2 = c) :
    fetchCount b name own = .ok (c, b) := by
  unfold fetchCount
  cases p with
  | mk n k => simp at hp; simp [hk, hp]

/-- (a) then (c): after the first fetch the same name yields the same count and the build state
    (descriptor included) no longer changes. -/
theorem fetch_twice (b : Build) (name : String) (own c : Nat) (rest : List Nat)
    (hnew : b.known.find? (·.1 = name) = none) (hov : b.override = some (c :: rest)) (hc : c ≤ own) :
    ∃ b', fetchCount b name own = .ok (c, b') ∧ b'.override = some rest ∧
      ∀ own', fetchCount b' name own' = .ok (c, b') := by
  refine ⟨{ b with override := some rest, known := (name, c) :: b.known },
    fetch_consumes b name own c rest hnew hov hc, rfl, ?_⟩
  intro own'
  exact fetch_again _ name own' c (name, c) (by simp [List.find?]) rfl

example : ∃ b', fetchCount { override := some [2, 5] } "Point" 3 = .ok (2, b') ∧ b'.override = some [5] ∧
    ∀ own', fetchCount b' "Point" own' = .ok (2, b') :=
  fetch_twice { override := some [2, 5] } "Point" 3 2 [5] rfl rfl (by decide)

/-- without a descriptor the reader's own count is used (streams written without descriptor). -/
theorem fetch_own (b : Build) (name : String) (own : Nat)
    (hnew : b.known.find? (·.1 = name) = none) (hov : b.override = none) :
    fetchCount b name own = .ok (own, { b with known := (name, own) :: b.known }) := by
  unfold fetchCount
  simp [hnew, hov]

example : fetchCount {} "Point" 3 = .ok (3, { known := [("Point", 3)] }) := fetch_own {} "Point" 3 rfl rfl

end Stef.Props.C04
