/-
  C04 - append-only schema evolution interoperates in both directions.

  The Lean specification decoder (`Stef.Spec`) honours the wire-schema descriptor of a stream:
  while it builds the column tree (`mkNode`) it fetches, for every struct / oneof on FIRST
  encounter in depth-first order, the next field count of the descriptor (`fetchCount`), keeps
  only that many fields, remembers the count for later encounters of the same name, and refuses
  a count larger than its own.  The theorems below are about `fetchCount`, i.e. about one step
  of that traversal.

  PROVED for all schema pairs A ≼ B (B = A plus fields appended to structs / oneofs, new
  definitions only below appended fields), all fuels, all traversal positions (induction over the
  mutual recursion `mkNode` / `mkFields`, Proofs/Override.lean):

  * `init_with_override`: the column tree a B reader builds when it is initialised with A's own
    descriptor (the list of counts A's traversal fetches) IS A's column tree - same columns, same
    kept field counts, same optional counts, same recursion cuts, same number of columns - and
    the descriptor is consumed exactly (`override = some []`, which is what `decodeStream`
    demands).  `reader_init_forward` is the same at the fuel and stack `decodeStream` uses.
  * `init_mono`: more generally, under ANY descriptor that a reader for A accepts, a reader for
    B builds the same tree and leaves the same rest of the descriptor.
  * `own_descriptor_exact`: a reader accepts its own descriptor, consumes it exactly and builds
    the tree it builds without descriptor.
  * `accepted_counts_within_own`: a descriptor is accepted only if every count it supplies is
    within the reader's own count of that struct (so a descriptor with more fields for ANY
    visited struct is refused - `refuse` at every position, not only for one step);
    `refuse_root_partial` spells the error out for the root.

  The RECORD level (`forward_records`, Proofs/Forward*.lean) - PROVED for all schema pairs A ≼ B
  with A well formed (`Closed A`: no dangling type names; `DictInj A`: no two structs share a
  struct dictionary), all roots, all byte streams, ANY descriptor: if `decodeStream A` decodes a
  stream that carries a descriptor without error, then `decodeStream B` decodes it without error
  to the same number of records with the same root masks, each B record being A's record with
  B-only trailing struct fields (`Ext`).  The proof is a simulation of `decodeNode` (and of the
  four list decoders, `decodeRecords`, the frame loop and `decodeStream`) for the two schemas over
  the SAME column tree (`init_mono`): column data, codec states, string dictionaries and counters
  are equal, previous values and struct-dictionary entries are related by `Forward.KRel`, a
  relation indexed by the type key that implies `Ext` and records how far a struct value follows
  A's definition (so that B-only fields can only sit behind ALL of A's fields).
  `forward_records_partial` is the statement in the shape of `ForwardStatement` (A's own
  descriptor) with the two well-formedness hypotheses.

  FINDING (about the statement / the specification decoder, not about the Go code): the
  unrestricted `ForwardStatement` is FALSE (`forwardStatement_false`).  Two independent corners,
  both with concrete schemas and streams evaluated by the kernel (Proofs/ForwardCex.lean):
  * `forward_needs_dictInj`: two structs S1 {p, q}, S2 {p} of A share the struct dictionary "d";
    B appends `z : int64` to S2.  A stream stores an S2 value in "d", a later S1 field refers to
    it and is then sent with full encoding and an empty modified mask.  The A reader pads the
    short S2 value with the placeholder `.oneof 0 none` where the B reader finds S2's default
    `z = 0`: the records differ in a field A HAS, which is not an extension.
  * `forward_needs_closed`: A's struct S has a field of the undefined type "[]S", which `mkNode`
    accepts because the name coincides with the key of the enclosing array `[]S` (recursion cut);
    B defines a struct "[]S".  `initSt A` gives the placeholder, `initSt B` a struct.
  Neither corner is reachable from IDL-generated schemas (the IDL resolves every type name, array
  keys are not identifiers, and a dictionary belongs to one struct type).

  `downgrade` (a B writer asked to write in schema A: keepFieldMask, fewer presence bits, fewer
  oneof alternatives) is modelled and proved at the record level in Props/C04Down.lean
  (`downgrade_records`: the encoder `SpecEnc.encodeNode B` on A's tree emits byte for byte the
  ordinary A encoding of the history restricted to A).  That the Go writer IS that model, and the
  interoperability statement of C04 for the Go code, stay DECIDED pair by pair by the
  cross-package runs of h_gen (code generated for A and B, both directions, Lean decoder as
  oracle on every stream, genuine and crafted descriptors).
-/
import Stef.Proofs.Override
import Stef.Proofs.ForwardStream
import Stef.Proofs.ForwardCex

namespace Stef.Props.C04
open Stef Stef.Spec Stef.Proofs.Override Stef.Proofs.Forward

/-- (a) first encounter, descriptor present, next count `c ≤ own`: the count is `c`, it is
    consumed from the descriptor and remembered under the struct's name. -/
theorem fetch_consumes (b : Build) (name : String) (own c : Nat) (rest : List Nat)
    (hnew : b.known.find? (·.1 = name) = none) (hov : b.override = some (c :: rest)) (hc : c ≤ own) :
    fetchCount b name own =
      .ok (c, { b with override := some rest, known := (name, c) :: b.known }) := by
  unfold fetchCount
  simp [hnew, hov, Nat.not_lt.mpr hc]

example : fetchCount { override := some [2, 5] } "Point" 3 =
    .ok (2, { override := some [5], known := [("Point", 2)] }) :=
  fetch_consumes { override := some [2, 5] } "Point" 3 2 [5] rfl rfl (by decide)

/-- (b) **refuse**: a descriptor count larger than the reader's own field count is an error,
    whatever else the descriptor says - never a decode. -/
theorem refuse (b : Build) (name : String) (own c : Nat) (rest : List Nat)
    (hnew : b.known.find? (·.1 = name) = none) (hov : b.override = some (c :: rest)) (hc : own < c) :
    fetchCount b name own = .error "too-many-fields" := by
  unfold fetchCount
  simp [hnew, hov, hc]

example : fetchCount { override := some [4, 1] } "Point" 3 = .error "too-many-fields" :=
  refuse { override := some [4, 1] } "Point" 3 4 [1] rfl rfl (by decide)

/-- (c) later encounters of a name (recursion, reuse of a struct in several places) return the
    count fetched the first time and leave the descriptor untouched. -/
theorem fetch_again (b : Build) (name : String) (own c : Nat) (p : String × Nat)
    (hk : b.known.find? (·.1 = name) = some p) (hp : p.2 = c) :
    fetchCount b name own = .ok (c, b) := by
  unfold fetchCount
  cases p with
  | mk n k => simp at hp; simp [hk, hp]

/-- (a) then (c): after the first fetch the same name yields the same count and the build state
    (descriptor included) no longer changes. -/
theorem fetch_twice (b : Build) (name : String) (own c : Nat) (rest : List Nat)
    (hnew : b.known.find? (·.1 = name) = none) (hov : b.override = some (c :: rest)) (hc : c ≤ own) :
    ∃ b', fetchCount b name own = .ok (c, b') ∧ b'.override = some rest ∧
      ∀ own', fetchCount b' name own' = .ok (c, b') := by
  refine ⟨{ b with override := some rest, known := (name, c) :: b.known },
    fetch_consumes b name own c rest hnew hov hc, rfl, ?_⟩
  intro own'
  exact fetch_again _ name own' c (name, c) (by simp [List.find?]) rfl

example : ∃ b', fetchCount { override := some [2, 5] } "Point" 3 = .ok (2, b') ∧ b'.override = some [5] ∧
    ∀ own', fetchCount b' "Point" own' = .ok (2, b') :=
  fetch_twice { override := some [2, 5] } "Point" 3 2 [5] rfl rfl (by decide)

/-- without a descriptor the reader's own count is used (streams written without descriptor). -/
theorem fetch_own (b : Build) (name : String) (own : Nat)
    (hnew : b.known.find? (·.1 = name) = none) (hov : b.override = none) :
    fetchCount b name own = .ok (own, { b with known := (name, own) :: b.known }) := by
  unfold fetchCount
  simp [hnew, hov]

example : fetchCount {} "Point" 3 = .ok (3, { known := [("Point", 3)] }) := fetch_own {} "Point" 3 rfl rfl

/-! ## Append-only evolution: the traversal of the whole schema -/

theorem schemaLe_refl (A : Schema) : SchemaLe A A := by
  intro n dA h
  refine ⟨dA, h, ?_⟩
  cases dA with
  | struct d fs => exact ⟨rfl, List.prefix_refl fs⟩
  | oneof fs => exact List.prefix_refl fs
  | mmap k v => exact ⟨rfl, rfl⟩

/-- **init_mono**: under any descriptor `l` that a reader for A accepts at a position, a reader
    for every B with A ≼ B builds the same column tree and ends in the same build state (same
    rest of the descriptor, same remembered counts, same number of columns). -/
theorem init_mono (A B : Schema) (hAB : SchemaLe A B) (fuel : Nat) (stack : List String) (ty : Ty)
    (l : List Nat) (c : Nat) (r : Node × Build)
    (hA : mkNode A fuel stack ty { nextCol := c, override := some l } = .ok r) :
    mkNode B fuel stack ty { nextCol := c, override := some l } = .ok r :=
  ((mono_all A B hAB fuel).1 stack ty _ r ⟨l, rfl⟩ (by intro p hp; cases hp) hA).1

/-- **own_descriptor_exact**: what a reader builds without descriptor it also builds from its own
    descriptor, consuming it exactly (and leaving any further counts `rest` untouched). -/
theorem own_descriptor_exact (A : Schema) (fuel : Nat) (ty : Ty) (node : Node) (b : Build) (rest : List Nat)
    (h : mkNode A fuel [] ty {} = .ok (node, b)) :
    mkNode A fuel [] ty { override := some (wireOf b ++ rest) } = .ok (node, { b with override := some rest }) := by
  obtain ⟨new, hk, _, hrun⟩ := (own_all A fuel).1 [] ty {} (node, b) rfl h
  have hnew : new = b.known := by simpa using hk.symm
  subst hnew
  exact hrun rest

/-- **init_with_override**: for A ≼ B, a reader for B initialised with A's descriptor builds
    exactly A's column tree (`nodeA`: columns, kept counts, optional counts, recursion cuts) with
    A's number of columns and remembered counts (`bA`), and consumes the descriptor exactly. -/
theorem init_with_override (A B : Schema) (hAB : SchemaLe A B) (fuel : Nat) (root : String)
    (nodeA : Node) (bA : Build) (hA : mkNode A fuel [] (.ref root) {} = .ok (nodeA, bA)) :
    mkNode B fuel [] (.ref root) { override := some (wireOf bA) } =
      .ok (nodeA, { bA with override := some [] }) := by
  have h1 := own_descriptor_exact A fuel (.ref root) nodeA bA [] hA
  simp only [List.append_nil] at h1
  exact init_mono A B hAB fuel [] (.ref root) (wireOf bA) 0 _ h1

/-- the same at the fuel `decodeStream` uses: the `mkNode` call of `decodeStream B` on a stream
    carrying A's descriptor succeeds with A's tree and an empty rest, so the decoder goes on to
    the frames with A's column layout (no "too-many-fields", no "schema-override-not-consumed"). -/
theorem reader_init_forward (A B : Schema) (hAB : SchemaLe A B) (root : String) (nodeA : Node) (bA : Build)
    (hA : mkNode A 200 [] (.ref root) { override := none } = .ok (nodeA, bA)) :
    mkNode B 200 [] (.ref root) { override := some (wireOf bA) } = .ok (nodeA, { bA with override := some [] }) :=
  init_with_override A B hAB 200 root nodeA bA hA

/-- **accepted_counts_within_own**: a descriptor is accepted only if every count it supplied is
    within the reader's own field count of that struct / oneof: a descriptor that gives ANY
    visited struct more fields than the reader knows is refused (contrapositive). -/
theorem accepted_counts_within_own (A : Schema) (fuel : Nat) (ty : Ty) (l : List Nat) (node : Node) (b : Build)
    (h : mkNode A fuel [] ty { override := some l } = .ok (node, b)) :
    ∀ p ∈ b.known, ∀ dA c, A.find p.1 = some dA → ownCount dA = some c → p.2 ≤ c :=
  ((mono_all A A (schemaLe_refl A) fuel).1 [] ty _ (node, b) ⟨l, rfl⟩ (by intro p hp; cases hp) h).2.2

/-- the refusal spelled out for the root struct (partial: first position only; every position is
    covered by `accepted_counts_within_own`). -/
theorem refuse_root_partial (A : Schema) (fuel : Nat) (root : String) (d : Option String) (fs : List Field)
    (c : Nat) (rest : List Nat) (hf : A.find root = some (.struct d fs)) (hc : fs.length < c) :
    mkNode A (fuel + 1) [] (.ref root) { override := some (c :: rest) } = .error "too-many-fields" := by
  rw [mkNode]
  simp [hf, fetchCount, hc, bind, Except.bind]

/-! ### The record-level statement -/

/-- the full forward statement at the level of the specification decoder: a stream that decodes
    under schema A, and carries A's descriptor, decodes under every B with A ≼ B to the same number
    of records with the same root masks, each an extension of A's record by B-only fields.
    As stated (for ALL schemas A) it is FALSE: `forwardStatement_false`. It holds for well-formed A:
    `forward_records_partial`, and more generally for any descriptor: `forward_records`. -/
def ForwardStatement : Prop :=
  ∀ (A B : Schema), SchemaLe A B → ∀ (root : String) (stream : Bytes) (nodeA : Node) (bA : Build),
    mkNode A 200 [] (.ref root) {} = .ok (nodeA, bA) →
    (decodeStream A root stream).error = none →
    (decodeStream A root stream).header.wireCounts = some (wireOf bA) →
    (decodeStream B root stream).error = none ∧
    (decodeStream A root stream).records.map (·.1) = (decodeStream B root stream).records.map (·.1) ∧
    ExtL ((decodeStream A root stream).records.map (·.2)) ((decodeStream B root stream).records.map (·.2))

/-- **forward_records** (record level, any descriptor): for A ≼ B with A well formed (`Closed A`: every
    type name A mentions is defined in A; `DictInj A`: no two structs of A share a struct
    dictionary), every stream that carries a wire-schema descriptor and that a reader for A decodes
    without error is decoded without error by a reader for B, to the same number of records with
    the same root masks, every B record extending the A record by B-only trailing struct fields. -/
theorem forward_records (A B : Schema) (hAB : SchemaLe A B) (hC : Closed A) (hD : DictInj A)
    (root : String) (stream : Bytes) (l : List Nat)
    (hE : (decodeStream A root stream).error = none)
    (hW : (decodeStream A root stream).header.wireCounts = some l) :
    (decodeStream B root stream).error = none ∧
    (decodeStream A root stream).records.map (·.1) = (decodeStream B root stream).records.map (·.1) ∧
    ExtL ((decodeStream A root stream).records.map (·.2)) ((decodeStream B root stream).records.map (·.2)) := by
  obtain ⟨h1, h2⟩ := stream_sim hAB hC hD root stream l hE hW
  exact ⟨h1, recRel_split h2⟩

/-- `ForwardStatement` restricted to well-formed A (the two excluding hypotheses are explicit) -/
def ForwardStatementWF : Prop :=
  ∀ (A B : Schema), SchemaLe A B → Closed A → DictInj A →
    ∀ (root : String) (stream : Bytes) (nodeA : Node) (bA : Build),
    mkNode A 200 [] (.ref root) {} = .ok (nodeA, bA) →
    (decodeStream A root stream).error = none →
    (decodeStream A root stream).header.wireCounts = some (wireOf bA) →
    (decodeStream B root stream).error = none ∧
    (decodeStream A root stream).records.map (·.1) = (decodeStream B root stream).records.map (·.1) ∧
    ExtL ((decodeStream A root stream).records.map (·.2)) ((decodeStream B root stream).records.map (·.2))

/-- **forward_records_partial**: `ForwardStatement` for every well-formed A. -/
theorem forward_records_partial : ForwardStatementWF := by
  intro A B hAB hC hD root stream nodeA bA _ hE hW
  exact forward_records A B hAB hC hD root stream (wireOf bA) hE hW

/-- non-vacuity of `forward_records` / `forward_records_partial`: the pair exA ≼ exB, a real
    two-record stream carrying exA's own descriptor [3, 1, 2]; all hypotheses hold, and the B reader's
    records really are longer (`Cex.ex_runB`: the B-only fields `S.n`, `R.y` at their defaults). -/
example : ∃ nodeA bA, mkNode exA 200 [] (.ref "R") {} = .ok (nodeA, bA) ∧ wireOf bA = [3, 1, 2] ∧
    (decodeStream exA "R" Cex.exStream).error = none ∧
    (decodeStream exA "R" Cex.exStream).header.wireCounts = some (wireOf bA) ∧
    (decodeStream exA "R" Cex.exStream).records = [(7, Cex.exRec 5#64), (1, Cex.exRec 6#64)] ∧
    (decodeStream exB "R" Cex.exStream).error = none ∧
    (decodeStream exA "R" Cex.exStream).records.map (·.1) = (decodeStream exB "R" Cex.exStream).records.map (·.1) ∧
    ExtL ((decodeStream exA "R" Cex.exStream).records.map (·.2)) ((decodeStream exB "R" Cex.exStream).records.map (·.2)) ∧
    (decodeStream exB "R" Cex.exStream).records = [(7, Cex.exRecB 5#64), (1, Cex.exRecB 6#64)] := by
  refine ⟨_, _, rfl, rfl, Cex.ex_runA.1, Cex.ex_runA.2.1, Cex.ex_runA.2.2, ?_, ?_, ?_, Cex.ex_runB⟩
  · exact (forward_records_partial exA exB exA_le_exB Cex.exA_closed Cex.exA_dictInj "R" Cex.exStream _ _ rfl
      Cex.ex_runA.1 Cex.ex_runA.2.1).1
  · exact (forward_records_partial exA exB exA_le_exB Cex.exA_closed Cex.exA_dictInj "R" Cex.exStream _ _ rfl
      Cex.ex_runA.1 Cex.ex_runA.2.1).2.1
  · exact (forward_records_partial exA exB exA_le_exB Cex.exA_closed Cex.exA_dictInj "R" Cex.exStream _ _ rfl
      Cex.ex_runA.1 Cex.ex_runA.2.1).2.2

/-- **forward_needs_dictInj**: with two structs of A sharing a struct dictionary the conclusion fails
    (A closed, every other hypothesis of `ForwardStatement` true, both readers decode without error). -/
theorem forward_needs_dictInj : ∃ (A B : Schema) (root : String) (stream : Bytes) (nodeA : Node) (bA : Build),
    SchemaLe A B ∧ Closed A ∧ mkNode A 200 [] (.ref root) {} = .ok (nodeA, bA) ∧
    (decodeStream A root stream).error = none ∧
    (decodeStream A root stream).header.wireCounts = some (wireOf bA) ∧
    (decodeStream B root stream).error = none ∧
    ¬ ExtL ((decodeStream A root stream).records.map (·.2)) ((decodeStream B root stream).records.map (·.2)) := by
  obtain ⟨nodeA, bA, hmk, hw⟩ := Cex.c_mkNode
  refine ⟨Cex.cA, Cex.cB, "R", Cex.cStream, nodeA, bA, Cex.cA_le_cB, Cex.cA_closed, hmk, Cex.c_runA.1, ?_,
    Cex.c_runB.1, ?_⟩
  · rw [hw]; exact Cex.c_runA.2.1
  · rw [Cex.c_runA.2.2, Cex.c_runB.2]; exact Cex.c_not_ext

/-- **forward_needs_closed**: with a dangling type name in A (accepted by `mkNode` because it
    coincides with an array key) that B defines, the conclusion fails (A has no dictionaries). -/
theorem forward_needs_closed : ∃ (A B : Schema) (root : String) (stream : Bytes) (nodeA : Node) (bA : Build),
    SchemaLe A B ∧ DictInj A ∧ mkNode A 200 [] (.ref root) {} = .ok (nodeA, bA) ∧
    (decodeStream A root stream).error = none ∧
    (decodeStream A root stream).header.wireCounts = some (wireOf bA) ∧
    (decodeStream B root stream).error = none ∧
    ¬ ExtL ((decodeStream A root stream).records.map (·.2)) ((decodeStream B root stream).records.map (·.2)) := by
  obtain ⟨nodeA, bA, hmk, hw⟩ := Cex.d_mkNode
  refine ⟨Cex.dA, Cex.dB, "R", Cex.dStream, nodeA, bA, Cex.dA_le_dB, Cex.dA_dictInj, hmk, Cex.d_runA.1, ?_,
    Cex.d_runB.1, ?_⟩
  · rw [hw]; exact Cex.d_runA.2.1
  · rw [Cex.d_runA.2.2, Cex.d_runB.2]; exact Cex.d_not_ext

/-- **forwardStatement_false**: the unrestricted record-level statement does not hold. -/
theorem forwardStatement_false : ¬ ForwardStatement := by
  intro h
  obtain ⟨A, B, root, stream, nodeA, bA, hAB, _, hmk, hE, hW, _, hne⟩ := forward_needs_dictInj
  exact hne (h A B hAB root stream nodeA bA hmk hE hW).2.2

/-! ### Non-vacuity: a concrete pair A ≼ B whose descriptor lists differ in length -/

-- A's own descriptor is [3, 1, 2]; B's own is [4, 2, 1, 3]. A B reader given [3, 1, 2] builds
-- A's tree (the new struct N is never visited) and consumes the three counts.
example : ∃ nodeA bA, mkNode exA 200 [] (.ref "R") {} = .ok (nodeA, bA) ∧ wireOf bA = [3, 1, 2] ∧
    mkNode exB 200 [] (.ref "R") { override := some [3, 1, 2] } = .ok (nodeA, { bA with override := some [] }) := by
  refine ⟨_, _, rfl, rfl, ?_⟩
  exact init_with_override exA exB exA_le_exB 200 "R" _ _ rfl

-- ... and an A reader given B's own descriptor refuses it at the root.
example : mkNode exA 200 [] (.ref "R") { override := some [4, 2, 1, 3] } = .error "too-many-fields" :=
  refuse_root_partial exA 199 "R" none _ 4 [2, 1, 3] rfl (by decide)

end Stef.Props.C04
