/-
  C16 for the Responder REGENERATED from the source (Gen/ResponderFlow.lean, produced on every check run by
  /verif/extract responderflow.go from otelcol/internal/stefreceiver/internal/responder.go and the loop of
  onStream in stef.go; meaning of the statements: Stef/ResponderFlowSem.lean).

  1. The arms of Run's select loop, sendBadDataResponse, composeBadDataResponse, ScheduleAck,
     ScheduleBadDataResponse and Stop - as translated statement by statement from the Go AST - make EXACTLY
     the Responder transitions of the hand LTS (Stef/Receiver.lean), program counter by program counter
     (`responder_is_lts`, `lts_has_no_other_step`), hence every run of the receiver with the regenerated
     Responder is a run of the LTS (`responder_runs_are_lts_runs`).
  2. The facts the hand model relies on, read off the regenerated data: the stop arm sends nothing,
     ScheduleBadDataResponse is a blocking send into a channel of the modelled capacity, the tick arm loads
     the ack id BEFORE it looks at the bad-data channel, ScheduleAck is one atomic store.
  3. The main C16 theorems restated for the runs of the receiver with the regenerated Responder.
  4. The loop of onStream does, per iteration, what the LTS's decoding loop does, with the same data
     (`onstream_loop_is_lts`: ScheduleAck(to), ScheduleBadDataResponse{from+1, to}).

  A change of responder.go / the loop of onStream that is not an equivalent rewriting regenerates different
  data and a proof in Proofs/ResponderGen.lean (hence this module) stops compiling; a change outside the
  translated subset makes the generator fail.
-/
import Stef.Proofs.ResponderGen
import Stef.Props.C16

namespace Stef.Props.C16Gen
open Stef.Receiver Stef.ResponderFlowSem Stef.Gen.ResponderFlow Stef.Proofs.ResponderGen

/-! ## the regenerated Responder is the LTS's Responder -/

/-- In related states (Run's configuration `c` is at program counter `s.qpc` with
    `lastAckedID = s.lastAcked`), for EVERY outcome `ge` of the blocking operation Run waits in (an arm of
    a select is taken, SendDataResponse returns nil / an error): the machine running the regenerated code
    is enabled iff the corresponding event of the hand LTS is (`lift`: tick, badRecv, badMore, badDone,
    tickNoBad, sendOk, sendFail, stop; the local step `tickAck` is taken with the event before it), the
    effect on the shared state (channel, responses handed to the stream, lastError, broken) is the same,
    and the successors are related again. -/
theorem responder_is_lts (c : Cfg) (s : State) (ge : GEv) (h : Rel c s) :
    SimRes s (rstep prog badDataChanCap c s ge) (gstepL s ge) := sim c s ge h

/-- non-vacuity: the initial configurations are related, and a tick is enabled in both. -/
example : Rel G.init.c Receiver.init ∧
    ∃ x s', rstep prog badDataChanCap G.init.c Receiver.init .tick = some x ∧ gstepL Receiver.init .tick = some s' ∧
      s'.qpc = .loaded 0 := by
  refine ⟨inv_init.2, ?_⟩
  have h := sim G.init.c Receiver.init .tick inv_init.2
  have hl : gstepL Receiver.init .tick = some { Receiver.init with qpc := .loaded 0 } := by decide
  rw [hl] at h
  cases hr : rstep prog badDataChanCap G.init.c Receiver.init .tick with
  | none => simp [hr, SimRes] at h
  | some x => exact ⟨x, _, rfl, hl, rfl⟩

/-- Every run of the receiver whose Responder is the regenerated code (any interleaving of the decoding
    loop's events with the outcomes of Run's blocking operations) is a run of the hand LTS that ends in a
    state with the same shared part and Run at the LTS's program counter. -/
theorem responder_runs_are_lts_runs (gevs : List GEvent) (g : G) (h : G.run G.init gevs = some g) :
    ∃ es s, run Receiver.init es = some s ∧ Inv g s := grun_sound_init gevs g h

/-- the schedule of C16.raceRun for the regenerated Responder: accepted batch, tick + ack; a rejected
    batch is queued, an accepted one follows; then the ticker fires with the bad data still waiting. -/
def gRaceRun : List GEvent :=
  [.loop .checkErr, .loop (.decode 2), .loop (.consume .accept), .loop .schedAck,
   .resp .tick, .resp .dflt, .resp .sendOk,
   .loop .checkErr, .loop (.decode 2), .loop (.consume .perm), .loop .schedBad,
   .loop .checkErr, .loop (.decode 6), .loop (.consume .accept), .loop .schedAck,
   .resp .tick, .resp .recvBad, .resp .dflt, .resp .sendOk, .resp .sendOk]

/-- non-vacuity: the regenerated code answers that schedule with ack=2, ack=4 [3,4], ack=10. -/
example : ∃ g, G.run G.init gRaceRun = some g ∧
    g.sh.resps.reverse = [⟨2, [], true⟩, ⟨4, [(3, 4)], true⟩, ⟨10, [], true⟩] := ⟨_, rfl, by decide⟩

/-- The LTS has no Responder transition that the code does not have: a Responder event of the LTS other
    than the local `tickAck`, taken from a state related to a configuration of the regenerated Run, is the
    outcome of the blocking operation Run waits in, and the machine takes it to a related state. -/
theorem lts_has_no_other_step {g : G} {s s1 : State} {e : Event} (hi : Inv g s) (h : step s e = some s1)
    (hl : isLoopEv e = false) (ht : e ≠ .tickAck) :
    ∃ ge g' s', lift s.qpc ge = some e ∧ g.step (.resp ge) = some g' ∧ norm s1 = some s' ∧ Inv g' s' := by
  obtain ⟨ge, hge⟩ := lift_complete h hl ht
  obtain ⟨g', s', h1, h2, h3⟩ := lts_step_is_machine_step hi hge h
  exact ⟨ge, g', s', hge, h1, h2, h3⟩

example : Inv G.init Receiver.init ∧ (step Receiver.init .tick).isSome ∧ isLoopEv .tick = false :=
  ⟨inv_init, by decide, rfl⟩

/-! ## facts read off the regenerated data -/

/-- The `case <-r.stopCh:` arm contains no SendDataResponse and no call of sendBadDataResponse /
    composeBadDataResponse (syntactically), and taking it ends Run with the shared state - in particular
    the list of responses - unchanged. -/
theorem stop_arm_sends_nothing :
    ((selArms runL).findStop.map Stmt.sendsOrCalls) = some false ∧
    ∀ g s, Inv g s → s.qpc = .idle → s.stopReq = true →
      ∃ g', g.step (.resp .stopRecv) = some g' ∧ g'.sh = g.sh ∧ g'.c.finished = true :=
  ⟨Proofs.ResponderGen.stop_arm_sends_nothing, stop_arm_effect⟩

example : ∃ s, Inv G.init s ∧ s.qpc = .idle := ⟨_, inv_init, rfl⟩

/-- `ScheduleBadDataResponse` is ONE BLOCKING send of its argument (no `select` with a `default:`): a
    call waits until the channel - of capacity `badDataMaxBatchSize` = the model's `badDataCap` - has room,
    then appends the range; nothing else is enabled and nothing is dropped. -/
theorem schedule_bad_blocks :
    scheduleBadDataResponseDecl.body.isBlockingSendOfParam = true ∧ badDataChanCap = badDataCap ∧
    ∀ (s : State) (bd : Range), ∃ c, start prog scheduleBadDataResponseDecl [bd] [] s = (c, s) ∧
      (s.queue.length < badDataCap → rstep prog badDataChanCap c s .chanSend =
          some ({ c with top := { c.top with k := [] } }, { s with queue := s.queue ++ [bd] })) ∧
      (¬ s.queue.length < badDataCap → rstep prog badDataChanCap c s .chanSend = none) ∧
      ∀ ge, ge ≠ .chanSend → rstep prog badDataChanCap c s ge = none :=
  ⟨scheduleBad_is_blocking_send, chan_cap, scheduleBad_effect⟩

/-- `ScheduleAck(id)` is the atomic store of `id` into `nextAckID` and nothing else. -/
theorem schedule_ack_stores (s : State) (t : Nat) :
    ∃ c, start prog scheduleAckDecl [] [t] s = (c, { s with nextAck := t }) ∧ c.finished = true :=
  scheduleAck_effect s t

/-- `Stop()` closes `stopCh` and nothing else; `LastError()` returns the stored error. -/
theorem stop_closes (s : State) :
    (∃ c, start prog stopDecl [] [] s = (c, { s with stopReq := true }) ∧ c.finished = true) ∧
    lastErrorReturnsStoredError = true := ⟨stop_effect s, rfl⟩

/-- In the `case <-t.C:` arm the acknowledgement id is loaded BEFORE the arm looks at the bad-data
    channel: syntactically (the first `nextAckID.Load()` precedes the first `select` of the arm body), and
    semantically - the tick step ends at the inner select with `readRecordID` = the value `nextAckID` had
    at the tick, nothing received from the channel yet. (Bad data queued before that id was stored refers
    to earlier records; seeded change C16-ack-id-loaded-after-drain swaps the two.) -/
theorem tick_loads_before_drain :
    (∃ i j, i < j ∧ (tickArm.getD i .skip).isLoadAck = true ∧ (tickArm.getD j .skip).isSel = true ∧
      ∀ k, k < j → (tickArm.getD k .skip).isSel = false) ∧
    ∀ g s, Inv g s → s.qpc = .idle →
      ∃ g', g.step (.resp .tick) = some g' ∧ g'.sh = g.sh ∧ Inv g' { s with qpc := .loaded s.nextAck } := by
  refine ⟨Proofs.ResponderGen.tick_loads_before_drain, ?_⟩
  intro g s hi hq
  have hstep : step s .tick = some { s with qpc := .loaded s.nextAck } := by simp [step, hq]
  obtain ⟨g', s', h1, h2, h3⟩ := lts_step_is_machine_step (ge := .tick) hi (by simp [lift, hq]) hstep
  simp only [norm] at h2
  cases h2
  refine ⟨g', h1, ?_, h3⟩
  obtain ⟨q, la, hsh⟩ := inv_shared hi
  obtain ⟨hsh', _⟩ := h3
  rw [hsh', hsh]
  obtain ⟨e, s1, s2, hl, hs, hn, hi'⟩ := gstep_resp hi h1
  have : g'.sh.qpc = g.sh.qpc ∧ g'.sh.lastAcked = g.sh.lastAcked := by
    simp only [G.step] at h1
    cases hr : rstep prog badDataChanCap g.c g.sh .tick with
    | none => simp [hr] at h1
    | some x =>
      simp only [hr, Option.map] at h1
      cases h1
      have := rstep_ghost prog badDataChanCap g.c g.sh .tick g.sh.qpc g.sh.lastAcked
      rw [ghost_self, hr] at this
      simp only [Option.map] at this
      have hx : x = gh g.sh.qpc g.sh.lastAcked x := Option.some.inj this
      rw [hx]; exact ⟨rfl, rfl⟩
  rw [this.1, this.2, hsh]
  rfl

/-- Run never indexes or re-slices `BadDataRecordIdRanges` out of range. -/
theorem run_never_panics (gevs : List GEvent) (g : G) (h : G.run G.init gevs = some g) : g.c.panicked = false :=
  Proofs.ResponderGen.run_never_panics gevs g h

/-! ## the C16 theorems for the receiver with the regenerated Responder -/

/-- Acknowledged ids never decrease: in every run, the AckRecordIds of the successfully sent responses,
    in the order they were sent, are non-decreasing. -/
theorem gen_ack_monotone (gevs : List GEvent) (g : G) (h : G.run G.init gevs = some g) :
    (acks g.sh).Pairwise (· ≤ ·) := by
  obtain ⟨es, s, hrun, hi⟩ := grun_sound_init gevs g h
  obtain ⟨q, la, hsh⟩ := inv_shared hi
  have := C16.ack_monotone es s hrun
  rw [hsh]; exact this

example : ∃ g, G.run G.init gRaceRun = some g ∧ acks g.sh = [2, 4, 10] := ⟨_, rfl, by decide⟩

/-- Acknowledgements never run ahead, over the whole history of a run: for every successfully sent
    response `r` and every record id `1 ≤ i ≤ r.ack` there is a batch holding `i` that the consumer
    accepted, or rejected permanently and whose exact id range is a bad-data range of a successfully sent
    response that is `r` or precedes `r`. -/
theorem gen_ack_history (gevs : List GEvent) (g : G) (h : G.run G.init gevs = some g) : AckHistory g.sh := by
  obtain ⟨es, s, hrun, hi⟩ := grun_sound_init gevs g h
  obtain ⟨q, la, hsh⟩ := inv_shared hi
  have := C16.ack_history es s hrun
  rw [hsh]; exact this

example : ∃ g, G.run G.init gRaceRun = some g ∧
    g.sh.resps.reverse = [⟨2, [], true⟩, ⟨4, [(3, 4)], true⟩, ⟨10, [], true⟩] ∧
    (⟨2, 4, .perm⟩ : Batch) ∈ g.sh.batches := ⟨_, rfl, by decide, by decide⟩

/-- At the moment a response is sent successfully its AckRecordId `k` is covered: `k ≤` the number of
    records decoded, and every batch below `k` was accepted, or rejected permanently and already reported
    in a successfully sent response (this one included). -/
theorem gen_ack_after_consume (gevs : List GEvent) (g g' : G) (h : G.run G.init gevs = some g)
    (hs : g.step (.resp .sendOk) = some g') : Covered g'.sh (C16.sentAck g'.sh) := by
  obtain ⟨es, s, hrun, hi⟩ := grun_sound_init gevs g h
  obtain ⟨e, s1, s', hl, hstep, hn, hi'⟩ := gstep_resp hi hs
  have he := lift_sendOk hl
  subst he
  have hc := C16.ack_after_consume es s s1 hrun hstep
  have ho1 : ObsEq g'.sh s1 := by
    obtain ⟨a1, a2, a3⟩ := inv_obs hi'
    obtain ⟨b1, b2, b3⟩ := norm_obs hn
    exact ⟨a1.trans b1, a2.trans b2, a3.trans b3⟩
  have hsa : C16.sentAck g'.sh = C16.sentAck s1 := by simp only [C16.sentAck, ho1.2.2]
  rw [hsa]
  exact (covered_obs ho1 _).mpr hc

/-- ... in particular it never exceeds the number of records decoded. -/
theorem gen_ack_le_decoded (gevs : List GEvent) (g g' : G) (h : G.run G.init gevs = some g)
    (hs : g.step (.resp .sendOk) = some g') : C16.sentAck g'.sh ≤ g'.sh.decoded :=
  (gen_ack_after_consume gevs g g' h hs).1

/-- non-vacuity: the last send of `gRaceRun` acknowledges id 10 with 10 records decoded and the rejected
    batch reported before. -/
example : ∃ g g', G.run G.init (gRaceRun.take 19) = some g ∧ g.step (.resp .sendOk) = some g' ∧
    C16.sentAck g'.sh = 10 ∧ g'.sh.decoded = 10 ∧ reportedOk g'.sh = [(3, 4)] :=
  ⟨_, _, rfl, rfl, rfl, rfl, by decide⟩

/-- A permanently rejected batch is reported exactly once, with exactly its id range: in every run, every
    permanently rejected batch occurs exactly once - as the inclusive range `from+1 .. to` of exactly its
    records - among the ranges put into responses, the ranges Run has taken out of the channel for the
    response it is composing / sending (`inflightC`), the channel and the range the loop is about to
    schedule; and nothing else is ever reported. -/
theorem gen_bad_batch_once_exact (gevs : List GEvent) (g : G) (h : G.run G.init gevs = some g) :
    (∀ b ∈ g.sh.batches, b.out = .perm →
      (reported g.sh ++ (inflightC g.c ++ g.sh.queue ++ rpcBad g.sh)).count b.exactRange = 1 ∧
      (∀ i, covers b.exactRange i ↔ b.has i)) ∧
    (∀ x ∈ reported g.sh ++ (inflightC g.c ++ g.sh.queue ++ rpcBad g.sh),
      ∃ b ∈ g.sh.batches, b.out = .perm ∧ x = b.exactRange) := by
  obtain ⟨es, s, hrun, hi⟩ := grun_sound_init gevs g h
  obtain ⟨q, la, hsh⟩ := inv_shared hi
  have := C16.bad_batch_once_exact es s hrun
  rw [← rel_inflight hi.2, hsh]
  exact this

example : ∃ g, G.run G.init (gRaceRun.take 17) = some g ∧ inflightC g.c = [(3, 4)] ∧ g.sh.queue = [] ∧
    reported g.sh = [] := ⟨_, rfl, rfl, by decide, by decide⟩

/-- Whatever waits is reported: with bad data in the channel, when Run waits in its outer select the
    bad-data arm is enabled, and when it waits in the inner select of the tick arm the `default:` is NOT
    enabled and the bad-data arm is; either way the head of the channel goes into the response being
    composed. -/
theorem gen_bad_data_gets_reported (g : G) (s : State) (h : Range) (tl : List Range) (hi : Inv g s)
    (hq : s.queue = h :: tl) (hpc : s.qpc = .idle ∨ ∃ rd, s.qpc = .loaded rd) :
    (∃ g', g.step (.resp .recvBad) = some g' ∧ h ∈ inflightC g'.c ∧ g'.sh.queue = tl) ∧
    ((∃ rd, s.qpc = .loaded rd) → g.step (.resp .dflt) = none) := by
  have hstep : ∃ s1, step s .badRecv = some s1 ∧ h ∈ inflight s1 ∧ s1.queue = tl ∧ norm s1 = some s1 := by
    rcases hpc with hp | ⟨rd, hp⟩
    · exact ⟨_, by simp [step, hp, hq]; rfl, by simp [inflight, QPc.infl], rfl, rfl⟩
    · exact ⟨_, by simp [step, hp, hq]; rfl, by simp [inflight, QPc.infl], rfl, rfl⟩
  obtain ⟨s1, hs1, hin, hq1, hn1⟩ := hstep
  have hl : lift s.qpc .recvBad = some .badRecv := by
    rcases hpc with hp | ⟨rd, hp⟩ <;> simp [lift, hp]
  obtain ⟨g', s', h1, h2, h3⟩ := lts_step_is_machine_step hi hl hs1
  rw [hn1] at h2
  cases h2
  refine ⟨⟨g', h1, ?_, ?_⟩, ?_⟩
  · rw [← rel_inflight h3.2]; exact hin
  · obtain ⟨q, la, hsh⟩ := inv_shared h3
    rw [hsh]; exact hq1
  · rintro ⟨rd, hp⟩
    cases hd : g.step (.resp .dflt) with
    | none => rfl
    | some g2 =>
      obtain ⟨e, s2, s3, hl2, hs2, _, _⟩ := gstep_resp hi hd
      simp [lift, hp] at hl2
      subst hl2
      simp [step, hp, hq] at hs2

/-- non-vacuity, on the code itself: after the second tick of `gRaceRun` Run waits in the inner select
    with [3,4] in the channel; `default:` is not enabled, the bad-data arm is. -/
example : ∃ g, G.run G.init (gRaceRun.take 16) = some g ∧ g.sh.queue = [(3, 4)] ∧
    (g.step (.resp .dflt)).isNone = true ∧ (g.step (.resp .recvBad)).isSome = true :=
  ⟨_, rfl, by decide, rfl, rfl⟩

/-! ## the decoding loop of onStream -/

/-- One iteration of the regenerated loop body of onStream - for every answer of `LastError()`, of
    `Convert` (a batch of n records / an error) and of the consumer - does what the hand LTS's decoding
    loop does, with the same data: it checks LastError first and leaves if it is set; it acknowledges
    `RecordCount()` after the batch (`ScheduleAck(to)`) when the consumer accepted; it reports exactly the
    batch, `from+1 .. to`, when the consumer rejected it permanently, and continues; it leaves on a
    transient error without scheduling anything. The actions are a pass of the LTS through
    `top -> await -> decoded -> needAck / needBad -> top`. -/
theorem onstream_loop_is_lts (s : State) (o : Oracle) (hr : s.rpc = .top) (hle : s.lastError = o.lastErr)
    (hn : ∀ n, o.conv = some n → n ≠ 0) (ho : o.out ≠ .pending) (hroom : s.queue.length < badDataCap) :
    let acts := loopIter onStreamLoopBody onStreamLoopLocals s.decoded o
    acts = handIter s.decoded o ∧
    ∃ s', run s (acts.filterMap LAct.event) = some s' ∧
      (s'.rpc = if LAct.exit ∈ acts then .exited else .top) ∧
      (s'.stopReq = true ↔ (LAct.exit ∈ acts ∨ s.stopReq = true)) ∧
      (∀ t, LAct.schedAck t ∈ acts → s'.nextAck = t) ∧
      (∀ f t, LAct.schedBad f t ∈ acts → s'.queue = s.queue ++ [(f, t)]) := by
  simp only [loopIter_eq]
  exact ⟨trivial, iter_is_lts s o hr hle hn ho hroom⟩

/-- non-vacuity: a batch of 3 records after 4, rejected permanently, is reported as [5, 7]. -/
example : loopIter onStreamLoopBody onStreamLoopLocals 4 ⟨false, some 3, .perm⟩ =
    [.checkErr false, .decode 3, .consume .perm, .schedBad 5 7] := by decide

/-- onStream creates the Responder, defers its Stop() and starts Run before the loop. -/
theorem onstream_starts_responder : onStreamDefersStopAndStartsRun = true := rfl

end Stef.Props.C16Gen
