/-
  C12, lexer half for the code as it is TODAY: the theorems of Stef/Props/C12.lean restated for
  `genParse` = the hand model's parser fed by the lexer REGENERATED from go/pkg/idl/lexer.go
  (Stef/Gen/LexFlow.lean, written by extract/lexflow.go on every check run; vocabulary
  Stef/LexFlowSem.lean). Stef/Proofs/LexFlowGen.lean proves every regenerated function equal to
  its hand counterpart of Stef/Idl.lean on every lexer object without pending read error
  (readNextRune = LexSt.adv, skipComment, skipWhiteSpaceOrComment = skipWs, readIdentOrKeyword =
  readIdentChars + kwOfName, readUint64Number = readNumChars + parseUint, Next = nextTok,
  NewLexer + repeated Next = lex), so a change of lexer.go either still proves equal here, or
  breaks that file (or makes the generator fail). Property theorems only.
-/
import Stef.Props.C12
import Stef.Proofs.LexFlowGen

namespace Stef.Props.C12Gen
open Stef.Idl Stef.LexFlowSem Stef.Proofs.LexFlowGen

/-- The regenerated lexer (`NewLexer(input)`, then `Next()` until EOF, read through `Token()`,
    `Ident()`, `Uint64Number()`, `TokenStartPos()`) delivers exactly the token sequence of the
    hand model - for EVERY input. -/
theorem gen_lex_eq (t : List Char) : genLex t = some (lex t) := genLex_eq t

/-- Lexer termination is not an artefact of the rounds granted to the translated `for` loops
    (`len(unread input) + 1` each) and to the token loop (`len(input) + 2` calls of `Next`): no
    loop of the regenerated lexer ever gets `stuck`, and EOF is always reached - for EVERY input. -/
theorem gen_lex_never_stuck (t : List Char) : genLex t ≠ none := by
  rw [genLex_eq]; exact fun h => nomatch h

/-- non-vacuity: a loop that needs more rounds than it is granted IS `stuck` in the vocabulary
    (here: a loop that never ends), so the statement above is about the translated loops. -/
example : (whileLoop (ρ := Unit) (fun _ => true) (pure ())).run { input := ['a'] } = .stuck := by
  decide +kernel

/-- `idl.Parse` with the regenerated lexer is the hand model's `parse`. -/
theorem gen_parse_eq (t : List Char) : genParse t = parse t := genParse_eq t

/-- Accepted schemas are well-formed (see `C12.parse_ok_wf`), with the regenerated lexer. -/
theorem gen_parse_ok_wf (t : List Char) (σ : Schema) (h : genParse t = .ok σ) : σ.WF :=
  C12.parse_ok_wf t σ (by rw [← genParse_eq]; exact h)

/-- non-vacuity: the sample schema of C12 is accepted through the regenerated lexer. -/
example : (match genParse C12.sample with
    | .ok σ => σ.structs.map (·.name) == [['O'], ['A'], ['R'], ['R','2']] &&
               σ.multimaps.length == 1 && σ.enums.length == 1
    | _ => false) = true := by decide +kernel

/-- Errors carry the position of the problem: a byte offset inside the input and a line/column
    counted from 1 (see `C12.parse_err_pos`), with the regenerated lexer. -/
theorem gen_parse_err_pos (t : List Char) (p : Pos) (c : ErrClass) (h : genParse t = .error p c) :
    p.Within t.length :=
  C12.parse_err_pos t p c (by rw [← genParse_eq]; exact h)

example : genParse "package a\nstruct 5".toList = .error ⟨17, 2, 8⟩ .structName := by decide +kernel
example : genParse "package a // c\r\nstruct A root { F 0x }".toList = .error ⟨34, 2, 20⟩ .typeExpected := by
  decide +kernel

/-- It never panics (see `C12.parse_no_panic`), and the parser's model-only "out of fuel" error
    is never reported (see `C12.parse_fuel_sufficient`), with the regenerated lexer. -/
theorem gen_parse_no_panic (t : List Char) (s : PanicSite) : genParse t ≠ .panic s := by
  rw [genParse_eq]; exact C12.parse_no_panic t s

theorem gen_parse_fuel_sufficient (t : List Char) (p : Pos) : genParse t ≠ .error p .outOfFuel := by
  rw [genParse_eq]; exact C12.parse_fuel_sufficient t p

/-- Enum member names are unique in every accepted schema (see `C12.enum_members_unique`). -/
theorem gen_enum_members_unique (t : List Char) (σ : Schema) (h : genParse t = .ok σ) :
    σ.EnumMembersUnique :=
  C12.enum_members_unique t σ (by rw [← genParse_eq]; exact h)

example : genParse C12.dupEnumMember = .error ⟨47, 1, 48⟩ (.dupEnumField ['X']) := by decide +kernel

/-- One `Next()`: on a lexer object without pending read error it is the hand model's `nextTok`
    (state and token), and leaves no read error pending. -/
theorem gen_next_eq (l : L) (he : l.isError = false) :
    ∃ l', (call Gen.LexFlow.next : M Unit Unit).run l = .next () l' ∧
      abs l' = (nextTok (abs l)).2 ∧ l'.isError = false ∧ observe l' = (nextTok (abs l)).1 :=
  next_run l he

example : ({ input := "ab 1".toList, nextRune := 'x' } : L).isError = false := rfl

/-- The regenerated keyword table and the hand model's keyword list agree (whatever the order of
    the entries of the Go map literal). -/
theorem gen_keywords_eq (n : Name) :
    mapIndex Gen.LexFlow.keywords n = match kwOfName n with
      | some k => (kwCode k, true)
      | none => (0, false) :=
  mapIndex_keywords n

end Stef.Props.C12Gen
