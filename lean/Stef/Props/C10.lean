/-
  C10 - code generated for any accepted schema compiles and round-trips.    PARTIAL.

  What the Lean side contributes, and nothing more:

  * The round-trip theorem of C01 (`Stef.Props.C01.roundtrip_struct_of_primitives`) is not a
    theorem about the otel schema: it is generic in the number of fields (any n ≤ 64) and in the
    primitive codec (any lawful codec).  It is restated below with the field count as an
    explicit parameter, and instantiated for integer and float structs of any size.
  * `Stef.Spec.decodeStream` - the independent specification decoder that judges every stream
    produced by every generated package in the C10 runs - is generic in the schema: it takes
    the schema as data (structs with dict modifier, oneofs, multimaps, arrays, optional fields,
    several roots, self and mutual recursion through `Node.recur`).

  What is NOT proved, and is stated as such:

  * The template TEXT of stefc (stefc/templates/go/*.tmpl) is not translated to Lean.  That the
    code stefc generates for a schema σ is the model instantiated at σ is observed, schema by
    schema, by the h_gen runs: stefc built from the tree generates a package for each drawn
    schema, the package is built, driven through its public API by type-directed histories, and
    every stream it writes is decoded by `Spec.decodeStream σ` and by the generated reader; both
    must return the records that were set.  A template defect no drawn schema exercises is not
    seen.
  * "The generated Go package compiles" is only ever OBSERVED (go build of every generated
    package), never proved.
  * Optional fields, oneofs, arrays, multimaps, dictionary structs: no round-trip theorem (as in
    C01); decided on the real code with the Lean decoder as independent oracle.
-/
import Stef.Props.C01

namespace Stef.Props.C10
open Stef Stef.StructCodec Stef.Codec

/-- **generic in field count and codec**: the C01 round trip for a struct of exactly `n` primitive
    fields, for every `n ≤ 64`, every lawful primitive codec `K`, every history. -/
theorem roundtrip_generic (K : StructCodec.Codec) (hK : K.Lawful) (n : Nat) (hn : n ≤ 64)
    (ops : List Op) (w : Writer K) (r : Reader K) (ts : List (List K.C)) (tm : Bits)
    (hlen : w.fields.length = n) (hi : StructCodec.Inv w.fields r.fields)
    (hf : FeedsF r.fields (futureCols w.fields ops) ts) (hm : r.maskCol = futureMask w.fields ops ++ tm) :
    ∃ r', r.readN (writes ops) = some (snapshots w ops, r') ∧ r'.maskCol = tm :=
  Stef.Props.C01.roundtrip_struct_of_primitives K hK ops w r ts tm (hlen ▸ hn) hi hf hm

/-- the integer codec (uint64 / int64 / enum fields) at every field count -/
theorem roundtrip_generic_int (n : Nat) (hn : n ≤ 64) (ops : List Op)
    (w : Writer Stef.Props.C01.dodCodec) (r : Reader Stef.Props.C01.dodCodec)
    (ts : List (List Stef.Props.C01.dodCodec.C)) (tm : Bits)
    (hlen : w.fields.length = n) (hi : StructCodec.Inv w.fields r.fields)
    (hf : FeedsF r.fields (futureCols w.fields ops) ts) (hm : r.maskCol = futureMask w.fields ops ++ tm) :
    ∃ r', r.readN (writes ops) = some (snapshots w ops, r') ∧ r'.maskCol = tm :=
  roundtrip_generic _ Stef.Props.C01.dodCodec_lawful n hn ops w r ts tm hlen hi hf hm

/-- the float codec at every field count -/
theorem roundtrip_generic_float (n : Nat) (hn : n ≤ 64) (ops : List Op)
    (w : Writer Stef.Props.C01.f64Codec) (r : Reader Stef.Props.C01.f64Codec)
    (ts : List (List Stef.Props.C01.f64Codec.C)) (tm : Bits)
    (hlen : w.fields.length = n) (hi : StructCodec.Inv w.fields r.fields)
    (hf : FeedsF r.fields (futureCols w.fields ops) ts) (hm : r.maskCol = futureMask w.fields ops ++ tm) :
    ∃ r', r.readN (writes ops) = some (snapshots w ops, r') ∧ r'.maskCol = tm :=
  roundtrip_generic _ Stef.Props.C01.f64Codec_lawful n hn ops w r ts tm hlen hi hf hm

-- non-vacuity: a fresh 3-field integer struct, its reader, and the empty history satisfy every
-- hypothesis of `roundtrip_generic` (n = 3).
example : ∃ (w : Writer Stef.Props.C01.dodCodec) (r : Reader Stef.Props.C01.dodCodec) (ts : List (List Byte)),
    w.fields.length = 3 ∧ StructCodec.Inv w.fields r.fields ∧
    FeedsF r.fields (futureCols w.fields []) ts ∧ r.maskCol = futureMask w.fields [] ++ [] :=
  ⟨{ fields := [⟨0#64, false, {}, []⟩, ⟨0#64, false, {}, []⟩, ⟨0#64, false, {}, []⟩] },
   { fields := [⟨0#64, {}, []⟩, ⟨0#64, {}, []⟩, ⟨0#64, {}, []⟩], maskCol := [] },
   [[], [], []], by simp [StructCodec.Inv, FeedsF, futureCols, futureMask, Stef.Props.C01.dodCodec]⟩

end Stef.Props.C10
