/-
  C20 - Primitive encodings are bit-exact per the specification over their whole domain.
  Property theorems only; helper lemmas live in Stef/Proofs.

  Layers: `BitsWriter` (64-bit staging register, transcription of bitstream.go) refines bit
  lists; the Go write/read tables are the regenerated `Stef.Gen.Tables`; the specification-side
  decoders are those of `Stef.Spec` (what an independent reader does).
-/
import Stef.Proofs.BitStream
import Stef.Proofs.Varint
import Stef.Proofs.Codec
import Stef.Proofs.Uvc
import Stef.Proofs.BitRoundtrip
import Stef.Proofs.UvcReader

namespace Stef.Props.C20
open Stef Stef.Spec Stef.Codec

/-! ### bit register -/

/-- `BitsWriter.WriteBits(v, n)` appends exactly the `n`-bit big-endian representation of `v`
    for every register fill level (every bit alignment), every `n ≤ 64` and every `v < 2^n`. -/
theorem writeBits_appends (w : BitsWriter) (v : Word) (n : Nat) (hI : w.Inv) (hn : n ≤ 64)
    (hv : v.toNat < 2 ^ n) :
    (w.writeBits v n).toBits = w.toBits ++ lowBits v n ∧ (w.writeBits v n).Inv :=
  BitsWriter.writeBits_spec w v n hI hn hv

theorem writeBit_appends (w : BitsWriter) (bit : Word) (hI : w.Inv) (hb : bit.toNat < 2) :
    (w.writeBit bit).toBits = w.toBits ++ [bit.getLsbD 0] ∧ (w.writeBit bit).Inv :=
  BitsWriter.writeBit_spec w bit hI hb

/-- any sequence of in-contract `WriteBits` calls from a fresh writer yields the concatenation
    of the big-endian representations. -/
theorem writeBits_sequence (ops : List (Word × Nat))
    (hops : ∀ p ∈ ops, p.2 ≤ 64 ∧ p.1.toNat < 2 ^ p.2) :
    (ops.foldl (fun w p => w.writeBits p.1 p.2) ({} : BitsWriter)).toBits
      = (ops.map (fun p => lowBits p.1 p.2)).flatten := by
  suffices h : ∀ (w : BitsWriter), w.Inv →
      (ops.foldl (fun w p => w.writeBits p.1 p.2) w).toBits
        = w.toBits ++ (ops.map (fun p => lowBits p.1 p.2)).flatten by
    have := h {} BitsWriter.inv_init
    simpa [BitsWriter.toBits, bytesBits, highBits] using this
  induction ops with
  | nil => intro w _; simp
  | cons p ps ih =>
    intro w hw
    have hp := hops p (by simp)
    have hstep := BitsWriter.writeBits_spec w p.1 p.2 hw hp.1 hp.2
    have := ih (fun q hq => hops q (by simp [hq])) (w.writeBits p.1 p.2) hstep.2
    simp only [List.foldl_cons, List.map_cons, List.flatten_cons]
    rw [this, hstep.1, List.append_assoc]

/-- reading an n-bit field back from a bit column (specification decoder side). -/
theorem readBits_roundtrip (v : Word) (n : Nat) (rest : Bits) (hn : n ≤ 64) (hv : v.toNat < 2 ^ n) :
    readBits n (lowBits v n ++ rest) = some (v, rest) := readBits_lowBits v n rest hn hv

/-! ### LEB128 / zig-zag -/

/-- **uvarint_roundtrip**: all 64-bit values, whatever bytes follow. -/
theorem uvarint_roundtrip (v : Word) (rest : Bytes) :
    Varint.decode (Varint.encode v ++ rest) = some (v, rest) := Varint.decode_encode v rest

/-- **varint_roundtrip** (zig-zag LEB128): all 64-bit values. -/
theorem varint_roundtrip (v : Word) (rest : Bytes) :
    Varint.decodeSigned (Varint.encodeSigned v ++ rest) = some (v, rest) :=
  Varint.decodeSigned_encodeSigned v rest

theorem zigzag_roundtrip (x : Word) : Varint.unzigzag (Varint.zigzag x) = x := Varint.unzigzag_zigzag x

/-! ### UvarintCompact (tables regenerated from bitstream_lookuptables.go) -/

/-- **uvc_roundtrip**: every value below 2^48; the bits come from the Go WRITE tables, the
    decoder is the specification's prefix table. -/
theorem uvc_roundtrip (v : Word) (rest : Bits) (hv : v.toNat < 2 ^ 48) :
    readUvc (Uvc.uvcBits v ++ rest) = some (v, rest) := Uvc.uvc_roundtrip v rest hv

/-- at every bit alignment: `WriteUvarintCompact` appends exactly those bits. -/
theorem uvc_write_every_alignment (w : BitsWriter) (v : Word) (hI : w.Inv) (hv : v.toNat < 2 ^ 48) :
    (w.writeUvarintCompact v).1.toBits = w.toBits ++ Uvc.uvcBits v ∧ (w.writeUvarintCompact v).1.Inv :=
  Uvc.writeUvarintCompact_spec w v hI hv

/-- **uvc_reader_refines_spec**: the register-level Go `ReadUvarintCompact` (peek 56 bits, count
    leading zeros, shift / mask / consume count from the regenerated READ tables) returns, at every
    reachable reader state, what the specification's reader returns on the buffer's bits, consumes
    the same bits and reports no error. -/
theorem uvc_reader_refines_spec (r : BitsReader) (pos : Nat) (hI : BitsReader.RInv r pos) (x : Word)
    (rest' : Bits) (h : readUvc ((bytesBits r.buf).drop pos) = some (x, rest')) :
    (r.readUvarintCompact).2 = x ∧
    ∃ n, rest' = (bytesBits r.buf).drop (pos + n) ∧ BitsReader.RInv (r.readUvarintCompact).1 (pos + n) ∧
      (r.readUvarintCompact).1.err = false :=
  BitsReader.readUvarintCompact_refines r pos hI x rest' h

/-- **uvc_register_roundtrip**: wherever the bits `WriteUvarintCompact(v)` emitted (v < 2^48) lie
    in a reader's buffer, at any bit position and any register state, `ReadUvarintCompact` returns `v`. -/
theorem uvc_register_roundtrip (r : BitsReader) (pos : Nat) (hI : BitsReader.RInv r pos) (v : Word)
    (hv : v.toNat < 2 ^ 48) (rest : Bits) (hbits : (bytesBits r.buf).drop pos = Uvc.uvcBits v ++ rest) :
    (r.readUvarintCompact).2 = v ∧ (r.readUvarintCompact).1.err = false := by
  have h := Uvc.uvc_roundtrip v rest hv
  rw [← hbits] at h
  obtain ⟨h1, _, _, _, h4⟩ := BitsReader.readUvarintCompact_refines r pos hI v rest h
  exact ⟨h1, h4⟩

/-- **uvc_is_spec_table**: the Go write tables serve every leading-zero class 16..64 as one of
    the eight classes of the specification, and the Go read tables (shift, mask, consume) are
    the specification's table. Both are finite tables, checked completely. -/
theorem uvc_is_spec_table :
    (∀ z ∈ List.range 65, 16 ≤ z → (Uvc.classOf z).isSome = true) ∧
    (∀ k ∈ List.range 8, Uvc.readClassOk k = true) := ⟨Uvc.write_tables_ok, Uvc.read_tables_ok⟩

/-! ### delta of delta -/

/-- **dod_roundtrip**: every sequence of 64-bit values including wrap-around, from any
    synchronised codec state (so also across frames, with or without codec reset). -/
theorem dod_roundtrip (c : Dod) (vs : List Word) (rest : Bytes) :
    Dod.decodeAll c vs.length ((Dod.encodeAll c vs).2 ++ rest) = some ((Dod.encodeAll c vs).1, vs, rest) :=
  Codec.dod_roundtrip c vs rest

/-! ### Float64 -/

/-- **gorilla_roundtrip**: every sequence of bit patterns; the decoder is the specification's. -/
theorem gorilla_roundtrip (c : F64) (cs : ColSt) (vs : List Word) (rest : Bits) (hok : c.Ok) (hs : Sync cs c) :
    ∃ cs', f64DecodeAll { cs with bits := (F64.encodeAllBits c vs).2 ++ rest } vs.length = some (cs', vs) ∧
      cs'.bits = rest ∧ Sync cs' (F64.encodeAllBits c vs).1 :=
  Codec.f64_roundtrip c cs vs rest hok hs

/-- **gorilla_is_spec**: the register-level Go encoder appends exactly the bits of the
    specification-level encoder (scheme choice incl. the 3a/3b size rule and the clamp at 31 are
    in `F64.encodeBits`), at every alignment. -/
theorem gorilla_is_spec (c : F64) (w : BitsWriter) (v : Word) (hok : c.Ok) (hI : w.Inv) :
    (c.encodeW w v).2.1.toBits = w.toBits ++ (c.encodeBits v).2 ∧
    (c.encodeW w v).1 = (c.encodeBits v).1 ∧ (c.encodeW w v).2.1.Inv :=
  Codec.f64_encodeW_spec c w v hok hI

/-! ### Bool, strings -/

theorem bool_roundtrip (w : BitsWriter) (b : Bool) (hI : w.Inv) :
    (boolEncodeW w b).toBits = w.toBits ++ [b] := by
  have := BitsWriter.writeBit_spec w (if b then 1#64 else 0#64) hI (by cases b <;> decide)
  cases b <;> simpa [boolEncodeW] using this.1

/-- **string_roundtrip** (length-prefixed). -/
theorem string_roundtrip (v rest : Bytes) (hv : v.length < 2 ^ 63) :
    strDecode (strEncode v ++ rest) = .ok (v, rest) := Codec.str_step v rest hv

/-- **dictstring_sync**: same RefNum assignment on both sides, admission at length ≥ 2. -/
theorem dictstring_sync (d : List Bytes) (v rest : Bytes) (hd : d.length < 2 ^ 63) (hv : v.length < 2 ^ 63) :
    strDictDecode d ((strDictEncode d v).2.1 ++ rest) = .ok ((strDictEncode d v).1, v, rest) :=
  Codec.strDict_step d v rest hd hv

/-- a value present in its dictionary is always written as a reference. -/
theorem dict_ref_always (d : List Bytes) (v : Bytes) (h : v ∈ d) :
    ∃ i, (strDictEncode d v).2.1 = Varint.encodeSigned (0#64 - BitVec.ofNat 64 i - 1#64) ∧ d[i]? = some v :=
  Codec.strDict_ref_when_present d v h

/-! ### over-read -/

/-- **overread_reported** for the specification decoder: reading more bits than the column
    holds is an error, never data. -/
theorem overread_reported_spec (n : Nat) (bs : Bits) (h : bs.length < n) : readBits n bs = none := by
  unfold readBits
  suffices ∀ (m : Nat) (l : Bits) (acc : Word), l.length < m → readBitsAux m l acc = none from this n bs _ h
  intro m
  induction m with
  | zero => intro l acc hl; omega
  | succ m ih =>
    intro l acc hl
    cases l with
    | nil => simp [readBitsAux]
    | cons b l => simp only [readBitsAux]; exact ih l _ (by simpa using hl)

/-- **overread_reported** for the Go bit reader (after fix f47ea21: `Error()` reports consumed
    padding bits), for EVERY buffer and EVERY sequence of `ReadBits` widths (each up to 64; the fast
    refill path, the slow one near the end of the buffer and the 56 padding bits are all in the
    model): as long as the reads stay inside the buffer `Error()` is nil and the values are exactly
    the buffer's bits; as soon as the total exceeds the buffer `Error()` is set - reads past the
    end are reported as an error, never as data. -/
theorem overread_reported_bitsreader (buf : Bytes) (ns : List Nat) (hns : ∀ n ∈ ns, n ≤ 64) :
    (ns.sum ≤ 8 * buf.length →
        (BitsReader.readMany { buf := buf } ns).1.err = false ∧
        (BitsReader.readMany { buf := buf } ns).2 = BitsReader.windows buf 0 ns) ∧
    (8 * buf.length < ns.sum → (BitsReader.readMany { buf := buf } ns).1.err = true) := by
  have h := BitsReader.readMany_spec ns { buf := buf } 0 (BitsReader.rinv_init buf) hns
  simp only [Nat.zero_add] at h
  exact ⟨fun hle => ⟨(h.1 hle).1, (h.1 hle).2.1⟩, h.2⟩

/-- **bitsreader_refines_spec**: at every reachable reader state (`RInv r pos`: `pos` bits consumed),
    `ReadBits(n)` returns what the specification's bit reader returns on the buffer's bit list at
    `pos`, whenever the read stays inside the buffer. All spec-level round-trip theorems above
    therefore transfer to the register-level reader. -/
theorem bitsreader_refines_spec (r : BitsReader) (pos n : Nat) (hI : BitsReader.RInv r pos) (hn : n ≤ 64)
    (hin : pos + n ≤ 8 * r.buf.length) :
    readBits n ((bytesBits r.buf).drop pos) = some ((r.readBits n).2, (bytesBits r.buf).drop (pos + n)) ∧
    BitsReader.RInv (r.readBits n).1 (pos + n) ∧ (r.readBits n).1.err = false :=
  BitsReader.readBits_refines_spec r pos n hI hn hin

/-- `ReadBit` is `ReadBits(1)`. -/
theorem readBit_is_readBits_one (r : BitsReader) : r.readBit = r.readBits 1 := BitsReader.readBit_eq_readBits r

/-- **bits_roundtrip** at register level: any sequence of in-contract `WriteBits(v, n)` on a fresh
    `BitsWriter`, `Close`d, is read back value for value by `ReadBits` calls of the same widths on a
    fresh `BitsReader` over those bytes, with `Error() == nil`. -/
theorem bits_roundtrip (ops : List (Word × Nat)) (hops : ∀ p ∈ ops, p.2 ≤ 64 ∧ p.1.toNat < 2 ^ p.2) :
    let w := ops.foldl (fun w p => w.writeBits p.1 p.2) ({} : BitsWriter)
    (BitsReader.readMany { buf := w.bytes } (ops.map (·.2))).2 = ops.map (·.1) ∧
    (BitsReader.readMany { buf := w.bytes } (ops.map (·.2))).1.err = false :=
  Stef.bits_roundtrip ops hops

-- non-vacuity of the reader invariant: a state reached by real reads (slow path, 3-byte buffer)
example : BitsReader.RInv (({ buf := [0xAB#8, 0xCD#8, 0xEF#8] } : BitsReader).readBits 5).1 5 :=
  (BitsReader.readBits_spec _ 0 5 (BitsReader.rinv_init _) (by omega)).1 (by decide) |>.1

-- non-vacuity: a reachable, partially filled register satisfies the invariant, a spilling
-- write is covered, and a codec state reached after real values satisfies `Ok`.
example : (({} : BitsWriter).writeBits 0x1ff#64 9).Inv ∧
    ((({} : BitsWriter).writeBits 0x1ff#64 9).writeBits 0xdeadbeefdeadbeef#64 64).stream.length = 8 := by
  constructor
  · exact (BitsWriter.writeBits_spec {} _ 9 BitsWriter.inv_init (by omega) (by decide)).2
  · decide

example : ((F64.encodeBits {} 0x7ff8000000000001#64).1).Ok ∧ Sync {} {} :=
  ⟨(Codec.f64_step {} {} 0x7ff8000000000001#64 [] f64_ok_init ⟨rfl, rfl, rfl⟩).2.1, ⟨rfl, rfl, rfl⟩⟩

end Stef.Props.C20
