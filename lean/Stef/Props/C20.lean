/-
  C20 - Primitive encodings are bit-exact per the specification over their whole domain.
  Property theorems only; helper lemmas live in Stef/Proofs.
-/
import Stef.Proofs.BitStream

namespace Stef.Props.C20
open Stef

/-- `BitsWriter.WriteBits(v, n)` appends exactly the `n`-bit big-endian representation of `v`
    for every register fill level (every bit alignment), every `n ≤ 64` and every `v < 2^n`. -/
theorem writeBits_appends (w : BitsWriter) (v : Word) (n : Nat) (hI : w.Inv) (hn : n ≤ 64)
    (hv : v.toNat < 2 ^ n) :
    (w.writeBits v n).toBits = w.toBits ++ lowBits v n ∧ (w.writeBits v n).Inv :=
  BitsWriter.writeBits_spec w v n hI hn hv

/-- `WriteBit` appends exactly one bit. -/
theorem writeBit_appends (w : BitsWriter) (bit : Word) (hI : w.Inv) (hb : bit.toNat < 2) :
    (w.writeBit bit).toBits = w.toBits ++ [bit.getLsbD 0] ∧ (w.writeBit bit).Inv :=
  BitsWriter.writeBit_spec w bit hI hb

/-- Any sequence of in-contract `WriteBits` calls from a fresh writer yields the concatenation
    of the big-endian representations. -/
theorem writeBits_sequence (ops : List (Word × Nat))
    (hops : ∀ p ∈ ops, p.2 ≤ 64 ∧ p.1.toNat < 2 ^ p.2) :
    (ops.foldl (fun w p => w.writeBits p.1 p.2) ({} : BitsWriter)).toBits
      = (ops.map (fun p => lowBits p.1 p.2)).flatten := by
  suffices h : ∀ (w : BitsWriter), w.Inv →
      (ops.foldl (fun w p => w.writeBits p.1 p.2) w).toBits
        = w.toBits ++ (ops.map (fun p => lowBits p.1 p.2)).flatten by
    have := h {} BitsWriter.inv_init
    simpa [BitsWriter.toBits, bytesBits, highBits] using this
  induction ops with
  | nil => intro w _; simp
  | cons p ps ih =>
    intro w hw
    have hp := hops p (by simp)
    have hstep := BitsWriter.writeBits_spec w p.1 p.2 hw hp.1 hp.2
    have := ih (fun q hq => hops q (by simp [hq])) (w.writeBits p.1 p.2) hstep.2
    simp only [List.foldl_cons, List.map_cons, List.flatten_cons]
    rw [this, hstep.1, List.append_assoc]

/-- non-vacuity: a reachable, partially filled register satisfies the invariant and a
    spilling write is covered. -/
example : (({} : BitsWriter).writeBits 0x1ff#64 9).Inv ∧
    ((({} : BitsWriter).writeBits 0x1ff#64 9).writeBits 0xdeadbeefdeadbeef#64 64).stream.length = 8 := by
  constructor
  · exact (BitsWriter.writeBits_spec {} _ 9 BitsWriter.inv_init (by omega) (by decide)).2
  · decide

end Stef.Props.C20
