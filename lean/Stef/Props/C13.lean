/-
  C13 - Schema descriptions survive printing, parsing and wire serialization.
  Property theorems only; helper lemmas live in Stef/Proofs.
-/
import Stef.Proofs.SchemaDefs
import Stef.Proofs.WireSerde
import Stef.Proofs.WireOrder
import Stef.Proofs.WireEquiv
import Stef.Proofs.IdlNames
import Stef.Props.C12

namespace Stef.Props.C13
open Stef.Idl

/-! ### wire serialization -/

/-- `Deserialize(Serialize(w)) = w` for every wire schema within the documented limit
    (`maxStructCount` = 1024 counts, regenerated from wireschema.go), every count a uint64. -/
theorem wire_serde (w : List Nat) (hlen : w.length ≤ Stef.Gen.maxStructCount)
    (hw : ∀ c ∈ w, c < 2 ^ 64) : deserialize (serialize w) = .ok w :=
  deserialize_serialize w hlen hw

/-- a wire schema with more than 1024 counts (e.g. 1025) is refused. -/
theorem wire_serde_limit (w : List Nat) (hlen : Stef.Gen.maxStructCount < w.length)
    (h64 : w.length < 2 ^ 64) : deserialize (serialize w) = .error .limit :=
  deserialize_serialize_limit w hlen h64

/-- the serialized form is a byte string. -/
theorem wire_serialize_bytes (w : List Nat) : ∀ b ∈ serialize w, b < 256 := by
  intro b hb
  simp only [serialize, List.mem_append, List.mem_flatten, List.mem_map] at hb
  rcases hb with hb | ⟨l, ⟨c, _, rfl⟩, hb⟩
  · exact uvarint_bytes _ b hb
  · exact uvarint_bytes _ b hb

example : deserialize (serialize [6, 1, 8, 7, 3, 5, 4, 5, 5, 9, 2, 3, 2, 5, 2 ^ 64 - 1])
    = .ok [6, 1, 8, 7, 3, 5, 4, 5, 5, 9, 2, 3, 2, 5, 2 ^ 64 - 1] :=
  wire_serde _ (by decide) (by decide)

example : deserialize (serialize (List.replicate 1025 3)) = .error .limit :=
  wire_serde_limit _ (by rw [List.length_replicate]; show 1024 < 1025; omega)
    (by rw [List.length_replicate]; omega)

example : deserialize (serialize (List.replicate 1024 3)) = .ok (List.replicate 1024 3) :=
  wire_serde _ (by rw [List.length_replicate]; show 1024 ≤ 1024; omega)
    (by intro c hc; rw [List.eq_of_mem_replicate hc]; omega)

/-! ### wire order

  FULL STATEMENT: for every accepted schema `σ` and root `r`,
     `initEntries σ r = wireEntries σ r`
  (`NewWireSchema` lists the struct field counts in exactly the order in which the generated
  `Init` code fetches them). Proved below for schemas WITHOUT recursion. For recursive schemas it
  is not proved; it is checked on the model for every generated schema (op `ws init`: the model
  of `Init` must consume exactly the counts the real `NewWireSchema` returns, recursion
  included) and on the real generated code of otelstef (recursive `AnyValue`). -/

/-- For a schema without recursion the generated `Init` consumes exactly the entries of the wire
    schema, in the same order (and succeeds whenever `NewWireSchema` does). The side conditions
    hold for every schema the parser accepts: top-level names are unique (`parse_ok_wf`) and
    identifiers start with a letter, so no name starts with `[` (the model keys array encoders
    by `"[]" ++ element name`). All three are necessary (counterexamples in Proofs/WireOrder). -/
theorem wire_order_partial (σ : Schema) (root : Name) (hac : σ.Acyclic)
    (hnd : σ.topNames.Nodup)
    (hs : ∀ s ∈ σ.structs, s.name.head? ≠ some '[')
    (hm : ∀ m ∈ σ.multimaps, m.name.head? ≠ some '[')
    (hroot : root ≠ []) (w : List (Name × Nat))
    (h1 : wireEntries σ root = .ok w) : initEntries σ root = .ok w :=
  init_ok_of_wire_ok' σ root hac hnd hs hm hroot w h1

/-- For every schema ACCEPTED BY THE PARSER that has no recursion, and every root of it: the
    generated `Init` consumes exactly the wire schema entries in order. (The side conditions of
    `wire_order_partial` are discharged: names are unique by `parse_ok_wf` and are identifiers
    by Proofs/IdlNames.) -/
theorem wire_order_parsed (t : List Char) (σ : Schema) (h : parse t = .ok σ) (hac : σ.Acyclic)
    (root : Name) (hr : root ∈ σ.rootNames) (w : List (Name × Nat))
    (h1 : wireEntries σ root = .ok w) : initEntries σ root = .ok w := by
  have hn := parse_names h
  have hwf := Stef.Props.C12.parse_ok_wf t σ h
  refine wire_order_partial σ root hac hwf.top_unique ?_ ?_ ?_ w h1
  · intro s hs
    exact (hn s.name (by simp [Schema.defNames]; exact Or.inl ⟨s, hs, rfl⟩)).head_ne_bracket
  · intro m hm
    exact (hn m.name (by simp [Schema.defNames]; exact Or.inr ⟨m, hm, rfl⟩)).head_ne_bracket
  · have hr' : root ∈ (σ.structs.filter (·.isRoot)).map (·.name) := hr
    simp only [List.mem_map, List.mem_filter] at hr'
    obtain ⟨s, ⟨hs, _⟩, rfl⟩ := hr'
    exact (hn s.name (by simp [Schema.defNames]; exact Or.inl ⟨s, hs, rfl⟩)).ne_nil

/-- non-vacuity: the text of `exSchema` is accepted, the result is acyclic, `R` is a root. -/
def exText : List Char :=
  ("package p struct R root { A S B []S M MM } struct S { X T } struct T { Y int64 } " ++
   "multimap MM { key string value S }").toList

example : initEntries { exSchema with pkg := [['p']] } ['R'] = .ok [(['R'], 3), (['S'], 1), (['T'], 1)] :=
  wire_order_parsed exText { exSchema with pkg := [['p']] } (by decide +kernel) exSchema_acyclic
    ['R'] (by decide) _ (by decide)

/-- the same for the bare count lists (what is serialized). -/
theorem wire_order_counts_partial (σ : Schema) (root : Name) (hac : σ.Acyclic)
    (hnd : σ.topNames.Nodup)
    (hs : ∀ s ∈ σ.structs, s.name.head? ≠ some '[')
    (hm : ∀ m ∈ σ.multimaps, m.name.head? ≠ some '[')
    (hroot : root ≠ []) (c : List Nat)
    (h1 : wire σ root = .ok c) : initCounts σ root = .ok c := by
  unfold wire at h1
  unfold initCounts
  cases hw : wireEntries σ root with
  | error e => simp [hw, Except.map] at h1
  | ok w =>
    rw [wire_order_partial σ root hac hnd hs hm hroot w hw]
    rw [hw] at h1
    exact h1

/-- non-vacuity: `exSchema` (Proofs/WireOrder) uses struct `S` three times - as a field, as an
    array element and as a multimap value - so `NewWireSchema` cuts it twice and `Init`
    re-initialises it twice without fetching anything. -/
example : initEntries exSchema ['R'] = .ok [(['R'], 3), (['S'], 1), (['T'], 1)] :=
  wire_order_partial exSchema ['R'] exSchema_acyclic (by decide) (by decide) (by decide)
    (by decide) _ (by decide)

/-! ### print -> parse

  FULL STATEMENT (still false on the code as written, because of schemas without a root):
    `∀ t σ, parse t = .ok σ → ∃ σ', parse (prettyPrint σ) = .ok σ' ∧ σ'.Equiv σ
        ∧ ∀ r ∈ σ.rootNames, wire σ' r = wire σ r`

  The three PrettyPrint defects recorded earlier (`print-array-elem-dict`, `print-enum-as-uint64`,
  `print-enum-dict-unparsable`) were repaired by commit e46c0b0; `Stef/SchemaPrint.lean`
  transcribes the repaired printer and their former witnesses round-trip now (examples below). -/

def PrintParse : Prop :=
  ∀ (t : List Char) (σ : Schema), parse t = .ok σ →
    ∃ σ', parse (prettyPrint σ) = .ok σ' ∧ σ'.Equiv σ ∧ ∀ r ∈ σ.rootNames, wire σ' r = wire σ r

/-- CONJECTURE (tested by `h_schema`, NOT proved): the property restricted to schemas that keep
    at least one struct. Kept as a definition so that the statement is visible. -/
def PrintParseSafe : Prop :=
  ∀ (t : List Char) (σ : Schema), parse t = .ok σ → σ.PrintSafe →
    ∃ σ', parse (prettyPrint σ) = .ok σ' ∧ σ'.Equiv σ ∧ ∀ r ∈ σ.rootNames, wire σ' r = wire σ r

/-- does the text round-trip: accepted, printed text accepted, result equivalent, same wire
    schema for root `R`. (A decidable test used for the examples only.) -/
def roundTrips (t : List Char) : Bool :=
  match parse t with
  | .ok σ =>
    (match parse (prettyPrint σ) with
      | .ok σ' => decide (σ'.Equiv σ) && decide (wire σ' ['R'] = wire σ ['R'])
      | _ => false)
  | _ => false

/-- former witness of `print-array-elem-dict` (also with a second dict on a multimap key). -/
example : roundTrips "package a struct R root { F []string dict(D) }".toList = true := by
  decide +kernel
example : roundTrips ("package a struct R root { F M } " ++
    "multimap M { key []string dict(A) dict(B) value []R dict(C) }").toList = true := by
  decide +kernel
/-- former witness of `print-enum-as-uint64`. -/
example : roundTrips "package a struct R root { F E G []E } enum E { X = 1 }".toList = true := by
  decide +kernel
/-- former witness of `print-enum-dict-unparsable`. -/
example : roundTrips "package a struct R root { F E dict(D) } enum E { X = 1 }".toList = true := by
  decide +kernel

/-- `print-empty-schema-unparsable`: without a root everything is pruned; `package a` alone is
    rejected by the parser. -/
def wNoRoot : List Char := "package a struct R { F int64 }".toList

theorem print_parse_false_empty : ¬ PrintParse := by
  intro h
  obtain ⟨σ', h1, _⟩ := h wNoRoot { pkg := [['a']] } (by decide +kernel)
  have h3 : parse (prettyPrint { pkg := [['a']] }) = .error ⟨9, 1, 10⟩ .expectedDef := by decide +kernel
  rw [h3] at h1
  cases h1

/-- PARTIAL: the second conclusion of the property follows from the first - if the printed text
    re-parses to an equivalent schema, the wire schema of every root is unchanged ("hence the same
    wire schema for every root"). Holds for every accepted schema, recursive or not.
    MISSING (not proved, only tested by `h_schema` on thousands of generated schemas - enums,
    dictionaries on array elements, recursion included - and all checked-in ones): that for
    every accepted `σ` with `σ.PrintSafe` (at least one struct left after pruning)
    `parse (prettyPrint σ)` is `.ok σ'` with `σ'.Equiv σ`. That needs a lexer round trip for
    identifiers/numbers/layout and idempotence of resolve/mark/prune on an already pruned
    schema. -/
theorem print_parse_partial (t : List Char) (σ σ' : Schema) (h : parse t = .ok σ)
    (h' : parse (prettyPrint σ) = .ok σ') (he : σ'.Equiv σ) (r : Name) :
    wire σ' r = wire σ r :=
  wire_of_equiv he (Stef.Props.C12.parse_ok_wf t σ h).top_unique
    (Stef.Props.C12.parse_ok_wf _ σ' h').top_unique r

/-- non-vacuity: the sample of C12 (enum, array-element dictionary, recursion, two roots)
    round-trips to an equivalent schema (definition order differs: PrettyPrint sorts by name). -/
example : (match parse Stef.Props.C12.sample with
    | .ok σ => (match parse (prettyPrint σ) with
        | .ok σ' => decide (σ'.Equiv σ) && decide (σ' ≠ σ) && decide (wire σ' ['R'] = wire σ ['R'])
        | _ => false)
    | _ => false) = true := by decide +kernel

end Stef.Props.C13
