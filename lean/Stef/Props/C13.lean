/-
  C13 - Schema descriptions survive printing, parsing and wire serialization.
  Property theorems only; helper lemmas live in Stef/Proofs.
-/
import Stef.Proofs.SchemaDefs
import Stef.Proofs.WireSerde
import Stef.Proofs.WireOrder
import Stef.Proofs.WireEquiv
import Stef.Proofs.IdlNames
import Stef.Proofs.WireOrderRec
import Stef.Proofs.PrintInv
import Stef.Proofs.PrintRoundTrip
import Stef.Proofs.PrintFix
import Stef.Props.C12

namespace Stef.Props.C13
open Stef.Idl

/-! ### wire serialization -/

/-- `Deserialize(Serialize(w)) = w` for every wire schema within the documented limit
    (`maxStructCount` = 1024 counts, regenerated from wireschema.go), every count a uint64. -/
theorem wire_serde (w : List Nat) (hlen : w.length ≤ Stef.Gen.maxStructCount)
    (hw : ∀ c ∈ w, c < 2 ^ 64) : deserialize (serialize w) = .ok w :=
  deserialize_serialize w hlen hw

/-- a wire schema with more than 1024 counts (e.g. 1025) is refused. -/
theorem wire_serde_limit (w : List Nat) (hlen : Stef.Gen.maxStructCount < w.length)
    (h64 : w.length < 2 ^ 64) : deserialize (serialize w) = .error .limit :=
  deserialize_serialize_limit w hlen h64

/-- the serialized form is a byte string. -/
theorem wire_serialize_bytes (w : List Nat) : ∀ b ∈ serialize w, b < 256 := by
  intro b hb
  simp only [serialize, List.mem_append, List.mem_flatten, List.mem_map] at hb
  rcases hb with hb | ⟨l, ⟨c, _, rfl⟩, hb⟩
  · exact uvarint_bytes _ b hb
  · exact uvarint_bytes _ b hb

example : deserialize (serialize [6, 1, 8, 7, 3, 5, 4, 5, 5, 9, 2, 3, 2, 5, 2 ^ 64 - 1])
    = .ok [6, 1, 8, 7, 3, 5, 4, 5, 5, 9, 2, 3, 2, 5, 2 ^ 64 - 1] :=
  wire_serde _ (by decide) (by decide)

example : deserialize (serialize (List.replicate 1025 3)) = .error .limit :=
  wire_serde_limit _ (by rw [List.length_replicate]; show 1024 < 1025; omega)
    (by rw [List.length_replicate]; omega)

example : deserialize (serialize (List.replicate 1024 3)) = .ok (List.replicate 1024 3) :=
  wire_serde _ (by rw [List.length_replicate]; show 1024 ≤ 1024; omega)
    (by intro c hc; rw [List.eq_of_mem_replicate hc]; omega)

/-! ### wire order

  STATEMENT: for every accepted schema `σ` and root `r`, `initEntries σ r = wireEntries σ r`
  (`NewWireSchema` lists the struct field counts in exactly the order in which the generated
  `Init` code fetches them). Proved for ALL schemas, recursive ones included
  (Proofs/WireOrderRec: `NewWireSchema` is a DFS with a visited set for structs, `Init` a DFS
  that only cuts on its stack and fetches a struct's count at its first entry; a re-descent
  into an already fetched struct is silent). Also checked on the model for every generated
  schema (op `ws init`) and on the real generated code of otelstef (recursive `AnyValue`). -/

/-- The generated `Init` consumes exactly the entries of the wire schema, in the same order
    (and succeeds whenever `NewWireSchema` does) - recursion through structs, arrays and
    multimaps included. The side conditions hold for every schema the parser accepts:
    top-level names are unique (`parse_ok_wf`) and identifiers start with a letter, so no name
    starts with `[` (the model keys array encoders by `"[]" ++ element name`). All three are
    necessary (counterexamples `badSchema`, `badNames`, `emptyRoot` in Proofs/WireOrder). -/
theorem wire_order (σ : Schema) (root : Name)
    (hnd : σ.topNames.Nodup)
    (hs : ∀ s ∈ σ.structs, s.name.head? ≠ some '[')
    (hm : ∀ m ∈ σ.multimaps, m.name.head? ≠ some '[')
    (hroot : root ≠ []) (w : List (Name × Nat))
    (h1 : wireEntries σ root = .ok w) : initEntries σ root = .ok w :=
  init_ok_of_wire_ok_rec σ root hnd hs hm hroot w h1

/-- non-vacuity: `recSchema` (Proofs/WireOrderRec) has mutual recursion between `A` and `B`,
    recursion through arrays (`[]R`, `[]B`) and through a multimap; it is not acyclic. -/
example : initEntries recSchema ['R'] = .ok [(['R'], 4), (['A'], 1), (['B'], 3), (['C'], 0)] :=
  wire_order recSchema ['R'] (by decide) (by decide) (by decide) (by decide) _ (by decide)

example : ¬ recSchema.Acyclic := recSchema_not_acyclic

/-- For every schema ACCEPTED BY THE PARSER (recursive or not) and every root of it: the
    generated `Init` consumes exactly the wire schema entries in order. (The side conditions of
    `wire_order` are discharged: names are unique by `parse_ok_wf` and are identifiers by
    Proofs/IdlNames.) -/
theorem wire_order_parsed (t : List Char) (σ : Schema) (h : parse t = .ok σ)
    (root : Name) (hr : root ∈ σ.rootNames) (w : List (Name × Nat))
    (h1 : wireEntries σ root = .ok w) : initEntries σ root = .ok w := by
  have hn := parse_names h
  have hwf := Stef.Props.C12.parse_ok_wf t σ h
  refine wire_order σ root hwf.top_unique ?_ ?_ ?_ w h1
  · intro s hs
    exact (hn s.name (by simp [Schema.defNames]; exact Or.inl ⟨s, hs, rfl⟩)).head_ne_bracket
  · intro m hm
    exact (hn m.name (by simp [Schema.defNames]; exact Or.inr ⟨m, hm, rfl⟩)).head_ne_bracket
  · have hr' : root ∈ (σ.structs.filter (·.isRoot)).map (·.name) := hr
    simp only [List.mem_map, List.mem_filter] at hr'
    obtain ⟨s, ⟨hs, _⟩, rfl⟩ := hr'
    exact (hn s.name (by simp [Schema.defNames]; exact Or.inl ⟨s, hs, rfl⟩)).ne_nil

/-- the schema `parse` returns for the sample of C12: recursion (`A` contains `[]A`, and
    `A -> M -> []A`), an enum, dictionaries, a oneof, two roots `R`, `R2`; `U` is pruned. -/
def sampleSchema : Schema := match parse Stef.Props.C12.sample with | .ok σ => σ | _ => {}

theorem sample_parsed : parse Stef.Props.C12.sample = .ok sampleSchema := by decide +kernel

/-- non-vacuity: a parsed recursive schema and its root `R`. -/
example : initEntries sampleSchema ['R'] = .ok [(['R'], 1), (['A'], 5), (['O'], 2)] :=
  wire_order_parsed _ _ sample_parsed ['R'] (by decide +kernel) _ (by decide +kernel)

/-- non-vacuity (acyclic case): the text of `exSchema` is accepted, `R` is a root; struct `S`
    is used three times - as a field, as an array element and as a multimap value - so
    `NewWireSchema` cuts it twice and `Init` re-initialises it twice without fetching anything. -/
def exText : List Char :=
  ("package p struct R root { A S B []S M MM } struct S { X T } struct T { Y int64 } " ++
   "multimap MM { key string value S }").toList

example : initEntries { exSchema with pkg := [['p']] } ['R'] = .ok [(['R'], 3), (['S'], 1), (['T'], 1)] :=
  wire_order_parsed exText { exSchema with pkg := [['p']] } (by decide +kernel)
    ['R'] (by decide) _ (by decide)

/-- the same for the bare count lists (what is serialized). -/
theorem wire_order_counts (σ : Schema) (root : Name)
    (hnd : σ.topNames.Nodup)
    (hs : ∀ s ∈ σ.structs, s.name.head? ≠ some '[')
    (hm : ∀ m ∈ σ.multimaps, m.name.head? ≠ some '[')
    (hroot : root ≠ []) (c : List Nat)
    (h1 : wire σ root = .ok c) : initCounts σ root = .ok c := by
  unfold wire at h1
  unfold initCounts
  cases hw : wireEntries σ root with
  | error e => simp [hw, Except.map] at h1
  | ok w =>
    rw [wire_order σ root hnd hs hm hroot w hw]
    rw [hw] at h1
    exact h1

example : initCounts recSchema ['R'] = .ok [4, 1, 3, 0] :=
  wire_order_counts recSchema ['R'] (by decide) (by decide) (by decide) (by decide) _ (by decide)

/-! ### print -> parse

  FULL STATEMENT:
    `∀ t σ, parse t = .ok σ → ∃ σ', parse (prettyPrint σ) = .ok σ' ∧ σ'.Equiv σ
        ∧ ∀ r ∈ σ.rootNames, wire σ' r = wire σ r`
  (`PrintParse`). It is a THEOREM for every schema in the image of `parse`, without any excluding
  hypothesis (`print_parse`, `print_parse_safe`): the re-parsed schema is exactly `σ.norm`, the
  definitions of `σ` sorted by name.

  The three PrettyPrint defects recorded earlier (`print-array-elem-dict`, `print-enum-as-uint64`,
  `print-enum-dict-unparsable`) were repaired by commit e46c0b0; `Stef/SchemaPrint.lean`
  transcribes the repaired printer. The last exclusion (`print-empty-schema-unparsable`: without
  a root everything is pruned, and the printed form `package a` of the empty schema was rejected)
  was repaired in the parser: the declaration loop of `Parser.Parse` is now `for token != EOF`, so
  a text that consists of the package clause only is accepted (`print_parse_empty`).

  Proof structure (Stef/Proofs/Print*.lean):
    PrintInv      every accepted schema satisfies `PP` (names are lexer identifiers and not
                  keywords, dict modifiers sit where the parser accepts them, enum values are
                  uint64, package path non-empty) - invariant of lexer, grammar, ResolveRefs,
                  marking, pruning;
    PrintLex      `lex (prettyPrint σ)` has the token kinds `tkSchema σ` (lexer round trip for
                  identifiers, keywords, numbers `%d` -> ParseUint, layout);
    PrintParse    the grammar phase on these tokens rebuilds `rawSchema σ` (unresolved types);
    PrintResolve  `ResolveRefs` of that is `σ.norm` with the recursion flags cleared;
    PrintFix      re-running the recursion marking and the pruning on `σ.norm` changes nothing;
    SortNorm      sorting by name is idempotent on distinct names, so `σ.norm` is equivalent to `σ`. -/

def PrintParse : Prop :=
  ∀ (t : List Char) (σ : Schema), parse t = .ok σ →
    ∃ σ', parse (prettyPrint σ) = .ok σ' ∧ σ'.Equiv σ ∧ ∀ r ∈ σ.rootNames, wire σ' r = wire σ r

/-- The explicit well-formedness predicate behind the round trip: printable (`PP`), well-formed
    (the conclusion of C12), and recursion flags / reachability settled (re-running the two
    post-passes of `Parse` on the name-sorted schema is the identity). -/
structure PrintWF (σ : Schema) : Prop where
  pp : PP σ
  wf : σ.WF
  marks_settled : computeRecursive (unmark σ.norm) = .ok σ.norm
  prune_settled : pruneUnused σ.norm = some σ.norm

/-- every schema in the image of `parse` satisfies `PrintWF`. -/
theorem parse_printWF (t : List Char) (σ : Schema) (h : parse t = .ok σ) : PrintWF σ :=
  ⟨parse_pp h, Stef.Props.C12.parse_ok_wf t σ h, (parseTokens_fixpoint h).1,
    (parseTokens_fixpoint h).2⟩

/-- non-vacuity: the sample of C12 (enum, dictionaries on a struct, a field, a multimap key, an
    optional field, arrays, recursion, a oneof, two roots, a pruned struct). -/
example : PrintWF sampleSchema := parse_printWF _ _ sample_parsed

/-- For every schema satisfying `PrintWF` (the empty schema included), the printed text is
    accepted and parses to the same definitions, sorted by name. -/
theorem print_parse_wf (σ : Schema) (hw : PrintWF σ) :
    parse (prettyPrint σ) = .ok σ.norm :=
  parse_print_of_wf hw.pp hw.wf hw.marks_settled hw.prune_settled

example : parse (prettyPrint sampleSchema) = .ok sampleSchema.norm :=
  print_parse_wf _ (parse_printWF _ _ sample_parsed)

/-- PRINT -> PARSE ROUND TRIP: for every schema `σ` returned by `parse`,
    `parse (prettyPrint σ)` succeeds and returns exactly `σ` with its definitions sorted
    by name (same types, field order, optional flags, dictionary assignments, root and recursion
    flags). -/
theorem print_parse (t : List Char) (σ : Schema) (h : parse t = .ok σ) :
    parse (prettyPrint σ) = .ok σ.norm :=
  print_parse_wf σ (parse_printWF t σ h)

/-- non-vacuity: the sample of C12; its re-parsed form differs from it (definition order). -/
example : parse (prettyPrint sampleSchema) = .ok sampleSchema.norm :=
  print_parse _ _ sample_parsed

example : sampleSchema.norm ≠ sampleSchema := by decide +kernel

/-- the name-sorted schema is equivalent to the schema. -/
theorem norm_equiv_parsed (t : List Char) (σ : Schema) (h : parse t = .ok σ) : σ.norm.Equiv σ :=
  norm_equiv (Stef.Props.C12.parse_ok_wf t σ h).top_unique

example : sampleSchema.norm.Equiv sampleSchema := norm_equiv_parsed _ _ sample_parsed

/-- "... hence the same wire schema for every root": if the printed text re-parses to an
    equivalent schema, the wire schema of every root is unchanged. Holds for every accepted
    schema, recursive or not. (Formerly the only proved part; now a lemma of
    `print_parse_safe`.) -/
theorem print_parse_partial (t : List Char) (σ σ' : Schema) (h : parse t = .ok σ)
    (h' : parse (prettyPrint σ) = .ok σ') (he : σ'.Equiv σ) (r : Name) :
    wire σ' r = wire σ r :=
  wire_of_equiv he (Stef.Props.C12.parse_ok_wf t σ h).top_unique
    (Stef.Props.C12.parse_ok_wf _ σ' h').top_unique r

example : wire sampleSchema.norm ['R'] = wire sampleSchema ['R'] :=
  print_parse_partial _ _ _ sample_parsed (print_parse _ _ sample_parsed)
    (norm_equiv_parsed _ _ sample_parsed) _

/-- The property C13 (print/parse half), the FULL statement, for every accepted schema: the
    printed text is accepted, the result is equivalent, and the wire schema of every root is the
    same. (The name dates from when the statement needed the excluding hypothesis "at least one
    struct is left after pruning"; it no longer has one.) -/
theorem print_parse_safe : PrintParse := by
  intro t σ h
  have h' := print_parse t σ h
  have he := norm_equiv_parsed t σ h
  exact ⟨σ.norm, h', he, fun r _ => print_parse_partial t σ σ.norm h h' he r⟩

example : ∃ σ', parse (prettyPrint sampleSchema) = .ok σ' ∧ σ'.Equiv sampleSchema ∧
    ∀ r ∈ sampleSchema.rootNames, wire σ' r = wire sampleSchema r :=
  print_parse_safe _ _ sample_parsed

example : sampleSchema.rootNames = [['R'], ['R', '2']] := by decide +kernel

/-- printing is stable: the re-parsed schema prints to the same text. -/
theorem print_parse_print (t : List Char) (σ : Schema) (h : parse t = .ok σ) :
    prettyPrint σ.norm = prettyPrint σ :=
  prettyPrint_norm (Stef.Props.C12.parse_ok_wf t σ h).top_unique

example : prettyPrint sampleSchema.norm = prettyPrint sampleSchema :=
  print_parse_print _ _ sample_parsed

/-- does the text round-trip: accepted, printed text accepted, result equivalent, same wire
    schema for root `R`. (A decidable test used for the examples only.) -/
def roundTrips (t : List Char) : Bool :=
  match parse t with
  | .ok σ =>
    (match parse (prettyPrint σ) with
      | .ok σ' => decide (σ'.Equiv σ) && decide (wire σ' ['R'] = wire σ ['R'])
      | _ => false)
  | _ => false

/-- former witness of `print-array-elem-dict` (also with a second dict on a multimap key). -/
example : roundTrips "package a struct R root { F []string dict(D) }".toList = true := by
  decide +kernel
example : roundTrips ("package a struct R root { F M } " ++
    "multimap M { key []string dict(A) dict(B) value []R dict(C) }").toList = true := by
  decide +kernel
/-- former witness of `print-enum-as-uint64`. -/
example : roundTrips "package a struct R root { F E G []E } enum E { X = 1 }".toList = true := by
  decide +kernel
/-- former witness of `print-enum-dict-unparsable`. -/
example : roundTrips "package a struct R root { F E dict(D) } enum E { X = 1 }".toList = true := by
  decide +kernel

/-- Former witness of `print-empty-schema-unparsable`: without a root everything is pruned, the
    accepted schema is the empty one. -/
def wNoRoot : List Char := "package a struct R { F int64 }".toList

theorem noRoot_parsed : parse wNoRoot = .ok { pkg := [['a']] } := by decide +kernel

/-- The printed form of the empty schema is its package clause ... -/
theorem print_empty : prettyPrint { pkg := [['a']] } = "package a".toList := by decide +kernel

/-- ... and it parses to the empty schema (it used to be rejected with "expected struct, oneof or
    multimap"): the round trip holds for the class that was excluded before. -/
theorem print_parse_empty : parse (prettyPrint { pkg := [['a']] }) = .ok { pkg := [['a']] } := by
  decide +kernel

/-- non-vacuity of `print_parse` / `print_parse_safe` on that class: an accepted text whose schema
    has no struct left, through the general theorems. -/
example : parse (prettyPrint { pkg := [['a']] }) = .ok (Schema.norm { pkg := [['a']] }) :=
  print_parse _ _ noRoot_parsed

example : ∃ σ', parse (prettyPrint { pkg := [['a']] }) = .ok σ' ∧ σ'.Equiv { pkg := [['a']] } ∧
    ∀ r ∈ Schema.rootNames { pkg := [['a']] }, wire σ' r = wire { pkg := [['a']] } r :=
  print_parse_safe _ _ noRoot_parsed

example : (({ pkg := [['a']] } : Schema).structs = []) := rfl

end Stef.Props.C13
