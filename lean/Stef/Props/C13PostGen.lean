/-
  C13, print/parse half, with the schema post-processing REGENERATED from go/pkg/schema/schema.go on both parses
  (`genPostParse` of Stef/Proofs/SchemaPostGen.lean, see Stef/Props/C12PostGen.lean). Property theorems only.
-/
import Stef.Props.C13
import Stef.Proofs.SchemaPostGen

namespace Stef.Props.C13PostGen
open Stef.Idl Stef.Proofs.SchemaPostGen

/-- PRINT -> PARSE ROUND TRIP (see `C13.print_parse`) where both parses run the regenerated ResolveRefs /
    computeRecursive / PruneUnused: for every schema `σ` that `genPostParse` returns, `genPostParse (prettyPrint σ)`
    succeeds and returns `σ` with its definitions sorted by name (recursion flags included, nothing pruned). -/
theorem gen_post_print_parse (t : List Char) (σ : Schema) (h : genPostParse t = .ok σ) :
    genPostParse (prettyPrint σ) = .ok σ.norm := by
  rw [genPostParse_eq] at h ⊢
  exact C13.print_parse t σ h

/-- non-vacuity: the sample of C12 is accepted through the regenerated post-processing. -/
example : genPostParse Stef.Props.C12.sample = .ok C13.sampleSchema := by
  rw [genPostParse_eq]; exact C13.sample_parsed

end Stef.Props.C13PostGen
