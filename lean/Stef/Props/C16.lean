/-
  C16 - Record ids advance in lockstep and acknowledgements never run ahead.

  "Writer and reader record counters advance in lockstep: after n records written and read both
   report n. A receiver acknowledges id k only after every record up to k was decoded and either
   accepted by the next consumer or reported in a bad-data range; acknowledged ids never decrease;
   and a batch the consumer rejects permanently is reported exactly once, with an id range covering
   exactly that batch, while the stream continues."

  Property theorems only; the model is Stef/Receiver.lean (onStream + Responder.Run as written),
  helper lemmas live in Stef/Proofs/Receiver.lean. All statements quantify over every event list
  from the initial state, i.e. over every interleaving of the decoding loop, the Responder's
  selects (outer: bad-data / tick / stop; inner, in the tick branch: bad-data / default) and the
  response stream, every sequence of consumer outcomes, every batch size and every point at which
  SendDataResponse starts failing.

  History: the code used to violate three clauses (confirmed on the real code by h_recv, signatures
  `bad-range-off-by-one`, repaired by fix commit 3f3aa6e; `ack-before-bad-report` and `ack-regress`,
  repaired by fix commit 3888867). Before 3888867 this file proved the NEGATION of `AckAfterConsume`
  and `AckMonotone` from a race run and `_partial` versions under the hypothesis "no tick fires
  while bad data waits in the channel" (`TickClean`). With the tick branch as written now (load the
  id, report pending bad data, only then acknowledge; never lower the acknowledged id) both hold in
  EVERY run and are proved below at full strength, as invariants of the LTS.
-/
import Stef.Proofs.Receiver

namespace Stef.Props.C16
open Stef.Receiver

/-! ## lockstep of the record counters -/

/-- After any sequence of `Write`, `Flush` (or frame restart) and successful `Read` calls the
    writer's `RecordCount()` is the number of writes, the reader's `RecordCount()` is the number
    of reads, and the reader never runs ahead of the writer. -/
theorem lockstep (evs : List Lockstep.Ev) (s : Lockstep.LS) (h : Lockstep.run {} evs = some s) :
    s.wCount = Lockstep.writes evs ∧ s.rCount = Lockstep.reads evs ∧ s.rCount ≤ s.wCount := by
  obtain ⟨h1, h2, h3⟩ := Lockstep.run_inv evs {} s h (by simp [Lockstep.total])
  refine ⟨by simpa using h2, by simpa using h3, ?_⟩
  simp only [Lockstep.total] at h1; omega

/-- ... in particular after n records written and n read both report n. -/
theorem lockstep_n (evs : List Lockstep.Ev) (s : Lockstep.LS) (n : Nat)
    (h : Lockstep.run {} evs = some s) (hw : Lockstep.writes evs = n) (hr : Lockstep.reads evs = n) :
    s.wCount = n ∧ s.rCount = n := by
  obtain ⟨h1, h2, _⟩ := lockstep evs s h
  omega

/-- non-vacuity: 3 writes in two frames, 3 reads. -/
example : ∃ s, Lockstep.run {} [.write, .write, .flush, .read, .write, .flush, .read, .read] = some s ∧
    s.wCount = 3 ∧ s.rCount = 3 := ⟨_, rfl, rfl, rfl⟩

/-! ## the schedule that used to break two clauses

  `h_recv` case resp-race-* / onstream-race-*: batch 1 (ids 1..2) accepted and acknowledged; batch 2
  (ids 3..4) permanently rejected and put into the channel; batch 3 (ids 5..10) accepted; then the
  ticker fires while the bad data is still waiting. Before fix 3888867 the tick branch answered
  `ack=10` and the bad-data branch afterwards `ack=4 ranges=[3,4]`. Now the tick branch loads 10,
  takes the bad data out of the channel, sends `ack=4 ranges=[3,4]` and only then `ack=10`. -/
def raceRun : List Event :=
  [.checkErr, .decode 2, .consume .accept, .schedAck, .tick, .tickNoBad, .tickAck, .sendOk,
   .checkErr, .decode 2, .consume .perm, .schedBad,
   .checkErr, .decode 6, .consume .accept, .schedAck,
   .tick, .badRecv, .badDone, .sendOk, .tickAck, .sendOk]

/-- the same batches with the bad-data branch of the outer select taken before the next tick. -/
def cleanRun : List Event :=
  [.checkErr, .decode 2, .consume .accept, .schedAck, .tick, .tickNoBad, .tickAck, .sendOk,
   .checkErr, .decode 3, .consume .perm, .schedBad, .badRecv, .badDone, .sendOk,
   .checkErr, .decode 1, .consume .accept, .schedAck, .tick, .tickNoBad, .tickAck, .sendOk]

/-- the old order of responses is not a run any more: with bad data waiting, the tick branch
    cannot take the `default:` of its inner select. -/
example : ∃ s, run init (raceRun.take 17) = some s ∧ s.qpc = .loaded 10 ∧ s.queue = [(3, 4)] ∧
    step s .tickNoBad = none := ⟨_, rfl, rfl, by decide, rfl⟩

instance (s : State) (a : Nat) : Decidable (Covered s a) := by unfold Covered; infer_instance

/-- AckRecordId of the response sent last -/
def sentAck (s : State) : Nat := ((s.resps.head?).map (·.ack)).getD 0

/-! ## acknowledgements never run ahead -/

/-- FULL statement: whenever a response is sent successfully, its AckRecordId `k` is covered:
    every record up to `k` was decoded and its batch accepted, or rejected permanently and
    reported in a bad-data range of a response sent so far (this response included). -/
def AckAfterConsume : Prop :=
  ∀ evs s s', run init evs = some s → step s .sendOk = some s' → Covered s' (sentAck s')

/-- It holds in every run (it was false before fix 3888867). -/
theorem ack_after_consume : AckAfterConsume := by
  intro evs s s' hrun hstep
  obtain ⟨hi, ht⟩ := invA_run evs init s inv_init invA_init hrun
  obtain ⟨r, rest, hr, _, _, hc⟩ := covered_sendOk hi ht (step_sound hstep)
  simpa [sentAck, hr] using hc

/-- non-vacuity: in `raceRun` the last `sendOk` acknowledges id 10 with the range of the rejected
    batch (ids 3..4) already sent; `Covered` is not trivially true: the same state does not cover
    id 10 when the report is taken away. -/
example : ∃ s s', run init (raceRun.take 21) = some s ∧ step s .sendOk = some s' ∧ sentAck s' = 10 ∧
    reportedOk s' = [(3, 4)] ∧ Covered s' 10 ∧ ¬ Covered { s' with resps := [] } 10 :=
  ⟨_, _, rfl, rfl, rfl, by decide, by decide, by decide⟩

/-- The same per record id: at the moment a response with AckRecordId `k` is sent successfully,
    every id `1 .. k` belongs to a batch of the stream that the consumer has accepted, or has
    rejected permanently and whose exact range is in a successfully sent response (this one or an
    earlier one). -/
theorem ack_after_consume_ids :
    ∀ evs s s', run init evs = some s → step s .sendOk = some s' → CoveredIds s' (sentAck s') := by
  intro evs s s' hrun hstep
  have hi' := inv_run (evs ++ [.sendOk]) init s' inv_init (by simp [run_append, hrun, run, hstep])
  exact coveredIds_of_covered hi'.chain (ack_after_consume evs s s' hrun hstep)

example : ∃ s s', run init (raceRun.take 19) = some s ∧ step s .sendOk = some s' ∧ sentAck s' = 4 ∧
    (⟨2, 4, .perm⟩ : Batch) ∈ s'.batches ∧ (⟨2, 4, .perm⟩ : Batch).has 3 ∧
    (⟨2, 4, .perm⟩ : Batch).exactRange ∈ reportedOk s' :=
  ⟨_, _, rfl, rfl, rfl, by decide, by simp [Batch.has], by decide⟩

/-- Over the whole history of a run: "acknowledged id k implies every record up to k was accepted
    or reported in a bad-data range sent no later than that ack". Precisely (`AckHistory`, in
    Stef/Receiver.lean): split the list of SendDataResponse calls of the reached state, oldest first,
    at any successfully sent response `r`, `s.resps.reverse = pre ++ r :: post`; then every record
    id `1 ≤ i ≤ r.ack` lies in a batch of the stream which the consumer accepted, or rejected
    permanently and whose exact id range is a bad-data range of a successfully sent response among
    `pre ++ [r]`. (That the batch was already accepted / rejected when `r` was sent is
    `ack_after_consume`, which speaks about the state right after the send.) -/
theorem ack_history : ∀ evs s, run init evs = some s → AckHistory s := by
  intro evs s hrun
  obtain ⟨hi, ht, hh⟩ := invH_run evs init s inv_init invA_init invH_init hrun
  exact ackHistory_of_inv hi ht hh

/-- non-vacuity: `raceRun` ends with the history ack=2, ack=4 [3,4], ack=10; the report of the
    rejected batch precedes the acknowledgement of id 10, and `AckHistory` is refuted by the old
    order of the same responses. -/
example : ∃ s, run init raceRun = some s ∧
    s.resps.reverse = [⟨2, [], true⟩, ⟨4, [(3, 4)], true⟩, ⟨10, [], true⟩] ∧
    ¬ AckHistory { s with resps := [⟨4, [(3, 4)], true⟩, ⟨10, [], true⟩, ⟨2, [], true⟩] } := by
  refine ⟨_, rfl, by decide, ?_⟩
  intro h
  obtain ⟨b, hb, hhas, hout⟩ := h [⟨2, [], true⟩] ⟨10, [], true⟩ [⟨4, [(3, 4)], true⟩] (by decide) rfl 3
    (by omega) (by decide)
  have hb' : b = ⟨4, 10, .accept⟩ ∨ b = ⟨2, 4, .perm⟩ ∨ b = ⟨0, 2, .accept⟩ := by
    have : b ∈ [(⟨4, 10, .accept⟩ : Batch), ⟨2, 4, .perm⟩, ⟨0, 2, .accept⟩] := hb
    simpa using this
  rcases hb' with rfl | rfl | rfl
  · simp [Batch.has] at hhas
  · revert hout; decide
  · simp [Batch.has] at hhas

/-- The acknowledged id never exceeds what was decoded, in every run. -/
theorem ack_le_decoded :
    ∀ evs s s', run init evs = some s → step s .sendOk = some s' → sentAck s' ≤ s'.decoded := by
  intro evs s s' hrun hstep
  have hi := inv_run evs init s inv_init hrun
  have hs := step_sound hstep
  cases hs
  case sendOk a rs bad k hq hb =>
    have := sendAck_le hi hq
    have := low_le_of_chain _ _ hi.chain
    simp [sentAck]; omega

example : ∃ s s', run init (raceRun.take 21) = some s ∧ step s .sendOk = some s' ∧ sentAck s' = 10 ∧
    s'.decoded = 10 := ⟨_, _, rfl, rfl, rfl, rfl⟩

/-! ## acknowledged ids never decrease -/

/-- FULL statement. -/
def AckMonotone : Prop := ∀ evs s, run init evs = some s → (acks s).Pairwise (· ≤ ·)

/-- It holds in every run (it was false before fix 3888867: ids 2, 10, 4). -/
theorem ack_monotone : AckMonotone := by
  intro evs s hrun
  exact (invA_run evs init s inv_init invA_init hrun).2.sorted

example : (∃ s, run init raceRun = some s ∧ acks s = [2, 4, 10]) ∧
    ∃ s, run init cleanRun = some s ∧ acks s = [2, 5, 6] ∧ reportedOk s = [(3, 5)] :=
  ⟨⟨_, rfl, by decide⟩, _, rfl, by decide, by decide⟩

/-- `lastAckedID` of Run never decreases either, step by step. -/
theorem last_acked_monotone :
    ∀ evs s e s', run init evs = some s → step s e = some s' → s.lastAcked ≤ s'.lastAcked := by
  intro evs s e s' hrun hstep
  obtain ⟨hi, ht⟩ := invA_run evs init s inv_init invA_init hrun
  have hs := step_sound hstep
  cases hs
  case tickAckSend rd hq hgt => simp; omega
  case sendOk a rs bad k hq hb =>
    have := sendAck_ge hi ht hq
    simp; split <;> omega
  all_goals exact Nat.le_refl _

example : ∃ s s', run init (raceRun.take 20) = some s ∧ step s .tickAck = some s' ∧
    s.lastAcked = 4 ∧ s'.lastAcked = 10 := ⟨_, _, rfl, rfl, rfl, rfl⟩

/-- `if response.AckRecordId < lastAckedID { response.AckRecordId = lastAckedID }` in
    sendBadDataResponse is purely defensive: in every reachable state the id composed from the
    collected ranges is already above `lastAckedID`, so `badDone` never changes it. -/
theorem bad_ack_never_clamped :
    ∀ evs s a rs k, run init evs = some s → s.qpc = .composing a rs k → s.lastAcked < a := by
  intro evs s a rs k hrun hq
  obtain ⟨hi, ht⟩ := invA_run evs init s inv_init invA_init hrun
  exact composed_gt hi ht hq

example : ∃ s, run init (raceRun.take 18) = some s ∧ s.qpc = .composing 4 [(3, 4)] (some 10) ∧
    s.lastAcked = 2 := ⟨_, rfl, rfl, rfl⟩

/-! ## a permanently rejected batch is reported exactly once, with exactly its range

  Before fix commit 3f3aa6e onStream reported `[RecordCount() before the batch, RecordCount() after]`,
  one id too many at the lower end (known finding `bad-range-off-by-one`, now `fixed:`); the model
  then proved the negation of this statement. With `FromID: fromRecordID + 1` it holds in EVERY run. -/

/-- In every run, every permanently rejected batch occurs exactly once - as the inclusive range of
    exactly its records, `from_+1 .. to` - among the ranges put into responses plus those still on
    their way (so it is never reported twice and never dropped while the stream lives), that range
    covers precisely the record ids of the batch, and nothing else is ever reported. -/
theorem bad_batch_once_exact :
    ∀ evs s, run init evs = some s →
      (∀ b ∈ s.batches, b.out = .perm →
        (reported s ++ pendingBad s).count b.exactRange = 1 ∧
        (∀ i, covers b.exactRange i ↔ b.has i)) ∧
      (∀ x ∈ reported s ++ pendingBad s, ∃ b ∈ s.batches, b.out = .perm ∧ x = b.exactRange) := by
  intro evs s hrun
  have hi := inv_run evs init s inv_init hrun
  refine ⟨?_, ?_⟩
  · intro b hb hp
    refine ⟨?_, ?_⟩
    · rw [hi.ledger]; exact count_permRanges _ _ hi.chain b hb hp
    · intro i
      simp only [covers, Batch.exactRange, Batch.has]
      omega
  · intro x hx
    rw [hi.ledger] at hx
    exact of_mem_permRanges hx

/-- non-vacuity: in `raceRun` the rejected batch (ids 3..4) is reported once, as [3,4]; id 2, the
    last record of the accepted first batch, is not covered. -/
example : ∃ s, run init raceRun = some s ∧ reported s = [(3, 4)] ∧ pendingBad s = [] ∧
    (⟨2, 4, .perm⟩ : Batch) ∈ s.batches ∧ (⟨0, 2, .accept⟩ : Batch).has 2 ∧ ¬ covers (3, 4) 2 :=
  ⟨_, rfl, by decide, by decide, by decide, by simp [Batch.has], by simp [covers]⟩

/-- Whatever waits is eventually reported: from a state with bad data in the channel and the
    Responder idle, the bad-data branch of the select is enabled and puts the head of the channel
    into the next response. -/
theorem bad_data_gets_reported :
    ∀ evs s h tl, run init evs = some s → s.queue = h :: tl → s.qpc = .idle →
      ∃ s', step s .badRecv = some s' ∧ h ∈ inflight s' := by
  intro evs s h tl _ hq hidle
  exact ⟨{ s with queue := tl, qpc := .composing h.2 [h] none }, by simp [step, hq, hidle],
    by simp [inflight, QPc.infl]⟩

example : ∃ s, run init (raceRun.take 16) = some s ∧ s.queue = [(3, 4)] ∧ s.qpc = .idle :=
  ⟨_, rfl, by decide, by decide⟩

/-- ... and the same inside the tick branch: after the load, the inner select takes it. -/
theorem bad_data_gets_reported_tick :
    ∀ evs s rd h tl, run init evs = some s → s.queue = h :: tl → s.qpc = .loaded rd →
      step s .tickNoBad = none ∧ ∃ s', step s .badRecv = some s' ∧ h ∈ inflight s' ∧ s'.qpc.rd = some rd := by
  intro evs s rd h tl _ hq hl
  exact ⟨by simp [step, hq, hl],
    { s with queue := tl, qpc := .composing h.2 [h] (some rd) }, by simp [step, hq, hl],
    by simp [inflight, QPc.infl], by simp [QPc.rd]⟩

example : ∃ s, run init (raceRun.take 17) = some s ∧ s.queue = [(3, 4)] ∧ s.qpc = .loaded 10 :=
  ⟨_, rfl, by decide, by decide⟩

/-! ## the stream continues after a permanent error -/

/-- A permanent consumer error neither requests a stop nor leaves the loop ... -/
theorem perm_error_keeps_stream :
    ∀ evs s s', run init evs = some s → step s (.consume .perm) = some s' →
      s'.stopReq = s.stopReq ∧ ∃ f t, s'.rpc = .needBad f t := by
  intro evs s s' _ hstep
  have hs := step_sound hstep
  cases hs
  case consumePerm b bs hr hb => exact ⟨rfl, _, _, rfl⟩

/-- ... and from every reachable state in which the loop holds a rejected batch, at most four
    Responder events make room in the channel (one, unless a send is in progress), after which the loop schedules the bad data,
    checks `LastError` and is reading the next batch again (any batch size is then enabled) - unless
    RESPONDING has failed, which is the only reason for it to leave. -/
theorem stream_continues :
    ∀ evs s f t, run init evs = some s → s.rpc = .needBad f t →
      ∃ pre s', pre.length ≤ 4 ∧ run s (pre ++ [.schedBad, .checkErr]) = some s' ∧
        (s'.rpc = .await ∨ (s'.rpc = .exited ∧ s'.lastError = true)) ∧
        (s'.rpc = .await → ∀ n, 0 < n → (step s' (.decode n)).isSome) := by
  intro evs s f t hrun hr
  have hi := inv_run evs init s inv_init hrun
  obtain ⟨pre, s', hlen, hrun', hres⟩ := continues_of_inv hi hr
  refine ⟨pre, s', hlen, hrun', hres, ?_⟩
  intro ha n hn
  have : n ≠ 0 := by omega
  simp [step, ha, this]

/-- non-vacuity: after the rejected batch of `raceRun` the loop decodes and delivers batch 3. -/
example : ∃ s, run init (raceRun.take 11) = some s ∧ s.rpc = .needBad 3 4 ∧
    ∃ s', run s [.schedBad, .checkErr, .decode 6, .consume .accept] = some s' ∧ s'.decoded = 10 :=
  ⟨_, rfl, rfl, _, rfl, rfl⟩

end Stef.Props.C16
