/-
  C16 - Record ids advance in lockstep and acknowledgements never run ahead.

  "Writer and reader record counters advance in lockstep: after n records written and read both
   report n. A receiver acknowledges id k only after every record up to k was decoded and either
   accepted by the next consumer or reported in a bad-data range; acknowledged ids never decrease;
   and a batch the consumer rejects permanently is reported exactly once, with an id range covering
   exactly that batch, while the stream continues."

  Property theorems only; the model is Stef/Receiver.lean (onStream + Responder.Run as written),
  helper lemmas live in Stef/Proofs/Receiver.lean. All statements quantify over every event list
  from the initial state, i.e. over every interleaving of the decoding loop, the Responder's
  select (bad-data / tick / stop) and the response stream, every sequence of consumer outcomes,
  every batch size and every point at which SendDataResponse starts failing.

  The code as written violates two clauses (confirmed on the real code by h_recv, signatures
  `ack-before-bad-report`, `ack-regress`; a third one, `bad-range-off-by-one`, was repaired by fix
  commit 3f3aa6e and its clause is now proved at full strength). For those the full statement is
  kept and its NEGATION is proved from a concrete run; the `_partial` theorem carries the excluding
  hypothesis explicitly.
-/
import Stef.Proofs.Receiver

namespace Stef.Props.C16
open Stef.Receiver

/-! ## lockstep of the record counters -/

/-- After any sequence of `Write`, `Flush` (or frame restart) and successful `Read` calls the
    writer's `RecordCount()` is the number of writes, the reader's `RecordCount()` is the number
    of reads, and the reader never runs ahead of the writer. -/
theorem lockstep (evs : List Lockstep.Ev) (s : Lockstep.LS) (h : Lockstep.run {} evs = some s) :
    s.wCount = Lockstep.writes evs ∧ s.rCount = Lockstep.reads evs ∧ s.rCount ≤ s.wCount := by
  obtain ⟨h1, h2, h3⟩ := Lockstep.run_inv evs {} s h (by simp [Lockstep.total])
  refine ⟨by simpa using h2, by simpa using h3, ?_⟩
  simp only [Lockstep.total] at h1; omega

/-- ... in particular after n records written and n read both report n. -/
theorem lockstep_n (evs : List Lockstep.Ev) (s : Lockstep.LS) (n : Nat)
    (h : Lockstep.run {} evs = some s) (hw : Lockstep.writes evs = n) (hr : Lockstep.reads evs = n) :
    s.wCount = n ∧ s.rCount = n := by
  obtain ⟨h1, h2, _⟩ := lockstep evs s h
  omega

/-- non-vacuity: 3 writes in two frames, 3 reads. -/
example : ∃ s, Lockstep.run {} [.write, .write, .flush, .read, .write, .flush, .read, .read] = some s ∧
    s.wCount = 3 ∧ s.rCount = 3 := ⟨_, rfl, rfl, rfl⟩

/-! ## the run observed on the real code that breaks two clauses

  `h_recv` case resp-race-3 / onstream-race-*: responses `ack=2`, `ack=10`, then
  `ack=4 ranges=[3,4]` (`[2,4]` before fix 3f3aa6e). Batch 1 (ids 1..2) accepted and acknowledged; batch 2 (ids 3..4) permanently
  rejected and put into the channel; batch 3 (ids 5..10) accepted; Run's select takes the tick
  branch first (ack 10) and only then the bad-data branch (ack 4). -/
def raceRun : List Event :=
  [.checkErr, .decode 2, .consume .accept, .schedAck, .tick, .sendOk,
   .checkErr, .decode 2, .consume .perm, .schedBad,
   .checkErr, .decode 6, .consume .accept, .schedAck,
   .tick, .sendOk, .badRecv, .badDone, .sendOk]

/-- a run in which no tick fires while bad data waits: accepted, rejected, accepted, with the
    bad-data branch taken before the next tick. -/
def cleanRun : List Event :=
  [.checkErr, .decode 2, .consume .accept, .schedAck, .tick, .sendOk,
   .checkErr, .decode 3, .consume .perm, .schedBad, .badRecv, .badDone, .sendOk,
   .checkErr, .decode 1, .consume .accept, .schedAck, .tick, .sendOk]

instance decTickClean : (s : State) → (evs : List Event) → Decidable (TickClean s evs)
  | _, [] => isTrue trivial
  | s, e :: es =>
    match h : step s e with
    | some s' =>
      have := decTickClean s' es
      decidable_of_iff ((e = .tick → s.queue = []) ∧ TickClean s' es) (by simp [TickClean, h])
    | none => decidable_of_iff (e = .tick → s.queue = []) (by simp [TickClean, h])

instance (s : State) (a : Nat) : Decidable (Covered s a) := by unfold Covered; infer_instance

/-- AckRecordId of the response sent last -/
def sentAck (s : State) : Nat := ((s.resps.head?).map (·.ack)).getD 0

/-! ## acknowledgements never run ahead -/

/-- FULL statement: whenever a response is sent successfully, its AckRecordId `k` is covered:
    every record up to `k` was decoded and its batch accepted, or rejected permanently and
    reported in a bad-data range of a response sent so far. -/
def AckAfterConsume : Prop :=
  ∀ evs s s', run init evs = some s → step s .sendOk = some s' → Covered s' (sentAck s')

/-- The code as written violates it: the tick branch acknowledges id 10 while the rejected batch
    (ids 3..4) is still waiting in `badDataCh`. -/
theorem ack_after_consume_false : ¬ AckAfterConsume := by
  intro h
  have := h (raceRun.take 15) ((run init (raceRun.take 15)).getD init)
    (((run init (raceRun.take 16))).getD init) (by decide) (by decide)
  revert this
  decide

/-- It holds for every run in which no tick fires while bad data waits in the channel. -/
theorem ack_after_consume_partial :
    ∀ evs s s', run init evs = some s → TickClean init evs → step s .sendOk = some s' →
      Covered s' (sentAck s') := by
  intro evs s s' hrun hclean hstep
  obtain ⟨hi, ht⟩ := invT_run evs init s inv_init invT_init hclean hrun
  obtain ⟨r, rest, hr, _, hc⟩ := covered_sendOk hi ht (step_sound hstep)
  simpa [sentAck, hr] using hc

/-- non-vacuity: `cleanRun` satisfies the hypothesis, acknowledges ids 2, 5, 6 and reports a range. -/
example : TickClean init cleanRun ∧
    ∃ s, run init cleanRun = some s ∧ acks s = [2, 5, 6] ∧ reportedOk s = [(3, 5)] :=
  ⟨by decide, _, rfl, by decide, by decide⟩

/-- The acknowledged id never exceeds what was decoded, in EVERY run (this half needs no hypothesis). -/
theorem ack_le_decoded :
    ∀ evs s s', run init evs = some s → step s .sendOk = some s' → sentAck s' ≤ s'.decoded := by
  intro evs s s' hrun hstep
  have hi := inv_run evs init s inv_init hrun
  have hs := step_sound hstep
  cases hs
  case sendOk a rs bad hq hb =>
    have := sendAck_le hi hq
    have := low_le_of_chain _ _ hi.chain
    simp [sentAck]; omega

example : ∃ s s', run init (raceRun.take 15) = some s ∧ step s .sendOk = some s' ∧ sentAck s' = 10 ∧
    s'.decoded = 10 := ⟨_, _, rfl, rfl, rfl, rfl⟩

/-! ## acknowledged ids never decrease -/

/-- FULL statement. -/
def AckMonotone : Prop := ∀ evs s, run init evs = some s → (acks s).Pairwise (· ≤ ·)

/-- The code as written violates it: ids 2, 10, 4 are acknowledged in this order. -/
theorem ack_monotone_false : ¬ AckMonotone := by
  intro h
  have := h raceRun ((run init raceRun).getD init) (by decide)
  revert this
  decide

example : ∃ s, run init raceRun = some s ∧ acks s = [2, 10, 4] := ⟨_, rfl, by decide⟩

/-- It holds for every run in which no tick fires while bad data waits in the channel. -/
theorem ack_monotone_partial :
    ∀ evs s, run init evs = some s → TickClean init evs → (acks s).Pairwise (· ≤ ·) := by
  intro evs s hrun hclean
  exact (invT_run evs init s inv_init invT_init hclean hrun).2.sorted

example : TickClean init cleanRun ∧ ∃ s, run init cleanRun = some s ∧ acks s = [2, 5, 6] :=
  ⟨by decide, _, rfl, by decide⟩

/-! ## a permanently rejected batch is reported exactly once, with exactly its range

  Before fix commit 3f3aa6e onStream reported `[RecordCount() before the batch, RecordCount() after]`,
  one id too many at the lower end (known finding `bad-range-off-by-one`, now `fixed:`); the model
  then proved the negation of this statement. With `FromID: fromRecordID + 1` it holds in EVERY run. -/

/-- In every run, every permanently rejected batch occurs exactly once - as the inclusive range of
    exactly its records, `from_+1 .. to` - among the ranges put into responses plus those still on
    their way (so it is never reported twice and never dropped while the stream lives), that range
    covers precisely the record ids of the batch, and nothing else is ever reported. -/
theorem bad_batch_once_exact :
    ∀ evs s, run init evs = some s →
      (∀ b ∈ s.batches, b.out = .perm →
        (reported s ++ pendingBad s).count b.exactRange = 1 ∧
        (∀ i, covers b.exactRange i ↔ b.has i)) ∧
      (∀ x ∈ reported s ++ pendingBad s, ∃ b ∈ s.batches, b.out = .perm ∧ x = b.exactRange) := by
  intro evs s hrun
  have hi := inv_run evs init s inv_init hrun
  refine ⟨?_, ?_⟩
  · intro b hb hp
    refine ⟨?_, ?_⟩
    · rw [hi.ledger]; exact count_permRanges _ _ hi.chain b hb hp
    · intro i
      simp only [covers, Batch.exactRange, Batch.has]
      omega
  · intro x hx
    rw [hi.ledger] at hx
    exact of_mem_permRanges hx

/-- non-vacuity: in `raceRun` the rejected batch (ids 3..4) is reported once, as [3,4]; id 2, the
    last record of the accepted first batch, is not covered. -/
example : ∃ s, run init raceRun = some s ∧ reported s = [(3, 4)] ∧ pendingBad s = [] ∧
    (⟨2, 4, .perm⟩ : Batch) ∈ s.batches ∧ (⟨0, 2, .accept⟩ : Batch).has 2 ∧ ¬ covers (3, 4) 2 :=
  ⟨_, rfl, by decide, by decide, by decide, by simp [Batch.has], by simp [covers]⟩

/-- Whatever waits is eventually reported: from a state with bad data in the channel and the
    Responder idle, the bad-data branch of the select is enabled and puts the head of the channel
    into the next response. -/
theorem bad_data_gets_reported :
    ∀ evs s h tl, run init evs = some s → s.queue = h :: tl → s.qpc = .idle →
      ∃ s', step s .badRecv = some s' ∧ h ∈ inflight s' := by
  intro evs s h tl _ hq hidle
  exact ⟨{ s with queue := tl, qpc := .composing h.2 [h] }, by simp [step, hq, hidle], by simp [inflight]⟩

example : ∃ s, run init (raceRun.take 16) = some s ∧ s.queue = [(3, 4)] ∧ s.qpc = .idle :=
  ⟨_, rfl, by decide, by decide⟩

/-! ## the stream continues after a permanent error -/

/-- A permanent consumer error neither requests a stop nor leaves the loop ... -/
theorem perm_error_keeps_stream :
    ∀ evs s s', run init evs = some s → step s (.consume .perm) = some s' →
      s'.stopReq = s.stopReq ∧ ∃ f t, s'.rpc = .needBad f t := by
  intro evs s s' _ hstep
  have hs := step_sound hstep
  cases hs
  case consumePerm b bs hr hb => exact ⟨rfl, _, _, rfl⟩

/-- ... and from every reachable state in which the loop holds a rejected batch, at most two
    Responder events make room in the channel, after which the loop schedules the bad data,
    checks `LastError` and is reading the next batch again (any batch size is then enabled) - unless
    RESPONDING has failed, which is the only reason for it to leave. -/
theorem stream_continues :
    ∀ evs s f t, run init evs = some s → s.rpc = .needBad f t →
      ∃ pre s', pre.length ≤ 2 ∧ run s (pre ++ [.schedBad, .checkErr]) = some s' ∧
        (s'.rpc = .await ∨ (s'.rpc = .exited ∧ s'.lastError = true)) ∧
        (s'.rpc = .await → ∀ n, 0 < n → (step s' (.decode n)).isSome) := by
  intro evs s f t hrun hr
  have hi := inv_run evs init s inv_init hrun
  obtain ⟨pre, s', hlen, hrun', hres⟩ := continues_of_inv hi hr
  refine ⟨pre, s', hlen, hrun', hres, ?_⟩
  intro ha n hn
  have : n ≠ 0 := by omega
  simp [step, ha, this]

/-- non-vacuity: after the rejected batch of `raceRun` the loop decodes and delivers batch 3. -/
example : ∃ s, run init (raceRun.take 9) = some s ∧ s.rpc = .needBad 3 4 ∧
    ∃ s', run s [.schedBad, .checkErr, .decode 6, .consume .accept] = some s' ∧ s'.decoded = 10 :=
  ⟨_, rfl, rfl, _, rfl, rfl⟩

end Stef.Props.C16
