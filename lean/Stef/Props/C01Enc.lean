/-
  C01 / C02 / C10 - the schema-generic ENCODER (Stef/SpecEnc.lean) and the specification decoder
  (Stef/Spec.lean) are inverse to each other: what `encodeNode` appends to the columns is decoded
  by `decodeNode` back to the value, the decoder ends in exactly the encoder's state, and a whole
  stream assembled from the encoder's output is decoded by `Spec.decodeStream` to the records.

  All statements are for every schema `σ`, every node (every decoder tree, built by `mkNode` or not),
  every environment of enclosing nodes (recursive schemas), every previous value, every column /
  dictionary state, every new value and every mark tree, every fuel. Everything is PROVED (no
  statement is left open); the hypotheses are of the form "the encoder returned `some ..`": the
  encoder returns `none` when the value does not fit the node or the marks, when a number does not
  fit its wire field, or when a decidable side condition of the frame layout fails.

    encode_decode_node    encodeNode .. = some (evs, ds', eff)  →  decodeNode .. (feed evs ds) = ok (eff, ds')
                          all node kinds: primitives (bool, int64/uint64 delta-of-delta, float64
                          Gorilla, string/bytes with and without dictionary), structs (modified
                          mask, optional fields and presence bits, fields beyond the kept count),
                          dictionary structs (RefNum and full encoding with admission), oneofs,
                          arrays, multimaps (unchanged / full / values-only), recursion.
    encode_decode_node_framed   the same with arbitrary further column data `tail` behind it (in any
                          column, the node's own included): the decoder consumes exactly what the
                          encoder appended ("frame rule").
    roundtrip_node        with SOUND marks the decoded value is the new value.
    encode_decode_records / roundtrip_records   any number of records one after the other.
    feed_columns          `feed evs ds` is `ds` with every column's input prefixed by that column's
                          concatenated output: the event list is only a device, the decoder sees
                          the per-column data that a frame stores.
    encoder_ignores_inputs   the encoder never reads the input side of the state (frame rule, strong form).
    frame_cols_roundtrip / frames_cols_roundtrip   frames with restart flags at the column level.
    loadColumns_only_inputs, stream_frames_roundtrip_partial   the frame loop of `Spec.decodeStream`
                          itself, for frames whose bytes parse into columns carrying the events.
    size_table_roundtrip, frameContent_carries_events   the frame container: `readSizes` reads what
                          `writeSizes` wrote; `loadColumns` slices the laid-out column data.
    mkNode_tree_ok        trees built by `mkNode` number their columns consecutively (the structural
                          part of the side conditions `frameOk` holds for them).
    stream_roundtrip      the FULL statement: `decodeStream σ root bytes` of every stream
                          `encodeStream` produces returns exactly the effective records, no error,
                          no dictionary violation.

  `eff` is the EFFECTIVE value: what a reader that held `prev` holds afterwards. Marks are sound
  for (prev, new) iff `eff = new` (`SoundMarks`); with unsound marks the theorems still say what the
  reader sees (`unsound_marks_example`: the C01 finding family "marks relative to the current
  instead of the last encoded value" has exactly this shape).

  Limits of what is covered: `encodeStream` writes uncompressed streams without wire schema and
  user data in the var header; `SoundMarks` is defined through the encoder (an independent
  characterisation "marks ⊇ difference" is not given: the previous values of sub-positions depend
  on the node and on the evolving dictionaries); that the encoder ACCEPTS every well-typed value
  with well-formed marks (totality) is not a theorem - it is exercised by `se reencode` on every
  stream of the harnesses, where the encoder must reproduce the real writer's bytes.
-/
import Stef.Proofs.SpecEncStream
import Stef.Proofs.SpecEncTree

namespace Stef.Props.C01Enc
open Stef Stef.Spec Stef.SpecEnc

/-- **encode_decode_node_framed** (all node kinds; `tail` = whatever is written to the columns
    afterwards). -/
theorem encode_decode_node_framed (σ : Schema) (fuel : Nat) (env : List (String × Node)) (n : Node)
    (prev new : St) (mk : Mk) (ds : DS) (evs : List Ev) (ds' : DS) (eff : St) (tail : List Ev)
    (h : encodeNode σ fuel env n prev new mk ds = some (evs, ds', eff)) :
    decodeNode σ fuel env n prev (feed (evs ++ tail) ds) = .ok (eff, feed tail ds') :=
  (roundtrip_all σ fuel).1 env n prev new mk ds evs ds' eff tail h

/-- **encode_decode_node**: the decoder reads back the effective value from exactly the appended
    data and ends in the encoder's state (codec state of every column, string and struct
    dictionaries, dictionary payload counters; no dictionary violation is counted). -/
theorem encode_decode_node (σ : Schema) (fuel : Nat) (env : List (String × Node)) (n : Node)
    (prev new : St) (mk : Mk) (ds : DS) (evs : List Ev) (ds' : DS) (eff : St)
    (h : encodeNode σ fuel env n prev new mk ds = some (evs, ds', eff)) :
    decodeNode σ fuel env n prev (feed evs ds) = .ok (eff, ds') := by
  have := encode_decode_node_framed σ fuel env n prev new mk ds evs ds' eff [] h
  simpa using this

/-- the marks `mk` are sound for the step `prev → new` at node `n` in state `ds`: the encoder accepts
    them and a reader that held `prev` ends with `new`. -/
def SoundMarks (σ : Schema) (fuel : Nat) (env : List (String × Node)) (n : Node) (prev new : St) (mk : Mk)
    (ds : DS) : Prop :=
  ∃ evs ds', encodeNode σ fuel env n prev new mk ds = some (evs, ds', new)

/-- **roundtrip_node**: with sound marks the new value comes back, state in sync. -/
theorem roundtrip_node (σ : Schema) (fuel : Nat) (env : List (String × Node)) (n : Node)
    (prev new : St) (mk : Mk) (ds : DS) (h : SoundMarks σ fuel env n prev new mk ds) :
    ∃ evs ds', encodeNode σ fuel env n prev new mk ds = some (evs, ds', new) ∧
      decodeNode σ fuel env n prev (feed evs ds) = .ok (new, ds') := by
  obtain ⟨evs, ds', h⟩ := h
  exact ⟨evs, ds', h, encode_decode_node σ fuel env n prev new mk ds evs ds' new h⟩

/-- **encode_decode_records**: the records of a frame, each encoded against its predecessor, are
    decoded one after the other by `decodeRecords` (fuel spent as the decoder spends it);
    `out` are the decoder's (root mask, record) pairs, newest first. -/
theorem encode_decode_records (σ : Schema) (root : Node) (rootMaskBits fuel : Nat) (recs : List (St × Mk))
    (cur : St) (ds : DS) (evs : List Ev) (ds' : DS) (effs : List St) (tail : List Ev)
    (h : encodeRecords σ root fuel recs cur ds = some (evs, ds', effs)) :
    ∃ out, decodeRecords σ root rootMaskBits fuel recs.length cur (feed (evs ++ tail) ds) [] =
        .ok (effs.getLast?.getD cur, feed tail ds', out) ∧ out.map (·.2) = effs.reverse := by
  obtain ⟨out, h1, h2⟩ := records_roundtrip σ root rootMaskBits fuel recs cur ds evs ds' effs tail [] h
  exact ⟨out, h1, by simpa using h2⟩

/-- **roundtrip_records**: with sound marks for every record, exactly the records come back. -/
theorem roundtrip_records (σ : Schema) (root : Node) (rootMaskBits fuel : Nat) (recs : List (St × Mk))
    (cur : St) (ds : DS) (evs : List Ev) (ds' : DS)
    (h : encodeRecords σ root fuel recs cur ds = some (evs, ds', recs.map (·.1))) :
    ∃ out, decodeRecords σ root rootMaskBits fuel recs.length cur (feed evs ds) [] =
        .ok ((recs.map (·.1)).getLast?.getD cur, ds', out) ∧ out.map (·.2) = (recs.map (·.1)).reverse := by
  have := encode_decode_records σ root rootMaskBits fuel recs cur ds evs ds' _ [] h
  simpa using this

/-! ## Non-vacuity: the schema of Stef/SpecEnc.lean `Ex` (struct with optional fields, oneof with a
    recursive array alternative, array of structs, multimap with dictionary keys, dictionary
    struct), three successive records -/

set_option maxRecDepth 1000000

/-- state after record 1 / record 2 of the example -/
def ds1 : DS := match encodeNode Ex.σ 1000 [] Ex.root Ex.init Ex.rec1 Ex.mk1 Ex.ds0 with
  | some (_, ds, _) => ds | none => Ex.ds0
def ds2 : DS := match encodeNode Ex.σ 1000 [] Ex.root Ex.rec1 Ex.rec2 Ex.mk2 ds1 with
  | some (_, ds, _) => ds | none => Ex.ds0

-- record 1 (everything marked) from the initial state
example : SoundMarks Ex.σ 1000 [] Ex.root Ex.init Ex.rec1 Ex.mk1 Ex.ds0 :=
  ⟨_, _, by with_unfolding_all rfl⟩

-- record 2: unmarked fields, an optional field becoming absent and one becoming present, a oneof
-- switching to its recursive alternative, array growth with an empty element mask, RefNum
example : SoundMarks Ex.σ 1000 [] Ex.root Ex.rec1 Ex.rec2 Ex.mk2 ds1 :=
  ⟨_, _, by with_unfolding_all rfl⟩

-- record 3: a dictionary struct in full encoding with a values-only multimap inside
example : SoundMarks Ex.σ 1000 [] Ex.root Ex.rec2 Ex.rec3 Ex.mk3 ds2 :=
  ⟨_, _, by with_unfolding_all rfl⟩

-- ... so `roundtrip_node` applies:
example : ∃ evs ds', decodeNode Ex.σ 1000 [] Ex.root Ex.rec1 (feed evs ds1) = .ok (Ex.rec2, ds') :=
  let ⟨evs, ds', _, h⟩ := roundtrip_node Ex.σ 1000 [] Ex.root Ex.rec1 Ex.rec2 Ex.mk2 ds1 ⟨_, _, by with_unfolding_all rfl⟩
  ⟨evs, ds', h⟩

-- the three records as one frame
example : ∃ evs ds', encodeRecords Ex.σ Ex.root 10 [(Ex.rec1, Ex.mk1), (Ex.rec2, Ex.mk2), (Ex.rec3, Ex.mk3)] Ex.init Ex.ds0 =
    some (evs, ds', [Ex.rec1, Ex.rec2, Ex.rec3]) :=
  ⟨_, _, by with_unfolding_all rfl⟩

/-- **unsound_marks_example**: record 3 with the change of field `a` (5 → 6) NOT marked: the encoder
    accepts, the reader keeps `a = 5` - the effective value is `rec3`, not the value written. -/
theorem unsound_marks_example :
    ∃ evs ds', encodeNode Ex.σ 1000 [] Ex.root Ex.rec2 Ex.rec3' Ex.mk3 ds2 = some (evs, ds', Ex.rec3) ∧
      decodeNode Ex.σ 1000 [] Ex.root Ex.rec2 (feed evs ds2) = .ok (Ex.rec3, ds') ∧
      Ex.rec3' ≠ Ex.rec3 := by
  refine ⟨_, _, by with_unfolding_all rfl, ?_, ?_⟩
  · exact encode_decode_node Ex.σ 1000 [] Ex.root Ex.rec2 Ex.rec3' Ex.mk3 ds2 _ _ Ex.rec3 (by with_unfolding_all rfl)
  · intro h
    simp [Ex.rec3', Ex.rec3] at h

/-! ## From the event list to columns and frames -/

/-- **feed_columns**: what the decoder sees in column `c` after `feed evs`: the chunks written to
    `c`, concatenated in order, in front of the old input - nothing else. The order of events of
    DIFFERENT columns is irrelevant to the decoder: a frame stores exactly these concatenations. -/
theorem feed_columns (evs : List Ev) (ds : DS) (c : Nat) (hc : c < ds.cols.size) :
    (feed evs ds).col c =
      { ds.col c with bits := colBits evs c ++ (ds.col c).bits, bytes := colBytes evs c ++ (ds.col c).bytes } :=
  col_feed evs ds c hc

example : colBits [(0, .bits [true]), (1, .bytes [7#8]), (0, .bits [false, true])] 0 = [true, false, true] := rfl

/-- **encoder_ignores_inputs** (frame rule, strong form): the encoder never looks at the input
    side of the state; replacing every column's `bits` / `bytes` / `size` changes neither the
    events nor the effective value, and the resulting state differs in those fields only. -/
theorem encoder_ignores_inputs (inp : Nat → Bits × Bytes × Nat) (σ : Schema) (fuel : Nat) (env : List (String × Node))
    (n : Node) (prev new : St) (mk : Mk) (ds : DS) :
    encodeNode σ fuel env n prev new mk (withInputs inp ds) =
      (encodeNode σ fuel env n prev new mk ds).map (fun r => (r.1, withInputs inp r.2.1, r.2.2)) :=
  (encode_withInputs_all inp σ fuel).1 env n prev new mk ds

example : ∃ evs ds', encodeNode Ex.σ 1000 [] Ex.root Ex.init Ex.rec1 Ex.mk1
    (withInputs (fun c => ([true], [c.toUInt8.toBitVec], c)) Ex.ds0) = some (evs, ds', Ex.rec1) := by
  rw [encoder_ignores_inputs]
  exact ⟨_, _, by with_unfolding_all rfl⟩

/-- **frame_cols_roundtrip**: one frame at the column level. The decoder applies the frame's
    restarts to its state (= the encoder's previous state up to inputs), REPLACES every column's
    input by what the frame carries for it - the column's concatenated output followed by
    anything, e.g. the zero padding of bit columns (`Carries`) - and decodes the records: it gets
    the effective records and ends in the encoder's state, up to the unread leftovers. -/
theorem frame_cols_roundtrip (σ : Schema) (root : Node) (rootMaskBits flags fuel : Nat) (recs : List (St × Mk))
    (cur : St) (es : DS) (evs : List Ev) (es' : DS) (effs : List St) (inp0 inp : Nat → Bits × Bytes × Nat)
    (h : encodeRecords σ root fuel recs cur (resetFor flags es) = some (evs, es', effs))
    (hc : Carries evs inp es.cols.size) :
    ∃ out, decodeRecords σ root rootMaskBits fuel recs.length cur
        (withInputs inp (resetFor flags (withInputs inp0 es))) [] =
        .ok (effs.getLast?.getD cur, withInputs (leftover evs inp) es', out) ∧ out.map (·.2) = effs.reverse :=
  Stef.SpecEnc.frame_cols_roundtrip σ root rootMaskBits flags fuel recs cur es evs es' effs inp0 inp h hc

/-- **frames_cols_roundtrip**: any sequence of frames with any restart flags, at the column level
    (`decodeFramesCols`): codec and dictionary state carried from frame to frame or restarted on both
    sides, column inputs replaced per frame. Exactly the effective records of every frame come
    back and the decoder ends in the encoder's state up to leftover inputs. -/
theorem frames_cols_roundtrip (σ : Schema) (root : Node) (rootMaskBits : Nat) (ins : List FrameIn)
    (evss : List (List Ev)) (cols : List FrameCols) (cur : St) (es es' : DS) (effss : List (List St))
    (inp0 : Nat → Bits × Bytes × Nat)
    (h : encodeFrames σ root ins cur es = some (evss, es', effss)) (hm : Matches ins evss cols) :
    ∃ last inp', decodeFramesCols σ root rootMaskBits cols cur (withInputs inp0 es) =
      .ok (last, withInputs inp' es', effss) :=
  Stef.SpecEnc.frames_cols_roundtrip σ root rootMaskBits ins evss cols cur es es' effss inp0 h hm

/-- the column-level frame that carries exactly the events `evs` (bit columns padded with `pad`) -/
def colsOf (flags fuel nrec : Nat) (evs : List Ev) (pad : Bits) : FrameCols :=
  { flags := flags, fuel := fuel, nrec := nrec, inp := fun c => (colBits evs c ++ pad, colBytes evs c, 0) }

theorem carries_colsOf (flags fuel nrec : Nat) (evs : List Ev) (pad : Bits) (n : Nat) :
    Carries evs (colsOf flags fuel nrec evs pad).inp n :=
  fun _ _ => ⟨⟨pad, rfl⟩, ⟨[], by simp [colsOf]⟩⟩

/-- the example as two frames: records 1, 2 in the first; the second restarts dictionaries and
    codecs (flags 5) and carries record 3 (only the dictionary struct `f` is marked; it is sent in
    full - after the restart a RefNum would not resolve - with a values-only multimap inside) -/
def exFrames : List FrameIn :=
  [{ flags := 0, fuel := 10, recs := [(Ex.rec1, Ex.mk1), (Ex.rec2, Ex.mk2)] },
   { flags := 5, fuel := 10, recs := [(Ex.rec3, Ex.mk3)] }]

def exEvss : List (List Ev) := match encodeFrames Ex.σ Ex.root exFrames Ex.init Ex.ds0 with
  | some (evss, _, _) => evss | none => []

example : ∃ es', encodeFrames Ex.σ Ex.root exFrames Ex.init Ex.ds0 = some (exEvss, es', [[Ex.rec1, Ex.rec2], [Ex.rec3]]) :=
  ⟨_, by with_unfolding_all rfl⟩

example : ∃ last inp' es', decodeFramesCols Ex.σ Ex.root 7
    [colsOf 0 10 2 (exEvss.getD 0 []) [false, false, false], colsOf 5 10 1 (exEvss.getD 1 []) [false]]
    Ex.init (withInputs (fun _ => ([], [], 0)) Ex.ds0) =
    .ok (last, withInputs inp' es', [[Ex.rec1, Ex.rec2], [Ex.rec3]]) := by
  have henc : ∃ es', encodeFrames Ex.σ Ex.root exFrames Ex.init Ex.ds0 = some (exEvss, es', [[Ex.rec1, Ex.rec2], [Ex.rec3]]) :=
    ⟨_, by with_unfolding_all rfl⟩
  obtain ⟨es', henc⟩ := henc
  have hm : Matches exFrames exEvss
      [colsOf 0 10 2 (exEvss.getD 0 []) [false, false, false], colsOf 5 10 1 (exEvss.getD 1 []) [false]] := by
    have hl : exEvss = [exEvss.getD 0 [], exEvss.getD 1 []] := by with_unfolding_all rfl
    rw [hl]
    exact ⟨rfl, rfl, rfl, fun n => carries_colsOf _ _ _ _ _ n, rfl, rfl, rfl, fun n => carries_colsOf _ _ _ _ _ n, trivial⟩
  obtain ⟨last, inp', h⟩ := frames_cols_roundtrip Ex.σ Ex.root 7 exFrames exEvss _ Ex.init Ex.ds0 es' _ (fun _ => ([], [], 0)) henc hm
  exact ⟨last, inp', es', h⟩

/-! ## The real frame loop `Spec.decodeStream.go`

  `loadColumns_only_inputs`: whatever the size table and the data of a frame are, `loadColumns`
  changes nothing but the input fields of the columns. `stream_frames_roundtrip_partial` is the
  round trip through the frame loop of `Spec.decodeStream` itself; its hypothesis `StreamMatches`
  states for every frame that its bytes parse (record count, size table, column slicing) into
  columns that carry the encoder's events. That the bytes `SpecEnc.frameContent` produces have
  this property is `frameContent_carries_events` below; `stream_roundtrip` puts everything together. -/

theorem loadColumns_only_inputs (kinds : List (Nat × Bool)) (sizes : List (Nat × Nat)) (data : Bytes) (ds L : DS)
    (rest : Bytes) (h : loadColumns kinds sizes data ds = .ok (L, rest)) : L = withInputs (inputsOf L) ds :=
  inputsOnly_eq ds L (loadColumns_inputsOnly kinds sizes data ds L rest h)

/-- **stream_frames_roundtrip_partial**: the frame loop of `Spec.decodeStream` (restarts, record
    count, size table, `loadColumns`, `decodeRecords`, for every frame in turn) returns exactly
    the effective records of all frames, without error and without a dictionary violation being
    added - PROVIDED every frame's bytes parse into columns that carry the encoder's events
    (`StreamMatches`; the hypothesis excludes exactly the size-table / column-slicing layer, which
    `frameContent_carries_events` supplies for the encoder's own frames). -/
theorem stream_frames_roundtrip_partial (σ : Schema) (hdr : Header) (root : Node) (kinds : List (Nat × Bool))
    (rootKept ncols : Nat) (ins : List FrameIn) (evss : List (List Ev)) (frames : List Frame) (cur : St) (es es' : DS)
    (effss : List (List St)) (inp0 : Nat → Bits × Bytes × Nat)
    (h : encodeFrames σ root ins cur es = some (evss, es', effss))
    (hm : StreamMatches root kinds ncols ins evss frames) (hsz : es.cols.size = ncols) :
    (decodeStream.go σ hdr root kinds rootKept frames cur (withInputs inp0 es) [] []).error = none ∧
    (decodeStream.go σ hdr root kinds rootKept frames cur (withInputs inp0 es) [] []).records.map (·.2) = effss.flatten ∧
    (decodeStream.go σ hdr root kinds rootKept frames cur (withInputs inp0 es) [] []).dictViolations = es'.dictViolations := by
  have := go_roundtrip σ hdr root kinds rootKept ncols ins evss frames cur es es' effss inp0 [] [] h hm hsz
  simpa using this

/-! non-vacuity of `stream_frames_roundtrip_partial`: a one-struct schema, one frame with two
    records; the frame's bytes are those of `frameContent`, its parse by `needVar` / `readSizes` /
    `loadColumns` (for EVERY decoder state) carries the encoder's events. -/

namespace Tiny
def σ : Schema := { defs := [("T", .struct none [⟨"a", false, .prim .i64 none⟩])] }
def root : Node := .struct 0 "T" none 1 0 [(false, .prim 1 .i64 none)]
example : mkNode σ 200 [] (.ref "T") {} = .ok (root, { nextCol := 2, known := [("T", 1)] }) := by with_unfolding_all rfl
def kinds : List (Nat × Bool) := [(0, true), (1, false)]
example : colKinds 10000 root = kinds := by with_unfolding_all rfl
def ds0 : DS := { cols := Array.replicate 2 {} }
def rec1 : St := .struct 0 [.i 5#64]
def rec2 : St := .struct 0 [.i 7#64]
def mkAll : Mk := .struct 1 [.leaf]
def ins : List FrameIn := [{ flags := 0, fuel := 6 * 8 + 2 + 1000, recs := [(rec1, mkAll), (rec2, mkAll)] }]
def evs : List Ev := [(0, .bits [true]), (1, .bytes [10#8]), (0, .bits [true]), (1, .bytes [5#8])]
def content : Bytes := frameContent root 2 (EncOut.absorb (Array.replicate 2 {}) evs)
def frame : Frame := { flags := 0, content := content }

set_option maxRecDepth 100000 in
theorem enc : ∃ es', encodeFrames σ root ins (initSt σ initFuel (.ref "T")) ds0 = some ([evs], es', [[rec1, rec2]]) :=
  ⟨_, by with_unfolding_all rfl⟩

set_option maxRecDepth 100000 in
theorem carries : FrameCarries root kinds 2 frame 2 evs := by
  refine ⟨[1#8, 0x56#8, 0xc0#8, 10#8, 5#8], 1, [0x56#8, 0xc0#8, 10#8, 5#8], [0x56#8], [0xc0#8, 10#8, 5#8], _, [(1, 2), (0, 1)],
    by with_unfolding_all rfl, by with_unfolding_all rfl, by with_unfolding_all rfl, by with_unfolding_all rfl, ?_⟩
  intro ds hds
  refine ⟨(ds.setCol 0 { ds.col 0 with bits := bytesBits [0xc0#8], bytes := [], size := 1 }).setCol 1
      { (ds.setCol 0 { ds.col 0 with bits := bytesBits [0xc0#8], bytes := [], size := 1 }).col 1 with
        bytes := [10#8, 5#8], bits := [], size := 2 }, [], ?_, ?_⟩
  · simp [loadColumns, kinds, takeBytes, bind, Except.bind, pure, Except.pure]
  · intro c hc
    by_cases h0 : c = 0
    · subst h0
      rw [show (inputsOf _ 0) = _ from rfl]
      simp only [inputsOf]
      rw [col_setCol_ne _ _ _ _ (by decide : (1:Nat) ≠ 0), col_setCol_self _ _ _ (by rw [hds]; exact hc)]
      exact ⟨⟨[false, false, false, false, false, false], by with_unfolding_all rfl⟩, ⟨[], by with_unfolding_all rfl⟩⟩
    · by_cases h1 : c = 1
      · subst h1
        simp only [inputsOf]
        rw [col_setCol_self _ _ _ (by rw [size_setCol, hds]; exact hc)]
        exact ⟨⟨[], by with_unfolding_all rfl⟩, ⟨[], by with_unfolding_all rfl⟩⟩
      · have e1 : colBits evs c = [] := by simp [evs, colBits, Ne.symm h0]
        have e2 : colBytes evs c = [] := by simp [evs, colBytes, Ne.symm h1]
        rw [e1, e2]
        exact ⟨List.nil_prefix, List.nil_prefix⟩
end Tiny

example : (decodeStream.go Tiny.σ { compression := 0, wireCounts := none, userData := [] } Tiny.root Tiny.kinds 1
      [Tiny.frame] (initSt Tiny.σ initFuel (.ref "T")) (withInputs (fun _ => ([], [], 0)) Tiny.ds0) [] []).records.map (·.2) =
    [Tiny.rec1, Tiny.rec2] := by
  obtain ⟨es', h⟩ := Tiny.enc
  have hm : StreamMatches Tiny.root Tiny.kinds 2 Tiny.ins [Tiny.evs] [Tiny.frame] :=
    ⟨rfl, by with_unfolding_all rfl, Tiny.carries, trivial⟩
  have := (stream_frames_roundtrip_partial Tiny.σ { compression := 0, wireCounts := none, userData := [] } Tiny.root Tiny.kinds 1 2 Tiny.ins [Tiny.evs] [Tiny.frame] _ Tiny.ds0 es'
    [[Tiny.rec1, Tiny.rec2]] (fun _ => ([], [], 0)) h hm (by with_unfolding_all rfl)).2.1
  simpa using this

/-! ## The whole stream

  `frameContent_carries_events`: under the decidable side conditions `frameOk` (the tree's columns are
  exactly 0..ncols-1, each once; traversal fuels suffice; bit columns hold bits only and byte
  columns bytes only; below an empty column everything is empty; sizes fit) the bytes that
  `frameContent` lays out (record count, size of the size table, size table written by
  `writeSizes`, column data of the live columns) are parsed by `needVar` / `readSizes` /
  `loadColumns` into columns that carry the encoder's events. `encodeStream` checks `frameOk` for
  every frame it emits (and `se reencode` checks it for every frame of every real stream). -/

theorem frameContent_carries_events (root : Node) (ncols nrec flags : Nat) (evs : List Ev)
    (hok : frameOk root ncols nrec (EncOut.absorb (Array.replicate ncols {}) evs) = true) :
    FrameCarries root (colKinds 10000 root) ncols
      { flags := flags, content := frameContent root nrec (EncOut.absorb (Array.replicate ncols {}) evs) } nrec evs :=
  frameContent_carries root ncols nrec flags evs hok

example : frameOk Tiny.root 2 2 (EncOut.absorb (Array.replicate 2 {}) Tiny.evs) = true := by with_unfolding_all rfl

/-- **size_table_roundtrip**: the size table `writeSizes` writes (depth first, UvarintCompact byte
    sizes, the subtree of an empty column left out) is read back by `Spec.readSizes` as the list
    of the live columns with their sizes, whatever follows. -/
theorem size_table_roundtrip (o : EncOut) (fuel : Nat) (n : Node) (rest : Bits) (acc : List (Nat × Nat))
    (hfit : fits fuel n = true) (hsz : ∀ p ∈ liveCols o fuel n, (colData o p.1 p.2).length < 2 ^ 48) :
    readSizes fuel n (writeSizes o fuel n ++ rest) acc =
      .ok (rest, ((liveCols o fuel n).map (sizeEntry o)).reverse ++ acc) :=
  (readSizes_writeSizes o fuel).1 n rest acc hfit hsz

example : readSizes 100 Tiny.root (writeSizes (EncOut.absorb (Array.replicate 2 {}) Tiny.evs) 100 Tiny.root ++ [true]) [] =
    .ok ([true], [(1, 2), (0, 1)]) := by
  rw [size_table_roundtrip _ _ _ _ _ (by with_unfolding_all rfl) (by with_unfolding_all decide)]
  with_unfolding_all rfl

/-- **mkNode_tree_ok**: every decoder tree `mkNode` builds from column 0 numbers its columns
    consecutively in depth-first order, so the STRUCTURAL conditions of `frameOk` (each column
    exactly once, all below the column count, every column of `0 .. ncols-1` in the tree) hold
    for it; what `frameOk` checks beyond that depends on the frame's data (kind purity, elision,
    sizes) and on the traversal fuel. -/
theorem mkNode_tree_ok (σ : Schema) (fuel : Nat) (ty : Ty) (b0 b : Build) (root : Node)
    (h0 : b0.nextCol = 0) (h : mkNode σ fuel [] ty b0 = .ok (root, b)) (F : Nat) (hfit : fits F root = true) :
    ((colKinds F root).map (·.1)).Nodup ∧
    (∀ c, c < b.nextCol → c ∈ (colKinds F root).map (·.1)) ∧
    (∀ p ∈ colKinds F root, p.1 < b.nextCol) :=
  Stef.SpecEnc.mkNode_tree_ok σ fuel ty b0 b root h0 h F hfit

example : ((colKinds 10000 Tiny.root).map (·.1)).Nodup :=
  (mkNode_tree_ok Tiny.σ 200 (.ref "T") {} { nextCol := 2, known := [("T", 1)] } Tiny.root rfl
    (by with_unfolding_all rfl) 10000 (by with_unfolding_all rfl)).1

/-- **stream_roundtrip** (the full statement, proved): every stream that `encodeStream` produces -
    fixed header, var-header frame (no wire schema, no user data), and for every frame the
    envelope (flags, size), the record count, the size table and the column data, records encoded
    by `encodeNode` against the state carried from frame to frame with the frame's restarts
    applied - is decoded by `Spec.decodeStream` without error to exactly the effective records
    (with sound marks: the records written), and no direct string encoding of a value that is in
    its dictionary occurs. `encodeStream` returns `none` when a side condition fails (marks that
    do not fit the value, numbers that do not fit their wire field, `frameOk`, a fuel that is not
    the one `decodeStream` derives from the frame size). -/
theorem stream_roundtrip (σ : Schema) (rootName : String) (ins : List FrameIn) (bytes : Bytes) (effss : List (List St))
    (h : encodeStream σ rootName ins = some (bytes, effss)) :
    (decodeStream σ rootName bytes).error = none ∧
    (decodeStream σ rootName bytes).records.map (·.2) = effss.flatten ∧
    (decodeStream σ rootName bytes).dictViolations = 0 :=
  Stef.SpecEnc.stream_roundtrip σ rootName ins bytes effss h

/-- non-vacuity: a stream of two frames over the one-struct schema `Tiny` (the second frame restarts
    the codecs, so the unchanged value 7 is sent as a fresh delta); the fuels are the ones
    `decodeStream` derives from the frame sizes (6 and 5 bytes). The rich example schema `Ex` is
    exercised by the theorems above up to the column level of frames; kernel evaluation of the
    `Spec` tree traversals inside `frameOk` is only feasible for small trees. -/
def tinyStream : List FrameIn :=
  [{ flags := 0, fuel := 6 * 8 + 2 + 1000, recs := [(Tiny.rec1, Tiny.mkAll), (Tiny.rec2, Tiny.mkAll)] },
   { flags := 4, fuel := 5 * 8 + 1 + 1000, recs := [(Tiny.rec2, Tiny.mkAll)] }]

example : ∃ bytes, encodeStream Tiny.σ "T" tinyStream = some (bytes, [[Tiny.rec1, Tiny.rec2], [Tiny.rec2]]) ∧
    (decodeStream Tiny.σ "T" bytes).error = none ∧
    (decodeStream Tiny.σ "T" bytes).records.map (·.2) = [Tiny.rec1, Tiny.rec2, Tiny.rec2] := by
  have h : ∃ bytes, encodeStream Tiny.σ "T" tinyStream = some (bytes, [[Tiny.rec1, Tiny.rec2], [Tiny.rec2]]) :=
    ⟨_, by with_unfolding_all rfl⟩
  obtain ⟨bytes, h⟩ := h
  have r := stream_roundtrip Tiny.σ "T" tinyStream bytes _ h
  exact ⟨bytes, h, r.1, by simpa using r.2.1⟩

end Stef.Props.C01Enc
