/-
  C13, print -> parse round trip with the lexer REGENERATED from go/pkg/idl/lexer.go as the token
  source (`genParse`, Stef/Proofs/LexFlowGen.lean; see Stef/Props/C12Gen.lean). Property theorems only.
-/
import Stef.Props.C13
import Stef.Proofs.LexFlowGen

namespace Stef.Props.C13Lex
open Stef.Idl Stef.Proofs.LexFlowGen

/-- PRINT -> PARSE ROUND TRIP (see `C13.print_parse`) where both parses run the regenerated lexer:
    for every schema `σ` that `genParse` returns, `genParse (prettyPrint σ)` succeeds and returns
    `σ` with its definitions sorted by name. -/
theorem gen_print_parse (t : List Char) (σ : Schema) (h : genParse t = .ok σ) :
    genParse (prettyPrint σ) = .ok σ.norm := by
  rw [genParse_eq] at h ⊢
  exact C13.print_parse t σ h

/-- non-vacuity: the sample of C12 is accepted through the regenerated lexer. -/
example : genParse Stef.Props.C12.sample = .ok C13.sampleSchema := by
  rw [genParse_eq]; exact C13.sample_parsed

end Stef.Props.C13Lex
