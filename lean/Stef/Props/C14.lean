/-
  C14 - A successful gRPC handshake yields a stream the server can decode.

  The decision logic is stated outright on wire schemas (lists of field counts). The full
  property is FALSE on the current code (two recorded findings, see DESIGN.md section 8):
  `compatible` compares only lengths and totals, and the client-ahead branch of `connect`
  hands the writer the client's schema instead of the server's. The negations are proved from
  concrete witnesses; the `_partial` theorems state what does hold.
-/
import Stef.Handshake

namespace Stef.Props.C14
open Stef.Handshake

/-- the advertised dictionary limit is always what the writer options carry. -/
theorem connect_dict_limit (c s : List Nat) (m : Nat) (o : Opts) (h : connect c s m = some o) :
    o.maxTotalDictSize = m := by
  unfold connect at h
  split at h
  · cases h; rfl
  · cases h; rfl
  · split at h
    · cases h
    · cases h; rfl
    · cases h; rfl

/-- and the writer keeps it (a zero limit means the default limit). -/
theorem writer_dict_limit (own : List Nat) (o o' : Opts) (h : writerOpts own o = some o') :
    o'.maxTotalDictSize = (if o.maxTotalDictSize = 0 then Gen.defaultMaxTotalDictSize else o.maxTotalDictSize) := by
  unfold writerOpts at h
  by_cases hz : o.maxTotalDictSize = 0
  · simp only [hz, ↓reduceIte] at h ⊢
    split at h
    · cases h; rfl
    · split at h
      · cases h
      · cases h; rfl
  · simp only [hz, ↓reduceIte] at h ⊢
    split at h
    · cases h; rfl
    · split at h
      · cases h
      · cases h; rfl

/-- identical schemas: connect succeeds, no descriptor, no override. -/
theorem connect_exact (c : List Nat) (m : Nat) :
    connect c c m = some { maxTotalDictSize := m } := by
  simp [connect, compatible]

/-- `compatible` is "exact" exactly when lengths and totals agree - NOT when the schemas agree. -/
theorem compatible_exact_iff (a b : List Nat) :
    compatible a b = .exact ↔ a.length = b.length ∧ a.sum = b.sum := by
  unfold compatible
  constructor
  · intro h
    split at h
    · cases h
    · split at h
      · cases h
      · simp only at h
        split at h
        · cases h
        · split at h
          · cases h
          · omega
  · intro ⟨h1, h2⟩
    simp [h1, h2]

/-- **finding `compatible-totals`**: two different schemas of equal length and total are
    declared an exact match, so the client sends no descriptor and the server decodes with the
    wrong field counts. -/
theorem compatible_totals_witness :
    compatible [3, 4, 2] [4, 3, 2] = .exact ∧ connect [4, 3, 2] [3, 4, 2] 0 = some {} := by decide

/-- **finding `connect-client-superset`**: when the client is ahead, connect succeeds and tells
    the writer to write in the CLIENT's schema; a server whose own schema is `[2,1]` refuses
    that descriptor. -/
theorem connect_client_superset_witness :
    connect [3, 1] [2, 1] 0 = some { includeDescriptor := true, schema := some [3, 1] } ∧
    readerAcceptsDescriptor [2, 1] (some [3, 1]) = false := by decide

/-- hence the full soundness statement is false: -/
theorem connect_sound_false :
    ¬ ∀ (c s : List Nat) (m : Nat) (o : Opts), connect c s m = some o →
        readerAcceptsDescriptor s (if o.includeDescriptor then o.schema else none) = true := by
  intro h
  have := h [3, 1] [2, 1] 0 _ connect_client_superset_witness.1
  simp [readerAcceptsDescriptor, compatible] at this

/-- **connect_sound_partial**: whenever connect succeeds through the exact or the server-ahead
    branch (the server's verdict on the client schema is not "incompatible"), the descriptor the
    writer will send is one the server's reader accepts. -/
theorem connect_sound_partial (c s : List Nat) (m : Nat) (o : Opts)
    (hb : compatible s c ≠ .incompatible) (h : connect c s m = some o) :
    readerAcceptsDescriptor s (if o.includeDescriptor then o.schema else none) = true := by
  unfold connect at h
  split at h
  · cases h; simp [readerAcceptsDescriptor]
  · rename_i hs
    cases h
    simp [readerAcceptsDescriptor, hs]
  · rename_i hi; exact absurd hi hb

/-- **connect_complete_neg_partial**: if neither side's verdict accepts the other, connect fails. -/
theorem connect_fails_when_both_incompatible (c s : List Nat) (m : Nat)
    (h1 : compatible s c = .incompatible) (h2 : compatible c s = .incompatible) :
    connect c s m = none := by
  simp [connect, h1, h2]

-- non-vacuity of the partial theorem: a server-ahead pair.
example : compatible [3, 2] [2, 2] ≠ .incompatible ∧
    connect [2, 2] [3, 2] 7 = some { includeDescriptor := true, schema := some [2, 2], maxTotalDictSize := 7 } := by
  decide

end Stef.Props.C14
