/-
  C20 (integer, bool, string and dictionary-string codecs; the byte buffers under them) for the functions
  REGENERATED from go/pkg/membuffer.go and go/pkg/codecs/{uint64,int64,bool,string,stringdict}.go
  (Stef/Gen/IntCodec.lean; vocabulary Stef/IntCodecSem.lean). Property theorems only; the equations
  regenerated = hand model (Stef/Codec.lean) are in Stef/Proofs/IntCodecGen.lean.

  `varint_roundtrip`, `dod_roundtrip`, `bool_roundtrip`, `string_roundtrip`, `dictstring_sync` and
  `dict_ref_always` of Props/C20.lean speak about the hand transcription; here they are restated for the
  encoders AND decoders as translated from the source, on the regenerated state (byte writer / reader with
  their index, limiter, Go map, Go slice), together with what C01 / C02 / C03 use of them: the bytes are the
  specification's (`*_is_model`), sizes are accounted exactly, and no `Decode` panics on any input.
-/
import Stef.Proofs.IntCodecGen
import Stef.Proofs.BitStream

namespace Stef.Props.C20IntGen
open Stef Stef.Codec Stef.FloatCodecSem Stef.IntCodecSem Stef.Gen.IntCodec Stef.Proofs.IntCodecGen

/-! ### membuffer.go -/

/-- **gen_varint_roundtrip**: `BytesWriter.WriteVarint(x)` appends exactly the zig-zag LEB128 bytes of the
    specification (every int64, every writer); `BytesReader.ReadVarint` on a reader whose unread bytes start
    with them returns `x` with a nil error, consumes exactly those bytes and keeps the reader invariant. -/
theorem gen_varint_roundtrip (w : BytesWriter) (r : BytesReader) (x : Word) (tail : Bytes) (hI : RInv r)
    (hr : rest r = Varint.encodeSigned x ++ tail) :
    (∃ w', w.writeVarint x = some w' ∧ w'.buf = w.buf ++ Varint.encodeSigned x) ∧
    ∃ r', r.readVarint = some (r', x, none) ∧ rest r' = tail ∧ r'.buf = r.buf ∧ RInv r' := by
  refine ⟨⟨_, writeVarint_eq w x, rfl⟩, ?_⟩
  obtain ⟨r', e1, e2, e3, e4⟩ := readVarint_some r hI x tail (by rw [hr]; exact Varint.decodeSigned_encodeSigned x tail)
  exact ⟨r', e1, e3, e2, e4⟩

/-- **gen_readVarint_total**: on EVERY reader inside its buffer and every content (truncated, over-long and
    overflowing varints included) `ReadVarint` does not panic: it returns the specification decoder's value,
    or `io.EOF` without moving. -/
theorem gen_readVarint_total (r : BytesReader) (hI : RInv r) :
    (Varint.decodeSigned (rest r) = none ∧ r.readVarint = some (r, 0#64, errEOF)) ∨
    ∃ x rs r', Varint.decodeSigned (rest r) = some (x, rs) ∧ r.readVarint = some (r', x, none) ∧ rest r' = rs ∧ RInv r' := by
  cases hv : Varint.decodeSigned (rest r) with
  | none => exact Or.inl ⟨rfl, readVarint_none r hI hv⟩
  | some p =>
    obtain ⟨x, rs⟩ := p
    obtain ⟨r', e1, _, e3, e4⟩ := readVarint_some r hI x rs hv
    exact Or.inr ⟨x, rs, r', rfl, e1, e3, e4⟩

/-- **gen_readUvarint_total**: the same for `ReadUvarint` against the specification's LEB128 decoder: never a panic;
    on a short or overflowing value `io.EOF` and the index does NOT move (in particular never backwards). -/
theorem gen_readUvarint_total (r : BytesReader) (hI : RInv r) :
    (Varint.decode (rest r) = none ∧ r.readUvarint = some (r, 0#64, errEOF)) ∨
    ∃ x rs r', Varint.decode (rest r) = some (x, rs) ∧ r.readUvarint = some (r', x, none) ∧ rest r' = rs ∧ RInv r' := by
  cases hv : Varint.decode (rest r) with
  | none => exact Or.inl ⟨rfl, readUvarint_none r hI hv⟩
  | some p =>
    obtain ⟨x, rs⟩ := p
    obtain ⟨r', e1, _, e3, e4⟩ := readUvarint_some r hI x rs hv
    exact Or.inr ⟨x, rs, r', rfl, e1, e3, e4⟩

/-! ### delta of delta (uint64.go, int64.go) -/

/-- the codec state of a regenerated encoder / decoder. -/
def encState (e : Uint64Encoder) : Dod := ⟨e.lastVal, e.lastDelta⟩
def decState (d : Uint64Decoder) : Dod := ⟨d.lastVal, d.lastDelta⟩

/-- **gen_dod_encode_is_model**: the regenerated `Uint64Encoder.Encode` is the hand model `Dod.encode` on every
    state: it never panics, appends exactly the model's bytes to the column, moves to the model's next state and
    accounts in the limiter exactly the number of bytes appended. -/
theorem gen_dod_encode_is_model (e : Uint64Encoder) (v : Word)
    (hlen : e.buf.buf.length + ((encState e).encode v).2.length < 2 ^ 63) :
    ∃ e', e.encode v = some e' ∧ e'.buf.buf = e.buf.buf ++ ((encState e).encode v).2 ∧
      encState e' = ((encState e).encode v).1 ∧
      e'.limiter = Limiter.SizeLimiter.addFrameBytes e.limiter ((encState e).encode v).2.length :=
  ⟨_, u64_encode_eq (encState e) e.buf e.limiter v hlen, rfl, rfl, rfl⟩

/-- **gen_int64_is_uint64**: `Int64Encoder.Encode` is `Uint64Encoder.Encode` on the bit pattern, and
    `Int64Decoder.Decode` (a textual copy of the uint64 body over the promoted fields) is `Uint64Decoder.Decode`. -/
theorem gen_int64_is_uint64 (e : Uint64Encoder) (d : Uint64Decoder) (v dst : Word) :
    (Int64Encoder.mk e).encode v = (e.encode v).map Int64Encoder.mk ∧
    (Int64Decoder.mk d).decode dst = (d.decode dst).map (fun p => (Int64Decoder.mk p.1, p.2)) := by
  refine ⟨?_, i64_decode_eq d dst⟩
  simp only [Int64Encoder.encode]
  cases e.encode v <;> rfl

/-- **gen_dod_reset**: `Reset` of encoder and decoder gives the zero codec state and touches nothing else. -/
theorem gen_dod_reset (e : Uint64Encoder) (d : Uint64Decoder) :
    (∃ e', e.reset = some e' ∧ encState e' = {} ∧ e'.buf = e.buf ∧ e'.limiter = e.limiter) ∧
    (∃ d', d.reset = some d' ∧ decState d' = {} ∧ d'.buf = d.buf) :=
  ⟨⟨_, u64_encoder_reset_eq e, rfl, rfl, rfl⟩, ⟨_, u64_decoder_reset_eq d, rfl, rfl⟩⟩

/-- **gen_dod_roundtrip**: every sequence of 64-bit values (wrap-around included) written by the regenerated
    `Encode` from any state: no call panics, the column grows by the model's bytes, the limiter by their number;
    and the regenerated `Decode`, started in the same codec state on a reader whose unread bytes begin with that
    column, returns exactly the values with nil errors, consumes exactly those bytes and ends in the encoder's
    final state (so also across frames, with or without `Reset` on both sides). -/
theorem gen_dod_roundtrip (e : Uint64Encoder) (d : Uint64Decoder) (vs : List Word) (tail : Bytes)
    (hs : decState d = encState e)
    (hlen : e.buf.buf.length + (Dod.encodeAll (encState e) vs).2.length < 2 ^ 63)
    (hI : RInv d.buf) (hr : rest d.buf = (Dod.encodeAll (encState e) vs).2 ++ tail) :
    ∃ e' d', u64EncodeAll e vs = some e' ∧ e'.buf.buf = e.buf.buf ++ (Dod.encodeAll (encState e) vs).2 ∧
      e'.limiter = Limiter.SizeLimiter.addFrameBytes e.limiter (Dod.encodeAll (encState e) vs).2.length ∧
      u64DecodeAll d vs.length = some (d', vs) ∧ rest d'.buf = tail ∧ decState d' = encState e' ∧ RInv d'.buf := by
  have he := u64_encodeAll_eq vs (encState e) e.buf e.limiter hlen
  have hd := Codec.dod_roundtrip (encState e) vs tail
  rw [← hr, ← hs] at hd
  obtain ⟨r', f1, _, f3, f4⟩ := u64_decodeAll_eq vs.length (decState d) _ d.buf vs tail hI hd
  exact ⟨_, _, he, rfl, rfl, f1, f3, by rw [hs]; rfl, f4⟩

/-- **gen_dod_decode_total**: `Uint64Decoder.Decode` on EVERY reader inside its buffer and every content: it does
    not panic; it returns the hand model's value and state, or `io.EOF` with the state unchanged. -/
theorem gen_dod_decode_total (d : Uint64Decoder) (dst : Word) (hI : RInv d.buf) :
    ((decState d).decode (rest d.buf) = none ∧ d.decode dst = some (d, dst, errEOF)) ∨
    ∃ c' v rs d', (decState d).decode (rest d.buf) = some (c', v, rs) ∧ d.decode dst = some (d', v, none) ∧
      decState d' = c' ∧ rest d'.buf = rs ∧ RInv d'.buf := by
  cases hd : (decState d).decode (rest d.buf) with
  | none => exact Or.inl ⟨rfl, u64_decode_none (decState d) d.buf dst hI hd⟩
  | some p =>
    obtain ⟨c', v, rs⟩ := p
    obtain ⟨r', e1, _, e3, e4⟩ := u64_decode_some (decState d) c' d.buf dst v rs hI hd
    exact Or.inr ⟨c', v, rs, _, rfl, e1, rfl, e3, e4⟩

/-! ### bool.go -/

/-- **gen_bool_roundtrip**: `BoolEncoder.Encode(b)` appends exactly the bit `b` at every register fill level,
    keeps the writer invariant and accounts one bit; `BoolDecoder.Decode` is the hand model `boolDecodeR`
    (the function the harness lines are replayed on) with `Error()` of the reader after the read. -/
theorem gen_bool_roundtrip (e : BoolEncoder) (d : BoolDecoder) (b dst : Bool) (hI : e.buf.Inv) :
    (∃ e', e.encode b = some e' ∧ e'.buf.toBits = e.buf.toBits ++ [b] ∧ e'.buf.Inv ∧
      e'.limiter = Limiter.SizeLimiter.addFrameBits e.limiter 1) ∧
    d.decode dst = some (⟨(boolDecodeR d.buf).1⟩, (boolDecodeR d.buf).2, readerErr (boolDecodeR d.buf).1) := by
  refine ⟨⟨_, bool_encode_eq e.buf e.limiter b, ?_, ?_, rfl⟩, bool_decode_eq d.buf dst⟩
  · have := BitsWriter.writeBit_spec e.buf (if b then 1#64 else 0#64) hI (by cases b <;> decide)
    cases b <;> simpa [boolEncodeW] using this.1
  · exact (BitsWriter.writeBit_spec e.buf (if b then 1#64 else 0#64) hI (by cases b <;> decide)).2

/-! ### string.go -/

/-- **gen_string_roundtrip**: `StringEncoder.Encode(v)` never panics, appends exactly the length-prefixed bytes of
    the specification and accounts their number; `StringDecoder.Decode` on a reader whose unread bytes begin with
    them returns `v` with a nil error and consumes exactly those bytes. -/
theorem gen_string_roundtrip (e : StringEncoder) (d : StringDecoder) (v dst tail : Bytes)
    (hlen : e.buf.buf.length + (strEncode v).length < 2 ^ 63)
    (hI : RInv d.buf) (hr : rest d.buf = strEncode v ++ tail) :
    (∃ e', e.encode v = some e' ∧ e'.buf.buf = e.buf.buf ++ strEncode v ∧
      e'.limiter = Limiter.SizeLimiter.addFrameBytes e.limiter (strEncode v).length) ∧
    ∃ d', d.decode dst = some (d', v, none) ∧ rest d'.buf = tail ∧ RInv d'.buf := by
  refine ⟨⟨_, str_encode_eq e.buf e.limiter v hlen, rfl, rfl⟩, ?_⟩
  have hv : v.length < 2 ^ 63 := by simp only [strEncode, List.length_append] at hlen; omega
  have h := str_decode_eq d.buf dst hI
  rw [hr, Codec.str_step v tail hv] at h
  obtain ⟨r', e1, _, e3, e4⟩ := h
  exact ⟨_, e1, e3, e4⟩

/-- **gen_string_decode_total**: `StringDecoder.Decode` on EVERY reader inside its buffer and every content
    (hostile lengths, negative values, truncation): no panic; the result is `strDecode`'s - a value, `io.EOF` or
    `ErrInvalidRefNum`. -/
theorem gen_string_decode_total (d : StringDecoder) (dst : Bytes) (hI : RInv d.buf) :
    (∃ e d' dst', strDecode (rest d.buf) = .error e ∧ d.decode dst = some (d', dst', some e) ∧ RInv d'.buf) ∨
    (∃ v rs d', strDecode (rest d.buf) = .ok (v, rs) ∧ d.decode dst = some (d', v, none) ∧ rest d'.buf = rs ∧
      RInv d'.buf) := by
  have h := str_decode_eq d.buf dst hI
  cases hs : strDecode (rest d.buf) with
  | error e =>
    rw [hs] at h
    obtain ⟨r', dst', e1, _, e3⟩ := h
    exact Or.inl ⟨e, _, dst', rfl, e1, e3⟩
  | ok p =>
    obtain ⟨v, rs⟩ := p
    rw [hs] at h
    obtain ⟨r', e1, _, e3, e4⟩ := h
    exact Or.inr ⟨v, rs, _, rfl, e1, e3, e4⟩

/-! ### stringdict.go -/

/-- the encoder dictionary is a map built by `Reset` and `Encode` only: value ↦ position in a list `d`. -/
def DictIs (e : StringDictEncoder) (d : WDict) : Prop := e.dict.m = mapOf d

/-- **gen_dict_reset**: `StringDictEncoderDict.Reset` / `StringDictDecoderDict.Reset` give the empty dictionary (and
    leave the limiter alone); the `Reset` of the encoder and of the decoder themselves change nothing - in
    particular not the dictionary. -/
theorem gen_dict_reset (ed : StringDictEncoderDict) (dd : StringDictDecoderDict) (e : StringDictEncoder)
    (d : StringDictDecoder) :
    ed.reset = some ⟨mapOf [], ed.limiter⟩ ∧ dd.reset = some ⟨[]⟩ ∧ e.reset = some e ∧ d.reset = some d :=
  ⟨rfl, rfl, rfl, rfl⟩

/-- **gen_dict_encode_is_model**: from every state whose map is the dictionary `d`, `StringDictEncoder.Encode(v)`
    never panics, appends exactly the bytes of the hand model `strDictEncode d v`, ends with the model's
    dictionary, and accounts: the appended bytes as frame bytes (to the dictionary's limiter for a reference, to
    the encoder's own for a new string - the same limiter in the real code), and `len(v) + 16` dictionary bytes
    exactly when `v` was admitted. -/
theorem gen_dict_encode_is_model (e : StringDictEncoder) (d : WDict) (v : Bytes) (hd : DictIs e d)
    (hlen : e.buf.buf.length + (strDictEncode d v).2.1.length < 2 ^ 63) :
    ∃ e', e.encode v = some e' ∧ e'.buf.buf = e.buf.buf ++ (strDictEncode d v).2.1 ∧
      DictIs e' (strDictEncode d v).1 ∧
      ((WDict.find d v).isSome = true →
        e'.dict.limiter = Limiter.SizeLimiter.addFrameBytes e.dict.limiter (strDictEncode d v).2.1.length ∧
        e'.limiter = e.limiter) ∧
      (WDict.find d v = none →
        e'.limiter = Limiter.SizeLimiter.addFrameBytes e.limiter (strDictEncode d v).2.1.length ∧
        e'.dict.limiter = (if v.length > 1 then Limiter.SizeLimiter.addDictElemSize e.dict.limiter (v.length + 16)
                           else e.dict.limiter)) := by
  have he : e = sdEnc d e.buf e.dict.limiter e.limiter := by
    cases e with | mk b dc l => cases dc with | mk m dl => simp only [DictIs] at hd; subst hd; rfl
  have h := sd_encode_eq d e.buf e.dict.limiter e.limiter v hlen
  rw [← he] at h
  cases hf : WDict.find d v with
  | some i =>
    simp only [hf] at h
    exact ⟨_, h, rfl, rfl, fun _ => ⟨rfl, rfl⟩, fun hn => by simp at hn⟩
  | none =>
    simp only [hf] at h
    refine ⟨_, h, rfl, rfl, fun hs => by simp at hs, fun _ => ⟨rfl, ?_⟩⟩
    by_cases hl : v.length > 1 <;> simp [sdEnc, strDictEncode, hf, hl]

/-- **gen_dict_admission**: the admission rule of the translated encoder: a value that is present is never
    added again (and is written as a reference to its position); an absent value is added - at reference number
    `len(dict)` - exactly when it is longer than one byte. -/
theorem gen_dict_admission (d : WDict) (v : Bytes) :
    (v ∈ d → (strDictEncode d v).1 = d ∧
      ∃ i, (strDictEncode d v).2.1 = Varint.encodeSigned (0#64 - BitVec.ofNat 64 i - 1#64) ∧ d[i]? = some v) ∧
    (v ∉ d → v.length > 1 → (strDictEncode d v).1 = d ++ [v] ∧ (strDictEncode d v).2.1 = strEncode v) ∧
    (v ∉ d → v.length ≤ 1 → (strDictEncode d v).1 = d ∧ (strDictEncode d v).2.1 = strEncode v) := by
  have hnone : v ∉ d → WDict.find d v = none := by
    intro hn
    simp only [WDict.find, List.findIdx?_eq_none_iff]
    intro x hx; simp; intro hxe; exact hn (hxe ▸ hx)
  refine ⟨fun hm => ⟨?_, Codec.strDict_ref_when_present d v hm⟩, fun hn hl => ?_, fun hn hl => ?_⟩
  · unfold strDictEncode
    cases hf : WDict.find d v with
    | some i => rfl
    | none =>
      have := List.findIdx?_eq_none_iff.mp hf v hm
      simp at this
  · simp [strDictEncode, hnone hn, hl]
  · have : ¬ v.length > 1 := by omega
    simp [strDictEncode, hnone hn, this]

/-- **gen_dictstring_sync**: with dictionaries in sync (the encoder's map is `d`, the decoder's slice is `d`), one
    `Encode(v)` followed by one `Decode` over the appended bytes: the decoder returns `v` with a nil error, consumes
    exactly those bytes, and both sides end with the SAME dictionary - a reference resolves to the same value on
    both sides, a new value longer than one byte gets the same reference number on both sides. -/
theorem gen_dictstring_sync (e : StringDictEncoder) (dc : StringDictDecoder) (d : WDict) (v dst tail : Bytes)
    (hd : DictIs e d) (hdd : dc.dict.dict = d) (hdl : d.length < 2 ^ 63)
    (hlen : e.buf.buf.length + (strDictEncode d v).2.1.length < 2 ^ 63) (hv : v.length < 2 ^ 63)
    (hI : RInv dc.buf) (hr : rest dc.buf = (strDictEncode d v).2.1 ++ tail) :
    ∃ e' dc' d', e.encode v = some e' ∧ dc.decode dst = some (dc', v, none) ∧
      e'.buf.buf = e.buf.buf ++ (strDictEncode d v).2.1 ∧ rest dc'.buf = tail ∧ RInv dc'.buf ∧
      DictIs e' d' ∧ dc'.dict.dict = d' := by
  obtain ⟨e', h1, h2, h3, _⟩ := gen_dict_encode_is_model e d v hd hlen
  have hdc : dc = sdDec d dc.buf := by
    cases dc with | mk b dd => cases dd with | mk l => simp only at hdd; subst hdd; rfl
  have h := sd_decode_eq d dc.buf dst hI
  rw [hr, Codec.strDict_step d v tail hdl hv, ← hdc] at h
  obtain ⟨r', f1, _, f3, f4⟩ := h
  exact ⟨e', _, (strDictEncode d v).1, h1, f1, h2, f3, f4, h3, rfl⟩

/-- **gen_dict_decode_total**: `StringDictDecoder.Decode` on EVERY dictionary, every reader inside its buffer and
    every content (hostile lengths, reference numbers out of range, the most negative varint, truncation): no
    panic - in particular the index expression `d.dict.dict[refNum]` is never reached out of range; the result is
    `strDictDecode`'s: a value (and the model's dictionary), `io.EOF` or `ErrInvalidRefNum` (dictionary unchanged). -/
theorem gen_dict_decode_total (dc : StringDictDecoder) (dst : Bytes) (hI : RInv dc.buf) :
    (∃ e dc' dst', strDictDecode dc.dict.dict (rest dc.buf) = .error e ∧ dc.decode dst = some (dc', dst', some e) ∧
      dc'.dict = dc.dict ∧ RInv dc'.buf) ∨
    (∃ d' v rs dc', strDictDecode dc.dict.dict (rest dc.buf) = .ok (d', v, rs) ∧ dc.decode dst = some (dc', v, none) ∧
      dc'.dict.dict = d' ∧ rest dc'.buf = rs ∧ RInv dc'.buf) := by
  have h := sd_decode_eq dc.dict.dict dc.buf dst hI
  have hdc : sdDec dc.dict.dict dc.buf = dc := rfl
  rw [hdc] at h
  cases hs : strDictDecode dc.dict.dict (rest dc.buf) with
  | error e =>
    rw [hs] at h
    obtain ⟨r', dst', e1, _, e3⟩ := h
    exact Or.inl ⟨e, _, dst', rfl, e1, rfl, e3⟩
  | ok p =>
    obtain ⟨d', v, rs⟩ := p
    rw [hs] at h
    obtain ⟨r', e1, _, e3, e4⟩ := h
    exact Or.inr ⟨d', v, rs, _, rfl, e1, rfl, e3, e4⟩

/-! ### non-vacuity: every hypothesis set above is met by a real, non-trivial instance -/

-- a reader in the middle of a real buffer satisfies the invariant
example : RInv ⟨[0x00#8, 0x02#8, 0xAA#8], 1⟩ ∧ rest ⟨[0x00#8, 0x02#8, 0xAA#8], 1⟩ = [0x02#8, 0xAA#8] :=
  ⟨by simp [RInv], rfl⟩

-- gen_varint_roundtrip: the unread bytes are the varint of 1 and a tail
example := gen_varint_roundtrip ⟨[0x07#8], 0⟩ ⟨[0x00#8, 0x02#8, 0xAA#8], 1⟩ 1#64 [0xAA#8] (by simp [RInv])
  (by rw [encodeSigned_one]; rfl)

example := gen_readVarint_total ⟨[0x80#8, 0x80#8], 0⟩ (by simp [RInv])
example := gen_readUvarint_total ⟨[0x00#8, 0xFF#8, 0xFF#8], 1⟩ (by simp [RInv])

-- gen_dod_roundtrip: a real value from the state after Reset, decoder state after Reset, reader over the column + a tail
example := gen_dod_roundtrip (u64Enc {} ⟨[], 0⟩ {}) (u64Dec {} ⟨[0x02#8, 0xAA#8], 0⟩) [1#64] [0xAA#8] rfl
  (by show 0 + (Dod.encodeAll {} [1#64]).2.length < 2 ^ 63; rw [dod_one]; decide) (by simp [u64Dec, RInv])
  (by show _ = (Dod.encodeAll {} [1#64]).2 ++ _; rw [dod_one]; rfl)

-- gen_dod_encode_is_model / gen_dod_decode_total
example := gen_dod_encode_is_model (u64Enc {} ⟨[], 0⟩ {}) 1#64
  (by show 0 + (Varint.encodeSigned (1#64 - 0#64 - 0#64)).length < 2 ^ 63
      rw [show (1#64 - 0#64 - 0#64 : Word) = 1#64 by decide, encodeSigned_one]; decide)
example := gen_dod_decode_total (u64Dec {} ⟨[0xFF#8], 0⟩) 0#64 (by simp [u64Dec, RInv])

-- gen_bool_roundtrip: the fresh writer satisfies the register invariant
example := gen_bool_roundtrip ⟨{}, {}⟩ ⟨{ buf := [0x80#8] }⟩ true false BitsWriter.inv_init

-- gen_string_roundtrip: "a"
example := gen_string_roundtrip ⟨⟨[], 0⟩, {}⟩ ⟨⟨[0x02#8, 0x61#8, 0xAA#8], 0⟩⟩ [0x61#8] [] [0xAA#8]
  (by rw [strEncode_a]; decide) (by simp [RInv]) (by rw [strEncode_a]; rfl)
example := gen_string_decode_total ⟨⟨[0x7F#8], 0⟩⟩ [] (by simp [RInv])

-- dictionary: the state after Reset is `DictIs _ []`; a state holding "ab" with the decoder slice ["ab"] and a
-- reader over a reference to it is a real instance of the sync hypotheses
example : DictIs (sdEnc [] ⟨[], 0⟩ {} {}) [] := rfl
example := gen_dict_encode_is_model (sdEnc [] ⟨[], 0⟩ {} {}) [] [0x61#8] rfl
  (by show 0 + (strEncode [0x61#8]).length < 2 ^ 63; rw [strEncode_a]; decide)
example := gen_dictstring_sync (sdEnc [[0x61#8, 0x62#8]] ⟨[], 0⟩ {} {}) (sdDec [[0x61#8, 0x62#8]] ⟨[0x01#8, 0xAA#8], 0⟩)
  [[0x61#8, 0x62#8]] [0x61#8, 0x62#8] [] [0xAA#8] rfl rfl (by decide)
  (by rw [strDictEncode_ref]; decide) (by decide) (by simp [sdDec, RInv]) (by rw [strDictEncode_ref]; rfl)
example := gen_dict_decode_total (sdDec [[0x61#8, 0x62#8]] ⟨[0x03#8], 0⟩) [] (by simp [sdDec, RInv])

end Stef.Props.C20IntGen
