/-
  C14 (regenerated) - the handshake theorems of Props/C14.lean restated for the functions that
  /verif/extract translates from the CURRENT Go source (Stef/Gen/Handshake.lean):
  `Gen.Hs.compatibleE` (WireSchema.Compatible), `Gen.Hs.connect` (the decision part of
  Client.Connect), `Gen.Hs.writerOpts` (the option handling of New<Root>Writer) and the fact
  `Gen.Hs.limiterInitFromDefaultedOpts` (which options value reaches `writer.state.Init`).
  They are corollaries of Proofs/HandshakeGen (regenerated = hand model) and Props/C14.
-/
import Stef.Proofs.HandshakeGen
import Stef.Props.C14

namespace Stef.Props.C14Gen
open Stef.Handshake Stef.HandshakeSem Stef.Proofs.HandshakeGen

/-- the regenerated functions ARE the hand model (restated from Proofs/HandshakeGen). -/
theorem gen_compatible_eq (w old : List Nat) : (Gen.Hs.compatibleE w old).1 = compatible w old :=
  compatible_eq w old

theorem gen_connect_eq (c s : List Nat) (lim : Option Nat) :
    (Gen.Hs.connect c s lim).map WOpts.toOpts = connect c s (lim.getD 0) := by
  rw [connect_eq]; cases connect c s (lim.getD 0) <;> simp [WOpts.toOpts, WOpts.ofOpts]

theorem gen_writerOpts_eq (own : List Nat) (o : WOpts) :
    (Gen.Hs.writerOpts own o).map WOpts.toOpts = writerOpts own o.toOpts :=
  writerOpts_eq own o

/-- Go: the error of `Compatible` is non-nil exactly for the verdict "incompatible"
    (Connect and New<Root>Writer test `err != nil`). -/
theorem gen_compatible_err_iff (w old : List Nat) :
    (Gen.Hs.compatibleE w old).2 = true ↔ (Gen.Hs.compatibleE w old).1 = .incompatible :=
  compatible_err_iff w old

example : (Gen.Hs.compatibleE [2] [3]).2 = true ∧ (Gen.Hs.compatibleE [3] [2]).2 = false := by decide

private theorem connect_some {c s : List Nat} {lim : Option Nat} {o : WOpts}
    (h : Gen.Hs.connect c s lim = some o) :
    connect c s (lim.getD 0) = some o.toOpts ∧ o.maxUncompressedFrameByteSize = 0 := by
  rw [connect_eq] at h
  cases hc : connect c s (lim.getD 0) with
  | none => rw [hc] at h; cases h
  | some o0 => rw [hc] at h; cases h; simp [WOpts.toOpts, WOpts.ofOpts]

/-- the advertised dictionary limit is what the options returned by Connect carry
    (no `DictionaryLimits` in the capabilities: 0). -/
theorem gen_connect_dict_limit (c s : List Nat) (lim : Option Nat) (o : WOpts)
    (h : Gen.Hs.connect c s lim = some o) : o.maxTotalDictSize = lim.getD 0 :=
  C14.connect_dict_limit c s _ o.toOpts (connect_some h).1

/-- Connect leaves the frame size limit unset (the writer's default applies). -/
theorem gen_connect_frame_unset (c s : List Nat) (lim : Option Nat) (o : WOpts)
    (h : Gen.Hs.connect c s lim = some o) : o.maxUncompressedFrameByteSize = 0 :=
  (connect_some h).2

example : Gen.Hs.connect [2, 2] [3, 2] (some 7) =
    some { includeDescriptor := true, schema := some [2, 2], maxTotalDictSize := 7 } := by decide

/-- the writer keeps the dictionary limit (zero means the default limit) ... -/
theorem gen_writer_dict_limit (own : List Nat) (o o' : WOpts) (h : Gen.Hs.writerOpts own o = some o') :
    o'.maxTotalDictSize =
      (if o.maxTotalDictSize = 0 then Gen.defaultMaxTotalDictSize else o.maxTotalDictSize) := by
  have h2 := writerOpts_eq own o
  rw [h] at h2
  exact C14.writer_dict_limit own o.toOpts o'.toOpts h2.symm

/-- ... and defaults the frame size. -/
theorem gen_writer_frame_limit (own : List Nat) (o o' : WOpts) (h : Gen.Hs.writerOpts own o = some o') :
    o'.maxUncompressedFrameByteSize =
      (if o.maxUncompressedFrameByteSize = 0 then Gen.defaultMaxFrameSize else o.maxUncompressedFrameByteSize) :=
  writerOpts_frame own o o' h

example : Gen.Hs.writerOpts [3, 2] { schema := some [2, 2], maxTotalDictSize := 7 } =
    some { includeDescriptor := true, schema := some [2, 2], maxTotalDictSize := 7,
           maxUncompressedFrameByteSize := Gen.defaultMaxFrameSize } := by decide

/-- **the limits the writer's limiter enforces are the DEFAULTED ones.** `writer.state.Init` gets
    the address of the writer's own copy of the options, after the defaults were applied
    (regenerated fact `limiterInitFromDefaultedOpts`), and hands it to `SizeLimiter.Init`
    (`stateInitPassesOptsToLimiter`). So a writer made from Connect's options (frame size unset)
    cuts its frames at `DefaultMaxFrameSize`, never "no limit", and enforces the dictionary limit
    the server advertised (or the default one). -/
theorem gen_writer_limiter_defaulted (c s own : List Nat) (lim : Option Nat) (o o' : WOpts)
    (hc : Gen.Hs.connect c s lim = some o) (hw : Gen.Hs.writerOpts own o = some o') :
    Gen.Hs.stateInitPassesOptsToLimiter = true ∧
    (limiterOf (initArg Gen.Hs.limiterInitFromDefaultedOpts o o')).frameBitSizeLimit
        = Gen.defaultMaxFrameSize * 8 ∧
    (limiterOf (initArg Gen.Hs.limiterInitFromDefaultedOpts o o')).dictByteSizeLimit
        = (if lim.getD 0 = 0 then Gen.defaultMaxTotalDictSize else lim.getD 0) ∧
    (limiterOf (initArg Gen.Hs.limiterInitFromDefaultedOpts o o')).frameBitSizeLimit ≠ 0 := by
  have hf := gen_writer_frame_limit own o o' hw
  have hd := gen_writer_dict_limit own o o' hw
  rw [gen_connect_frame_unset c s lim o hc] at hf
  rw [gen_connect_dict_limit c s lim o hc] at hd
  have hfact : Gen.Hs.limiterInitFromDefaultedOpts = true := rfl
  refine ⟨rfl, ?_, ?_, ?_⟩
  · simp [limiterOf, initArg, hfact, Stef.Limiter.SizeLimiter.init, hf]
  · simp [limiterOf, initArg, hfact, Stef.Limiter.SizeLimiter.init, hd]
  · simp [limiterOf, initArg, hfact, Stef.Limiter.SizeLimiter.init, hf, Gen.defaultMaxFrameSize]

-- non-vacuity: a client behind the server, with a dictionary limit of 3000 bytes.
example : ∃ o o', Gen.Hs.connect [2, 2] [3, 2] (some 3000) = some o ∧ Gen.Hs.writerOpts [2, 2] o = some o' ∧
    (limiterOf (initArg Gen.Hs.limiterInitFromDefaultedOpts o o')).dictByteSizeLimit = 3000 :=
  ⟨{ includeDescriptor := true, schema := some [2, 2], maxTotalDictSize := 3000 },
   { includeDescriptor := true, schema := some [2, 2], maxTotalDictSize := 3000,
     maxUncompressedFrameByteSize := Gen.defaultMaxFrameSize }, by decide, by decide, by decide⟩

/-- identical schemas: connect succeeds, no descriptor, no override. -/
theorem gen_connect_exact (c : List Nat) (lim : Option Nat) :
    Gen.Hs.connect c c lim = some { maxTotalDictSize := lim.getD 0 } := by
  rw [connect_eq, C14.connect_exact]; rfl

/-- the regenerated `Compatible` says "exact" exactly when lengths and totals agree. -/
theorem gen_compatible_exact_iff (a b : List Nat) :
    (Gen.Hs.compatibleE a b).1 = .exact ↔ a.length = b.length ∧ a.sum = b.sum := by
  rw [compatible_eq]; exact C14.compatible_exact_iff a b

/-- finding `compatible-totals` on the regenerated functions. -/
theorem gen_compatible_totals_witness :
    (Gen.Hs.compatibleE [3, 4, 2] [4, 3, 2]).1 = .exact ∧ Gen.Hs.connect [4, 3, 2] [3, 4, 2] none = some {} := by
  decide

/-- finding `connect-client-superset` on the regenerated functions. -/
theorem gen_connect_client_superset_witness :
    Gen.Hs.connect [3, 1] [2, 1] none = some { includeDescriptor := true, schema := some [3, 1] } ∧
    readerAcceptsDescriptor [2, 1] (some [3, 1]) = false := by decide

/-- hence the full soundness statement is false for the regenerated Connect too. -/
theorem gen_connect_sound_false :
    ¬ ∀ (c s : List Nat) (lim : Option Nat) (o : WOpts), Gen.Hs.connect c s lim = some o →
        readerAcceptsDescriptor s (if o.includeDescriptor then o.schema else none) = true := by
  intro h
  have := h [3, 1] [2, 1] none _ gen_connect_client_superset_witness.1
  simp [readerAcceptsDescriptor, compatible] at this

/-- **gen_connect_sound_partial**: whenever the regenerated Connect succeeds and the server's
    verdict on the client schema is not "incompatible", the descriptor the writer will send is
    one the server's reader accepts. -/
theorem gen_connect_sound_partial (c s : List Nat) (lim : Option Nat) (o : WOpts)
    (hb : (Gen.Hs.compatibleE s c).1 ≠ .incompatible) (h : Gen.Hs.connect c s lim = some o) :
    readerAcceptsDescriptor s (if o.includeDescriptor then o.schema else none) = true := by
  rw [compatible_eq] at hb
  exact C14.connect_sound_partial c s _ o.toOpts hb (connect_some h).1

example : (Gen.Hs.compatibleE [3, 2] [2, 2]).1 ≠ .incompatible ∧
    Gen.Hs.connect [2, 2] [3, 2] (some 7) =
      some { includeDescriptor := true, schema := some [2, 2], maxTotalDictSize := 7 } := by decide

/-- the two verdicts cannot both be "incompatible" (lengths and totals are compared both ways), -/
theorem gen_never_both_incompatible (c s : List Nat)
    (h1 : (Gen.Hs.compatibleE s c).1 = .incompatible) : (Gen.Hs.compatibleE c s).1 ≠ .incompatible := by
  rw [compatible_eq] at h1 ⊢
  simp only [compatible] at h1 ⊢
  intro h2
  by_cases a1 : s.length > c.length <;> by_cases a2 : s.length < c.length <;>
    by_cases a3 : s.sum > c.sum <;> by_cases a4 : s.sum < c.sum <;>
    simp [a1, a2, a3, a4] at h1 h2 <;> omega

/-- so the error return in the "incompatible" branch of the regenerated Connect is dead: once the
    capabilities are received and deserialized, Connect always succeeds (C14.connect_fails_when_both_incompatible
    is vacuous). -/
theorem gen_connect_total (c s : List Nat) (lim : Option Nat) : ∃ o, Gen.Hs.connect c s lim = some o := by
  rw [connect_eq]
  have hn := gen_never_both_incompatible c s
  rw [compatible_eq, compatible_eq] at hn
  unfold connect
  cases h1 : compatible s c <;> simp
  cases h2 : compatible c s <;> simp
  exact hn h1 h2

end Stef.Props.C14Gen
