/-
  C05 - A stream cut at any byte yields exactly the records of its complete frames.

  Model: Stef.Reader (frame state machine of basereader.go / frame.go / recordbuf.go / the
  generated Read loop, CompressionNone). Records are abstract: `(frame number, index)`.
-/
import Stef.Proofs.Reader

namespace Stef.Props.C05
open Stef Stef.Reader

/-- the current code loads frame content with full-read semantics (regenerated call-site table) -/
theorem current_frame_content_full : Sites.current.frameContentFull = true := by decide

/-- **prefix_reads_complete_frames**: let the byte stream after the headers be the encoding of
    the well-formed frames `fs` (each with at least one record, as the writer emits them), cut at
    ANY offset `k`. A reader positioned at the first frame returns exactly the records of the
    frames that are completely contained in the prefix, in order, and then an error - never a
    record of the frame that was cut. (When the cut is exactly at the end: all records, `eof`.) -/
theorem prefix_reads_complete_frames (fs : List FrameSpec) (k : Nat) (r : Rd) (fuel : Nat)
    (hwf : ∀ f ∈ fs, f.Wf1) (hk : k ≤ (encFrames fs).length) (hb : r.AtBoundary)
    (hd : r.src.data = (encFrames fs).take k) (hfuel : totalRecs fs < fuel) :
    (∃ r', readAll Sites.current fuel r = (frameRecords fs r.framesLoaded, .eof, r')) ∨
    (∃ fs1 f fs2 e r', fs = fs1 ++ f :: fs2 ∧
        readAll Sites.current fuel r = (frameRecords fs1 r.framesLoaded, e, r')) := by
  rcases cut_decompose fs k hk with h | ⟨fs1, f, fs2, j, h1, h2, h3⟩
  · left
    exact readAll_exact Sites.current current_frame_content_full fs r fuel hwf hb (by rw [hd, h]) hfuel
  · right
    have hwf1 : ∀ g ∈ fs1, g.Wf1 := fun g hg => hwf g (by rw [h1]; simp [hg])
    have hwff : f.Wf := (hwf f (by rw [h1]; simp)).1
    have hle : totalRecs fs1 ≤ totalRecs fs := by
      rw [h1]; simp [totalRecs, List.sum_append]
    obtain ⟨e, r', he⟩ := readAll_cut Sites.current current_frame_content_full fs1 f j r fuel
      hwf1 hwff h2 hb (by rw [hd, h3]) (by omega)
    exact ⟨fs1, f, fs2, e, r', h1, he⟩

/-- a truncated frame is never loaded, whatever the schedule of the source. -/
theorem truncated_frame_is_error (r : Rd) (f : FrameSpec) (hwf : f.Wf) (hrem : r.remaining = 0)
    (k : Nat) (hk : k < (encFrame f).length) (hd : r.src.data = (encFrame f).take k) :
    ∃ r' e, nextFrame Sites.current r = (r', .error e) :=
  nextFrame_truncated Sites.current current_frame_content_full r f hwf hrem k hk hd

-- non-vacuity: a two-frame stream cut inside the second frame.
example :
    let f1 : FrameSpec := { flags := 0, nrec := 2, body := [1#8, 2#8, 3#8] }
    let f2 : FrameSpec := { flags := 1, nrec := 1, body := [9#8] }
    let s := (encFrames [f1, f2]).take 8
    (readAll Sites.current 10 { src := { data := s } }).1 = [(1, 0), (1, 1)] ∧
    (readAll Sites.current 10 { src := { data := s } }).2.1 = .eof := by with_unfolding_all decide

end Stef.Props.C05
