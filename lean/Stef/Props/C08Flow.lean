/-
  C08 / C06 for the REGENERATED control flow of the writer.

  `Stef.Gen.WriterFlow.write / flush / restartFrame / run` are the bodies of `Write()`, `Flush()` and
  `restartFrame()` of the CURRENT Go source (go/otel/otelstef/metricswriter.go and spanswriter.go,
  translated statement by statement by /verif/extract into Gen/WriterFlow.lean) under the
  interpreter of Stef/WriterFlowSem.lean. Proofs/WriterFlow.lean proves them equal to the hand model
  of Stef/Limiter.lean on every state; the statements of Props/C08.lean and Props/C06.lean about the
  writer are restated here for the regenerated functions. When the Go control flow changes in a way
  that is not an equivalent rewriting, `flow_is_hand_model` (or a proof it rests on) stops compiling.
-/
import Stef.Proofs.WriterFlow
import Stef.Props.C08
import Stef.Props.C06

namespace Stef.Props.C08Flow
open Stef.Limiter Stef.WriterFlowSem
open Stef.Gen.WriterFlow (run write flush restartFrame writeSt flushSt)

/-- **flow_is_hand_model**: on every writer state, for every record cost, every flags value and
    every history, the regenerated `Write()`, `Flush()`, `restartFrame()` and their iteration are
    the hand model of Stef/Limiter.lean. -/
theorem flow_is_hand_model :
    (∀ (w : Writer) (c : RecCost), write w c = w.write c) ∧
    (∀ (w : Writer), flush w = w.flush) ∧
    (∀ (w : Writer) (f : Nat), restartFrame w f = w.restartFrame f) ∧
    (∀ (w : Writer) (ops : List Op), run w ops = w.run ops) :=
  ⟨Stef.Proofs.WriterFlow.write_eq, Stef.Proofs.WriterFlow.flush_eq,
   Stef.Proofs.WriterFlow.restartFrame_eq, Stef.Proofs.WriterFlow.run_eq⟩

/-- non-vacuity: the regenerated functions do something - a record that exceeds both limits closes
    its frame, the next frame announces the dictionary reset. -/
example :
    let w := flush (run (Writer.new 40 1 0) [Op.write ⟨[30, 30], 100⟩, Op.write ⟨[5], 3⟩, Op.flush, Op.write ⟨[], 9⟩])
    w.frames.map (fun f => (f.flags, f.recs.map (·.1), f.bits)) = [(0, [0], 100), (1, [1], 3), (0, [2], 9)]
      ∧ w.maxDict = 60 ∧ w.epoch = 1 := by decide

/-- **limiter_is_hand_model**: every method of `SizeLimiter` in the current go/pkg/dictlimiter.go
    (translated statement by statement into `Gen.WriterFlow.Lim.*`; Go's `uint` as `Nat`) is the
    corresponding function of the model, for every limiter state and every argument. -/
theorem limiter_is_hand_model (d : SizeLimiter) (n a b : Nat) :
    Stef.Gen.WriterFlow.Lim.init d { maxTotalDictSize := a, maxUncompressedFrameByteSize := b } = d.init a b ∧
    Stef.Gen.WriterFlow.Lim.addDictElemSize d n = d.addDictElemSize n ∧
    Stef.Gen.WriterFlow.Lim.addFrameBits d n = d.addFrameBits n ∧
    Stef.Gen.WriterFlow.Lim.addFrameBytes d n = d.addFrameBytes n ∧
    Stef.Gen.WriterFlow.Lim.dictLimitReached d = d.dictLimitReached ∧
    Stef.Gen.WriterFlow.Lim.frameLimitReached d = d.frameLimitReached ∧
    Stef.Gen.WriterFlow.Lim.resetDict d = d.resetDict ∧
    Stef.Gen.WriterFlow.Lim.resetFrameSize d = d.resetFrameSize := by
  open Stef.Proofs.WriterFlow in
  exact ⟨lim_init d a b, lim_addDictElemSize d n, lim_addFrameBits d n, lim_addFrameBytes d n,
    lim_dictLimitReached d, lim_frameLimitReached d, lim_resetDict d, lim_resetFrameSize d⟩

example : (Stef.Gen.WriterFlow.Lim.addDictElemSize
    (Stef.Gen.WriterFlow.Lim.init {} { maxTotalDictSize := 10, maxUncompressedFrameByteSize := 2 }) 10).dictSizeLimitReached = true
    ∧ Stef.Gen.WriterFlow.Lim.frameLimitReached
        (Stef.Gen.WriterFlow.Lim.addFrameBytes
          (Stef.Gen.WriterFlow.Lim.init {} { maxTotalDictSize := 10, maxUncompressedFrameByteSize := 2 }) 2) = true := by
  decide

/-- **flow_state_between_calls**: between the calls of any history of `Write` / `Flush`, the Go
    writer's `frameRecordCount` field equals the number of records in the open frame, nothing is left
    in the write buffers or in the frame encoder, and every record count written into a frame was
    the number of records of that frame (full-state form of `flow_is_hand_model`). -/
theorem flow_state_between_calls (w : Writer) (ops : List Op) :
    let s := ops.foldl Stef.Proofs.WriterFlow.applySt (.of w)
    s.w = w.run ops ∧ s.frameRecordCount = s.w.frameRecs.length ∧ s.bufs = [] ∧ s.fe = [] ∧ s.countOk = true := by
  intro s
  have h : s = .of (w.run ops) := Stef.Proofs.WriterFlow.runSt_of w ops
  rw [h]
  exact ⟨rfl, rfl, rfl, rfl, rfl⟩

example : (writeSt (.of (Writer.new 40 1 0)) ⟨[30, 30], 100⟩).frameRecordCount = 0 ∧
    (writeSt (.of (Writer.new 40 0 0)) ⟨[3], 100⟩).frameRecordCount = 1 := by decide

/-- **dict_bound (between writes)** for the regenerated flow: after every completed `Write` /
    `Flush` the accounted dictionary size is strictly below the limit `L ≠ 0` and the limit flag is
    down. -/
theorem dict_below_limit_between_writes (L F flags : Nat) (ops : List Op) (hL : L ≠ 0) :
    let w := run (Writer.new L F flags) ops
    w.lim.dictByteSize < L ∧ w.lim.dictSizeLimitReached = false := by
  rw [Stef.Proofs.WriterFlow.run_eq]
  exact Stef.Props.C08.dict_below_limit_between_writes L F flags ops hL

/-- **dict_bound (peak)** for the regenerated flow. -/
theorem dict_peak_bound (L F flags : Nat) (ops : List Op) (hL : L ≠ 0) :
    let w := run (Writer.new L F flags) ops
    w.maxDict < L + w.maxAdd := by
  rw [Stef.Proofs.WriterFlow.run_eq]
  exact Stef.Props.C08.dict_peak_bound L F flags ops hL

example : (run (Writer.new 40 0 0) [Op.write ⟨[30, 30], 7⟩, Op.write ⟨[5], 3⟩]).lim.dictByteSize = 5 ∧
    (run (Writer.new 40 0 0) [Op.write ⟨[30, 30], 7⟩, Op.write ⟨[5], 3⟩]).maxDict = 60 := by decide

/-- **reset_announced** for the regenerated flow: a reader that resets its dictionaries exactly at
    the start of every frame carrying `RestartDictionaries` is, for every record of every emitted
    frame, in the dictionary epoch the writer was in when it encoded that record. -/
theorem reset_announced (L F flags : Nat) (ops : List Op) :
    let w := flush (run (Writer.new L F flags) ops)
    readerEpochs w.frames 0 = w.frames.flatMap (·.recs) := by
  rw [Stef.Proofs.WriterFlow.run_eq, Stef.Proofs.WriterFlow.flush_eq]
  exact Stef.Props.C08.reset_announced L F flags ops

example :
    let w := flush (run (Writer.new 40 0 0) [Op.write ⟨[30, 30], 7⟩, Op.write ⟨[5], 3⟩])
    readerEpochs w.frames 0 = [(0, 0), (1, 1)] := by decide

/-- **frame_bound** for the regenerated flow: with a frame limit `F ≠ 0`, every emitted frame's
    content exceeds `8F` bits by less than the bits of its last record. -/
theorem frame_bound (L F flags : Nat) (ops : List Op) (hF : F ≠ 0) :
    let w := run (Writer.new L F flags) ops
    ∀ f ∈ w.frames, f.bits < F * 8 + f.lastBits := by
  rw [Stef.Proofs.WriterFlow.run_eq]
  exact Stef.Props.C08.frame_bound L F flags ops hF

/-- the open frame never holds `8F` bits or more between writes (regenerated flow). -/
theorem open_frame_below_limit (L F flags : Nat) (ops : List Op) (hF : F ≠ 0) :
    (run (Writer.new L F flags) ops).lim.frameBitSize < F * 8 := by
  rw [Stef.Proofs.WriterFlow.run_eq]
  exact Stef.Props.C08.open_frame_below_limit L F flags ops hF

example : (run (Writer.new 0 1 0) [Op.write ⟨[], 5⟩, Op.write ⟨[], 5⟩, Op.write ⟨[], 2⟩]).frames.map (·.bits) = [10]
    ∧ (run (Writer.new 0 1 0) [Op.write ⟨[], 5⟩, Op.write ⟨[], 5⟩, Op.write ⟨[], 2⟩]).lim.frameBitSize = 2 := by
  decide

/-- **flush_leaves_nothing_open** (C06, writer half) for the regenerated flow: after `Flush` no
    record is left in the open frame - and, on the full state, the record counter is zero and nothing
    is pending in the write buffers or the frame encoder. -/
theorem flush_leaves_nothing_open (w : Writer) :
    (flush w).frameRecs = [] ∧
    (flushSt (.of w)).frameRecordCount = 0 ∧ (flushSt (.of w)).bufs = [] ∧ (flushSt (.of w)).fe = [] := by
  have h := Stef.Props.C06.flush_leaves_nothing_open w
  rw [Stef.Proofs.WriterFlow.flush_eq, Stef.Proofs.WriterFlow.flushSt_of]
  refine ⟨h, ?_, rfl, rfl⟩
  simp [FlowSt.of, h]

example : (run (Writer.new 0 0 0) [Op.write ⟨[], 5⟩]).frameRecs ≠ [] ∧
    (flush (run (Writer.new 0 0 0) [Op.write ⟨[], 5⟩])).frames.map (·.recs.length) = [1] := by decide

end Stef.Props.C08Flow
