/-
  C07 over the whole io.Reader contract: the outcome of reading a stream does not depend on how the
  source behaves call by call - how many bytes each `Read` hands out (including the discouraged
  `0, nil`), whether the terminal error (io.EOF or another error) comes WITH the last bytes or after
  them - with bufio.Reader, io.ReadFull, binary.ReadUvarint, limitedReader and FrameDecoder as
  MODELLED code (Stef/ReaderIO.lean), not as trusted library behaviour.

  Contract: `Contract σ` = fewer than 100 `0, nil` results in a row (bufio gives up at 100 with
  io.ErrNoProgress: that branch is modelled and is what the hypothesis excludes; everything else the
  io.Reader contract allows is a schedule). No progress assumption beyond that: schedules are finite
  lists, an exhausted schedule means "hand out what is asked".
-/
import Stef.Proofs.ReaderIOSim
import Stef.Proofs.ReaderIOProgress

namespace Stef.Props.C07IO
open Stef Stef.ReaderIO

/-! ### lemma level -/

/-- **readFull_spec**: `io.ReadFull` directly over a source with ANY behaviour schedule returns
    exactly the next `n` bytes; when the data ends first it returns everything that was left and
    io.EOF (nothing read) / io.ErrUnexpectedEOF (something read, source ends with io.EOF) / the
    source's own error (`shortErr`). In particular bytes that arrive together with the error count. -/
theorem readFull_spec (s : Src) (n : Nat) :
    (s.readFullN n).2.1 = s.data.take n ∧
    (s.readFullN n).1.data = s.data.drop n ∧
    (s.readFullN n).2.2 = (if n ≤ s.data.length then none else some (shortErr s.data s.term)) ∧
    (s.readFullN n).1.fail = s.fail :=
  Src.readFull_spec s n

/-- a freshly created bufio.Reader over a contract-abiding source is well formed -/
theorem bufio_init_wf (s : Src) (B : Nat) (hB : 0 < B) (hc : Contract s.sched) :
    ({ src := s, size := B } : Bufio).WF :=
  ⟨hB, (by intro e h; cases h), hc⟩

/-- **bufio_read_spec**: one `bufio.Reader.Read(p)`, `len(p) = n > 0`, in any reachable state:
    the bytes returned are a prefix of the source's undelivered bytes and the rest stays (in order,
    nothing lost, whatever the schedule); an error is returned only when nothing is left, and
    together with bytes only through the large-read bypass (`size ≤ n`); a `0, nil` result used up a
    schedule entry. The invariant is kept. -/
theorem bufio_read_spec (b : Bufio) (h : b.WF) (n : Nat) (hn : 0 < n) :
    (b.read n).1.WF ∧ (b.read n).1.size = b.size ∧ (b.read n).1.src.fail = b.src.fail ∧
    (b.read n).1.src.sched.length ≤ b.src.sched.length ∧
    (b.read n).2.1 ++ (b.read n).1.rest = b.rest ∧
    (b.read n).2.1.length ≤ n ∧
    ((b.read n).2.2 = none ∨ ((b.read n).2.2 = some b.term ∧ (b.read n).1.rest = [])) ∧
    ((b.read n).2.1 = [] → (b.read n).2.2 = none →
      (b.read n).1.src.sched.length < b.src.sched.length) ∧
    ((b.read n).2.2 ≠ none → (b.read n).2.1 ≠ [] → b.size ≤ n) :=
  Bufio.read_spec b h n hn

/-- any sequence of `Read` calls: what they return, concatenated, followed by what is still
    undelivered, is what was undelivered before. -/
def readsThrough : Bufio → List Nat → Bufio × Bytes
  | b, [] => (b, [])
  | b, n :: ns => let r := b.read n; let q := readsThrough r.1 ns; (q.1, r.2.1 ++ q.2)

theorem bufio_reads_in_order : ∀ (ns : List Nat) (b : Bufio), b.WF →
    (readsThrough b ns).2 ++ (readsThrough b ns).1.rest = b.rest ∧ (readsThrough b ns).1.WF := by
  intro ns
  induction ns with
  | nil => intro b h; exact ⟨by simp [readsThrough], h⟩
  | cons n ns ih =>
    intro b h
    obtain ⟨a1, _, _, _, a5, _⟩ := Bufio.read_basic b h n
    obtain ⟨i1, i2⟩ := ih (b.read n).1 a1
    simp only [readsThrough]
    exact ⟨by rw [List.append_assoc, i1, a5], i2⟩

/-- **bufio ReadByte / io.ReadFull over bufio**: the next byte / the next `n` bytes of the source -/
theorem bufio_readByte_spec (b : Bufio) (h : b.WF) :
    (b.readByte).1.WF ∧ (b.readByte).1.rest = b.rest.tail ∧
    (b.readByte).2 = (match b.rest with | [] => .error b.term | c :: _ => .ok c) := by
  obtain ⟨a1, _, _, _, a5, a6⟩ := Bufio.readByte_spec b h
  exact ⟨a1, a5, a6⟩

theorem bufio_readFull_spec (b : Bufio) (h : b.WF) (n : Nat) :
    (b.readFull n).2 = (if n ≤ b.rest.length then .ok (b.rest.take n) else .error (shortErr b.rest b.term)) ∧
    (b.readFull n).1.rest = b.rest.drop n ∧ (b.readFull n).1.WF := by
  obtain ⟨a1, a2, a3, _⟩ := Bufio.readFull_spec b h n
  exact ⟨a1, a2, a3⟩

/-- **frameDecoder_read_passthrough**: in every state and for every `len(p)`, `FrameDecoder.Read`
    returns exactly the bytes its underlying read returned - with or without an error - and nothing
    of the source is lost: `returned ++ undelivered' = undelivered`; `uncompressedSize`, the limited
    reader's `limit` and `ofs` account for exactly the returned bytes. Inside a frame the error is
    the underlying error, passed on in the same call: none, or the source's terminal error once
    nothing is left - possibly together with the last bytes (`returned ≠ []`), which happens only
    through bufio's large-read bypass. -/
theorem frameDecoder_read_passthrough (d : Fd) (hb : d.b.WF) (n : Nat) :
    (d.read n).2.1 ++ (d.read n).1.b.rest = d.b.rest ∧ (d.read n).2.1.length ≤ n ∧
    (d.read n).1.remaining + (d.read n).2.1.length = d.remaining ∧
    (d.read n).1.limit + (d.read n).2.1.length = d.limit ∧
    (d.read n).1.ofs = d.ofs + (d.read n).2.1.length ∧
    (d.read n).1.b.WF ∧
    (d.limit = d.remaining → Fd.skipChunk < d.b.size → 0 < n → 0 < d.remaining →
      ((d.read n).2.2 = none ∨ ((d.read n).2.2 = some d.b.term ∧ (d.read n).1.b.rest = [])) ∧
      ((d.read n).2.2 ≠ none → (d.read n).2.1 ≠ [] → d.b.size ≤ n)) := by
  obtain ⟨a1, _, _, _, a5, a6, a7, a8, a9, _⟩ := Fd.read_spec d hb n
  refine ⟨a5, a6, a7, a8, a9, a1, ?_⟩
  intro hl hbig hn hr
  obtain ⟨e1, _, e3⟩ := Fd.read_err d ⟨hb, hbig, hl⟩ n hn hr
  exact ⟨e1, e3⟩

/-- **io.ReadFull over the frame decoder** (a column, the size table, the var header) when the
    frame holds the `n` bytes: exactly the next `n` bytes of the source or the documented short
    result - also when the last bytes arrive together with the error. -/
theorem frameDecoder_readFull_spec (d : Fd) (h : d.WF) (n : Nat) (hn : n ≤ d.remaining) :
    (d.readFull n).2 = (if n ≤ d.b.rest.length then .ok (d.b.rest.take n)
                        else .error (shortErr d.b.rest d.b.term)) ∧
    (d.readFull n).1.b.rest = d.b.rest.drop n ∧ (d.readFull n).1.WF ∧
    (d.readFull n).1.remaining = d.remaining - min n d.b.rest.length := by
  obtain ⟨a1, a2, a3, a4, _, _, _, _, _, a10, _⟩ := Fd.readFullN_spec d h n hn
  unfold Fd.readFull
  rw [toExcept_fst]
  refine ⟨?_, a2, a4, by rw [a10, a1]; simp⟩
  rcases hr : d.readFullN n with ⟨d', got, e⟩
  rw [hr] at a1 a3
  simp only at a1 a3
  subst a1
  by_cases hle : n ≤ d.b.rest.length
  · simp only [hle, ↓reduceIte] at a3 ⊢; subst a3; rfl
  · simp only [hle, ↓reduceIte] at a3 ⊢; subst a3; rfl

/-! ### the property -/

/-- the sources the theorems quantify over -/
abbrev src (data : Bytes) (fail : Bool) (σ : List Beh) : Src := { data := data, fail := fail, sched := σ }

/-- **chunking_independent_io** - every data (valid stream or not), every terminal condition of
    the source (io.EOF or another error), every column tree, every two bufio sizes above the 4 KiB
    skip chunk (the reader uses 64 KiB), every two behaviour schedules that keep the contract: the
    constructor gives the same var-header bytes / the same error; reading to the first error gives
    the same records and hands the decoders the same frames (record count and every column's bytes);
    and the final error is the same - unless BOTH runs ended in an io.ReadFull that asked the frame
    decoder for more than the frame had left (`overrun`, possible only in a malformed frame; see
    `unconditional_statement_false`). -/
theorem chunking_independent_io (t : Sizes.ColTree) (data : Bytes) (fail : Bool) (σ₁ σ₂ : List Beh)
    (B₁ B₂ : Nat) (hB₁ : Fd.skipChunk < B₁) (hB₂ : Fd.skipChunk < B₂)
    (c₁ : Contract σ₁) (c₂ : Contract σ₂) (maxReads : Nat) :
    (run B₁ t (src data fail σ₁) maxReads).1.header = (run B₂ t (src data fail σ₂) maxReads).1.header ∧
    (run B₁ t (src data fail σ₁) maxReads).1.records = (run B₂ t (src data fail σ₂) maxReads).1.records ∧
    (run B₁ t (src data fail σ₁) maxReads).1.frames = (run B₂ t (src data fail σ₂) maxReads).1.frames ∧
    ((run B₁ t (src data fail σ₁) maxReads).1.err = (run B₂ t (src data fail σ₂) maxReads).1.err ∨
     ((run B₁ t (src data fail σ₁) maxReads).2.fd.overrun = true ∧
      (run B₂ t (src data fail σ₂) maxReads).2.fd.overrun = true)) :=
  run_rel t data fail σ₁ σ₂ B₁ B₂ c₁ c₂ hB₁ hB₂ maxReads

/-- the statement without any side condition -/
def UnconditionalStatement : Prop :=
  ∀ (t : Sizes.ColTree) (data : Bytes) (fail : Bool) (σ₁ σ₂ : List Beh) (B : Nat), Fd.skipChunk < B →
    Contract σ₁ → Contract σ₂ → ∀ maxReads : Nat,
    (run B t (src data fail σ₁) maxReads).1.header = (run B t (src data fail σ₂) maxReads).1.header ∧
    (run B t (src data fail σ₁) maxReads).1.records = (run B t (src data fail σ₂) maxReads).1.records ∧
    (run B t (src data fail σ₁) maxReads).1.frames = (run B t (src data fail σ₂) maxReads).1.frames ∧
    (run B t (src data fail σ₁) maxReads).1.err = (run B t (src data fail σ₂) maxReads).1.err

/-- **chunking_independent_io_partial**: the unconditional conclusion under the explicit
    hypothesis that (one of) the runs never overran a frame - i.e. every size table and every column
    the reader asked the frame decoder for fitted into what the frame had left, which holds for
    every frame a writer produces (the sizes add up to the frame size exactly). What is missing for
    the unconditional statement is exactly the overrun case, where the statement is false. -/
theorem chunking_independent_io_partial (t : Sizes.ColTree) (data : Bytes) (fail : Bool)
    (σ₁ σ₂ : List Beh) (B₁ B₂ : Nat) (hB₁ : Fd.skipChunk < B₁) (hB₂ : Fd.skipChunk < B₂)
    (c₁ : Contract σ₁) (c₂ : Contract σ₂) (maxReads : Nat)
    (hfit : (run B₁ t (src data fail σ₁) maxReads).2.fd.overrun = false) :
    (run B₁ t (src data fail σ₁) maxReads).1.header = (run B₂ t (src data fail σ₂) maxReads).1.header ∧
    (run B₁ t (src data fail σ₁) maxReads).1.records = (run B₂ t (src data fail σ₂) maxReads).1.records ∧
    (run B₁ t (src data fail σ₁) maxReads).1.frames = (run B₂ t (src data fail σ₂) maxReads).1.frames ∧
    (run B₁ t (src data fail σ₁) maxReads).1.err = (run B₂ t (src data fail σ₂) maxReads).1.err := by
  obtain ⟨h1, h2, h3, h4⟩ := chunking_independent_io t data fail σ₁ σ₂ B₁ B₂ hB₁ hB₂ c₁ c₂ maxReads
  refine ⟨h1, h2, h3, ?_⟩
  rcases h4 with h | ⟨h, _⟩
  · exact h
  · rw [hfit] at h; cases h

/-- the generated reader's instance: bufio.NewReaderSize(source, 64 * 1024) -/
theorem chunking_independent_io_reader (t : Sizes.ColTree) (data : Bytes) (fail : Bool)
    (σ₁ σ₂ : List Beh) (c₁ : Contract σ₁) (c₂ : Contract σ₂) (maxReads : Nat)
    (hfit : (run readerBufSize t (src data fail σ₁) maxReads).2.fd.overrun = false) :
    (run readerBufSize t (src data fail σ₁) maxReads).1.header
      = (run readerBufSize t (src data fail σ₂) maxReads).1.header ∧
    (run readerBufSize t (src data fail σ₁) maxReads).1.records
      = (run readerBufSize t (src data fail σ₂) maxReads).1.records ∧
    (run readerBufSize t (src data fail σ₁) maxReads).1.frames
      = (run readerBufSize t (src data fail σ₂) maxReads).1.frames ∧
    (run readerBufSize t (src data fail σ₁) maxReads).1.err
      = (run readerBufSize t (src data fail σ₂) maxReads).1.err :=
  chunking_independent_io_partial t data fail σ₁ σ₂ readerBufSize readerBufSize
    (by decide) (by decide) c₁ c₂ maxReads hfit

/-! ### the model's loops are cut off nowhere (fuel adequacy) -/

/-- the state the constructor leaves (success or failure) is well formed; a `Read` that returns a
    record keeps it well formed; and from a well-formed state `readFuel` rounds of the `Read` loop
    always suffice: more fuel never changes the result, because a successful `NextFrame` consumed at
    least one byte. (io.ReadFull, the skip loop of Next and bufio's ReadByte never end in the model's
    fuel error either: their results are given in closed form by the spec theorems above.) -/
theorem read_fuel_adequate (t : Sizes.ColTree) (data : Bytes) (fail : Bool) (σ : List Beh) (B : Nat)
    (c : Contract σ) (hB : Fd.skipChunk < B) :
    (open_ B t (src data fail σ)).1.fd.WF ∧
    (∀ (till : Bool) (r : Rd), r.fd.WF → ∀ fuel, readFuel r ≤ fuel →
      read till fuel r = read till (readFuel r) r) ∧
    (∀ (till : Bool) (r : Rd) (fuel f i : Nat), r.fd.WF → (read till fuel r).2 = .record f i →
      (read till fuel r).1.fd.WF) :=
  ⟨open_wf t data fail σ B c hB, fun till r h fuel hf => read_fuel_enough till r h fuel hf,
   fun till r fuel f i h hr => read_record_wf till fuel r h f i hr⟩

/-! ### concrete streams (non-vacuity, and the witness against the unconditional statement) -/

/-- size table of a column set: one compact uvarint per visited column (WriteSizesTo) -/
def sizeTable (sizes : List Nat) : Bytes :=
  (sizes.foldl (fun (w : BitsWriter) n => (w.writeUvarintCompact (BitVec.ofNat 64 n)).1) {}).bytes

def frame (flags : Nat) (content : Bytes) : Bytes :=
  [BitVec.ofNat 8 flags] ++ Varint.encodeNat content.length ++ content

def dataContent (nrec : Nat) (sizes : List Nat) (cols : List Bytes) : Bytes :=
  Varint.encodeNat nrec ++ Varint.encodeNat (sizeTable sizes).length ++ sizeTable sizes ++ cols.flatten

def stream (varHdr : Bytes) (frames : List Bytes) : Bytes :=
  sigBytes ++ [2#8, 0#8, 0#8] ++ frame 0 varHdr ++ frames.flatten

/-- two frames over the column tree root(child, child): 2 + 1 records -/
def smallStream : Bytes :=
  stream [0#8, 0#8]
    [frame 0 (dataContent 2 [3, 2, 1] [[1#8, 2#8, 3#8], [4#8, 5#8], [6#8]]),
     frame 1 (dataContent 1 [1, 0, 4] [[7#8], [], [8#8, 9#8, 10#8, 11#8]])]

def smallTree : Sizes.ColTree := .node [.node [], .node []]

instance : DecidableEq (Except Err Bytes) := fun a b =>
  match a, b with
  | .ok x, .ok y => if h : x = y then isTrue (by rw [h]) else isFalse (by intro h'; cases h'; exact h rfl)
  | .error x, .error y => if h : x = y then isTrue (by rw [h]) else isFalse (by intro h'; cases h'; exact h rfl)
  | .ok _, .error _ => isFalse (by intro h; cases h)
  | .error _, .ok _ => isFalse (by intro h; cases h)

/-- what the caller observes (`Outcome`, comparable) -/
structure Summary where
  header : Except Err Bytes
  records : List (Nat × Nat)
  err : Err
  frames : List (Nat × List Bytes)
  deriving DecidableEq

def summary (o : Outcome × Rd) : Summary :=
  { header := o.1.header, records := o.1.records, err := o.1.err, frames := o.1.frames }

def smallExpected : Summary :=
  { header := .ok [0#8, 0#8], records := [(1, 0), (1, 1), (2, 0)], err := .eof,
    frames := [(2, [[1#8, 2#8, 3#8], [4#8, 5#8], [6#8]]), (1, [[7#8], [], [8#8, 9#8, 10#8, 11#8]])] }

/-- (a) one-byte reads, (b) one full read with io.EOF attached, a lazy source, a source that
    returns `0, nil` twice before every byte and ends with its error attached: the same result, and
    the schedules keep the contract. The requests differ: 35 reads of 64 KiB (34 bytes, one at a time, then io.EOF) vs a single one. -/
example :
    summary (run readerBufSize smallTree (src smallStream false (List.replicate 60 { want := 1 })) 9) = smallExpected ∧
    summary (run readerBufSize smallTree (src smallStream false [{ want := 65536, eager := true }]) 9) = smallExpected ∧
    summary (run readerBufSize smallTree (src smallStream false []) 9) = smallExpected ∧
    summary (run readerBufSize smallTree (src smallStream false
      ((List.replicate 46 [{ want := 0 }, { want := 0 }, { want := 1, eager := true }]).flatten)) 9) = smallExpected ∧
    Contract (List.replicate 60 { want := 1 }) ∧ Contract [{ want := 65536, eager := true }] ∧
    Contract ((List.replicate 46 [{ want := 0 }, { want := 0 }, { want := 1, eager := true }]).flatten) ∧
    (run readerBufSize smallTree (src smallStream false (List.replicate 60 { want := 1 })) 9).2.fd.overrun = false ∧
    (run readerBufSize smallTree (src smallStream false (List.replicate 60 { want := 1 })) 9).2.fd.b.src.reqs.length = 35 ∧
    (run readerBufSize smallTree (src smallStream false [{ want := 65536, eager := true }]) 9).2.fd.b.src.reqs = [65536] := by
  decide +kernel

/-- the same stream from a source that breaks with a non-EOF error after (or with) the last byte:
    all records, then that error -/
example :
    summary (run readerBufSize smallTree (src smallStream true [{ want := 65536, eager := true }]) 9)
      = { smallExpected with err := .srcFail } ∧
    summary (run readerBufSize smallTree (src smallStream true (List.replicate 60 { want := 1 })) 9)
      = { smallExpected with err := .srcFail } := by
  decide +kernel

/-- a stream cut inside the last column: io.ErrUnexpectedEOF under every schedule, the first frame's
    records are delivered -/
example :
    summary (run readerBufSize smallTree (src (smallStream.take 32) false [{ want := 65536, eager := true }]) 9) =
      { header := .ok [0#8, 0#8], records := [(1, 0), (1, 1)], err := .unexpectedEof,
        frames := [(2, [[1#8, 2#8, 3#8], [4#8, 5#8], [6#8]])] } ∧
    summary (run readerBufSize smallTree (src (smallStream.take 32) false (List.replicate 60 { want := 1 })) 9) =
      { header := .ok [0#8, 0#8], records := [(1, 0), (1, 1)], err := .unexpectedEof,
        frames := [(2, [[1#8, 2#8, 3#8], [4#8, 5#8], [6#8]])] } := by
  decide +kernel

/-- (c), scaled to a bufio size of 4100 (the theorems hold for every size above 4096; the 64 KiB
    instance is `Stef.Props.C07IOBig`): a 9000-byte last column. The first source call fills the
    buffer, the buffer is drained into the column, the rest of the column (4919 bytes >= 4100) is
    requested from the source DIRECTLY (bufio's large-read bypass) and arrives together with io.EOF:
    FrameDecoder.Read returns `(4919, io.EOF)`, io.ReadFull keeps the bytes and drops the error,
    all three records are delivered, the next frame header read reports io.EOF. -/
def bigCol : Bytes := List.replicate 9000 0x61#8
def bigTail : Bytes := stream [0#8, 0#8] [frame 0 (dataContent 3 [9000] [bigCol])]

set_option maxRecDepth 1000000 in
example :
    summary (run 4100 (.node []) (src bigTail false (List.replicate 3 { want := 100000, eager := true })) 9)
      = { header := .ok [0#8, 0#8], records := [(1, 0), (1, 1), (1, 2)], err := .eof, frames := [(3, [bigCol])] } ∧
    (run 4100 (.node []) (src bigTail false (List.replicate 3 { want := 100000, eager := true })) 9).2.fd.b.src.reqs.reverse
      = [4100, 4919, 4100] ∧
    summary (run 4100 (.node []) (src bigTail false []) 9)
      = { header := .ok [0#8, 0#8], records := [(1, 0), (1, 1), (1, 2)], err := .eof, frames := [(3, [bigCol])] } := by
  decide +kernel

/-- a malformed frame: `ReadBufs.ReadFrom` is given `RemainingSize()` as its limit BEFORE it reads
    the size of the size table (2 bytes here), so a table size of 9001 passes the check although the
    frame holds only 9000 more bytes, and those are the last bytes of the source. -/
def overrunStream : Bytes :=
  stream [0#8, 0#8] [frame 0 (Varint.encodeNat 1 ++ Varint.encodeNat 9001 ++ List.replicate 9000 0x62#8)]

set_option maxRecDepth 1000000 in
/-- on the malformed frame the final error depends on the source: a lazy source lets the frame
    decoder run into its end (`end of frame`), a source that attaches io.EOF to the last bytes makes
    io.ReadFull report io.ErrUnexpectedEOF. No record and no frame is delivered either way. -/
theorem overrun_witness :
    (run 4100 (.node []) (src overrunStream false []) 9).1.err = .endOfFrame ∧
    (run 4100 (.node []) (src overrunStream false (List.replicate 3 { want := 100000, eager := true })) 9).1.err
      = .unexpectedEof ∧
    (run 4100 (.node []) (src overrunStream false []) 9).2.fd.overrun = true ∧
    (run 4100 (.node []) (src overrunStream false []) 9).1.records = [] := by
  decide +kernel

/-- **the unconditional statement is false** (as the code is written): the overrun witness. -/
theorem unconditional_statement_false : ¬ UnconditionalStatement := by
  intro h
  have h4 := (h (.node []) overrunStream false [] (List.replicate 3 { want := 100000, eager := true }) 4100
    (by decide) (by decide) (by decide) 9).2.2.2
  rw [overrun_witness.1, overrun_witness.2.1] at h4
  cases h4

end Stef.Props.C07IO
