/-
  Stef.Handshake: transcription of `WireSchema.Compatible` (go/pkg/schema/wireschema.go), of the
  decision part of `Client.Connect` (go/grpc/client.go) and of the option handling at the top of
  the generated `New<Root>Writer` (writer.go.tmpl). Wire schemas are lists of field counts.
-/
import Stef.Gen.Consts

namespace Stef.Handshake

inductive Compat | exact | superset | incompatible
  deriving DecidableEq, Repr

/-- Go: `w.Compatible(old)`; the returned error is non-nil exactly for `.incompatible`. -/
def compatible (w old : List Nat) : Compat :=
  if w.length > old.length then .superset
  else if w.length < old.length then .incompatible
  else
    let newTotal := w.sum
    let oldTotal := old.sum
    if newTotal > oldTotal then .superset
    else if newTotal < oldTotal then .incompatible
    else .exact

structure Opts where
  includeDescriptor : Bool := false
  schema : Option (List Nat) := none
  maxTotalDictSize : Nat := 0
  deriving DecidableEq, Repr

/-- Go: the part of `Client.Connect` after the capabilities message was received.
    `none` = Connect returns an error. -/
def connect (client server : List Nat) (maxDictBytes : Nat) : Option Opts :=
  let opts : Opts := { maxTotalDictSize := maxDictBytes }
  match compatible server client with
  | .exact => some opts
  | .superset => some { opts with includeDescriptor := true, schema := some client }
  | .incompatible =>
    match compatible client server with
    | .incompatible => none
    | .superset => some { opts with includeDescriptor := true, schema := some client }
    | .exact => some opts

/-- Go: option defaults and the override-schema check at the top of `New<Root>Writer`.
    `own` is the writer's own wire schema. `none` = the writer cannot be created.
    (The subsequent `Init` with the override iterator is modelled in Stef.Spec.mkNode.) -/
def writerOpts (own : List Nat) (o : Opts) : Option Opts :=
  let o := if o.maxTotalDictSize = 0 then { o with maxTotalDictSize := Gen.defaultMaxTotalDictSize } else o
  match o.schema with
  | none => some o
  | some s =>
    if compatible own s = .incompatible then none
    else some { o with includeDescriptor := true }

/-- Go: `BaseReader.ReadVarHeader`: the reader refuses a descriptor its own schema is not
    `Compatible` with. (Then `Init` consumes the counts, see Stef.Spec.mkNode / fetchCount.) -/
def readerAcceptsDescriptor (own : List Nat) (descr : Option (List Nat)) : Bool :=
  match descr with
  | none => true
  | some d => compatible own d ≠ .incompatible

end Stef.Handshake
