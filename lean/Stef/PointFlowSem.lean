/-
  Stef.PointFlowSem: the (hand-written) target vocabulary of the `PointFlow` generator of /verif/extract
  (extract/pointflow.go). The generator translates, statement by statement, the per-point functions of the
  metrics converters

    go/pdata/metrics/internal/baseotlptostef.go   ConvertNumDatapoint, ConvertExemplars, ConvertHistogram,
                                                  ConvertExpHistogram, ConvertSummary, expBucketsToStef,
                                                  AggregationTemporalityToStef
    go/pdata/metrics/internal/basesteftotolp.go   convertNumberPoint, convertExemplars, ConvertExemplar,
                                                  AppendOTLPPoint, aggregationTemporalityToOtlp,
                                                  convertHistogramPoint, convertExpHistogramPoint,
                                                  expBucketsFromStef, convertSumaryPoint, quantilesFromStef

  into `do` blocks of the monad `M` below (Stef/Gen/PointFlow.lean). Nothing here says WHAT those functions
  do: this file only says what ONE call of a library method means. Core Lean only.

  Objects. The two libraries the converters talk to - pdata (pmetric / pcommon) and the generated
  otelstef record API - are given the value-level meaning of the hand model Stef/Otlp/Metrics.lean: a
  pdata data point of any of the four kinds is a `Point`, an `otelstef.Point` is an `SPoint`, and so on
  (the table is the `O...` / `P...` namespaces below, one per Go type; `O` = otelstef, `P` = pdata).
  In a translated function the objects that are WRITTEN (the `*otelstef.X` parameters of
  baseotlptostef.go, the pdata handles of basesteftotolp.go, the receiver `c *BaseOtlpToStef`) are
  references `Ref σ τ`: lenses from the heap into the object; a Go accessor that hands out a sub-object
  (`dst.Value()`, `dstVal.Histogram()`, `dst.At(i)`) is lens composition `⬝`, a setter is `upd ref f`.
  The objects that are only READ (pdata values in baseotlptostef.go, `*otelstef.X` in basesteftotolp.go;
  the generator's tables have no mutator for them) are plain values and their getters plain functions.

  Control. A Go function body is a computation `M σ ρ Unit` (`ρ` = its result type, `Err` for `error`): a
  statement goes on (`next`), returns (`ret`, with the heap as it is then) or panics (index out of range,
  slice-to-array conversion of a short slice). Go locals are immutable `let`s (the generator refuses
  assignments), a local that names an object is a `let` of a lens. `int` / `len` are `Nat` (the only
  arithmetic the subset has is counting loops from 0 and `+ 1`), fixed-width integers and float64 are the
  `Nat` bit patterns of the hand model.

  What is NOT modelled (trusted, as in the hand model): the storage of the alternatives of an
  `otelstef.PointValue` other than the current one (`Histogram()` on a value that is not a histogram reads
  a blank one and writes nowhere; the stale scalar after SetType(Int64/Float64), which the generator
  refuses), modified-marks, capacity (`EnsureCapacity` is a no-op), the error path of
  `otlptools.TefToOtlpMap` (total in the hand model), `pmetric.Metric.Gauge()` etc. on a metric of another
  type, the text of error messages beyond the format string.
-/
import Stef.Otlp.Metrics

namespace Stef.PointFlowSem
open Stef.Otlp

/-! ### lenses -/

structure Lens (σ τ : Type) where
  get : σ → τ
  set : τ → σ → σ

def Lens.comp {σ τ υ : Type} (a : Lens σ τ) (b : Lens τ υ) : Lens σ υ :=
  ⟨fun s => b.get (a.get s), fun v s => a.set (b.set v (a.get s)) s⟩

infixl:70 " ⬝ " => Lens.comp

/-- element `i` of a list (reads a default and writes nowhere when out of range: every use is
    preceded by `chkIdx`, which panics then). -/
def atL {τ : Type} (i : Nat) (dflt : τ) : Lens (List τ) τ := ⟨fun l => l.getD i dflt, fun v l => l.set i v⟩

def fstL {α β : Type} : Lens (α × β) α := ⟨fun p => p.1, fun v p => (v, p.2)⟩
def sndL {α β : Type} : Lens (α × β) β := ⟨fun p => p.2, fun v p => (p.1, v)⟩

/-! ### heap, outcomes, the monad -/

/-- the objects the caller passed (`obj`) and the maps made by `pcommon.NewMap()` in the function. -/
structure Heap (σ : Type) where
  obj : σ
  maps : List KVs := []

abbrev Ref (σ τ : Type) := Lens (Heap σ) τ

def objL {σ : Type} : Ref σ σ := ⟨fun h => h.obj, fun v h => { h with obj := v }⟩
def mapsL {σ : Type} : Ref σ (List KVs) := ⟨fun h => h.maps, fun v h => { h with maps := v }⟩

/-- `error`: `none` = nil, `some fmt` = `fmt.Errorf(fmt, ...)` (the arguments are not modelled). -/
abbrev Err := Option String

inductive Out (σ ρ α : Type) where
  | next (a : α) (h : Heap σ)
  | ret (r : ρ) (h : Heap σ)
  | panic

structure M (σ ρ α : Type) where
  run : Heap σ → Out σ ρ α

def M.pure {σ ρ α : Type} (a : α) : M σ ρ α := ⟨fun h => .next a h⟩

def M.bind {σ ρ α β : Type} (m : M σ ρ α) (f : α → M σ ρ β) : M σ ρ β := ⟨fun h =>
  match m.run h with
  | .next a h' => (f a).run h'
  | .ret r h' => .ret r h'
  | .panic => .panic⟩

instance {σ ρ : Type} : Monad (M σ ρ) where
  pure := M.pure
  bind := M.bind

/-- `return r` -/
def ret {σ ρ α : Type} (r : ρ) : M σ ρ α := ⟨fun h => .ret r h⟩

/-- a call of a translated function with results: its `return` is the value of the call (a Go function
    with results cannot fall off its end). -/
def call {σ ρ ρ' : Type} (f : M σ ρ' Unit) : M σ ρ ρ' := ⟨fun h =>
  match f.run h with
  | .ret r h' => .next r h'
  | .next _ _ => .panic
  | .panic => .panic⟩

/-- a call of a translated function without results. -/
def callV {σ ρ : Type} (f : M σ Unit Unit) : M σ ρ Unit := ⟨fun h =>
  match f.run h with
  | .ret _ h' => .next () h'
  | .next _ h' => .next () h'
  | .panic => .panic⟩

/-- a mutator called through a reference. -/
def upd {σ ρ τ : Type} (l : Ref σ τ) (f : τ → τ) : M σ ρ Unit := ⟨fun h => .next () (l.set (f (l.get h)) h)⟩

/-- a getter called through a reference. -/
def rd {σ ρ τ α : Type} (l : Ref σ τ) (g : τ → α) : M σ ρ α := ⟨fun h => .next (g (l.get h)) h⟩

/-- `k` more rounds of a counting loop that is at `i`. -/
def forFrom {σ ρ : Type} (k i : Nat) (body : Nat → M σ ρ Unit) (h : Heap σ) : Out σ ρ Unit :=
  match k with
  | 0 => .next () h
  | k + 1 =>
    match (body i).run h with
    | .next _ h' => forFrom k (i + 1) body h'
    | .ret r h' => .ret r h'
    | .panic => .panic

/-- `for i := 0; i < n; i++ { body }` and `for i := range n { body }`, where `n` is made of getters of
    read-only objects (checked by the generator: no reference is read in it) and the body does not assign
    `i`. -/
def forLt {σ ρ : Type} (n : Nat) (body : Nat → M σ ρ Unit) : M σ ρ Unit := ⟨forFrom n 0 body⟩

/-- `xs.At(i)` on a read-only array: panics out of range. -/
def atV {σ ρ τ : Type} (xs : List τ) (i : Nat) : M σ ρ τ := ⟨fun h =>
  match xs[i]? with
  | some x => .next x h
  | none => .panic⟩

/-- the bounds check of `ref.At(i)` on an array that is written through. -/
def chkIdx {σ ρ τ : Type} (l : Ref σ τ) (len : τ → Nat) (i : Nat) : M σ ρ Unit := ⟨fun h =>
  if i < len (l.get h) then .next () h else .panic⟩

/-- `slice.AppendEmpty()` of pdata: a new default element at the end, and the handle of it. -/
def appendEmpty {σ ρ τ : Type} (l : Ref σ (List τ)) (dflt : τ) : M σ ρ (Ref σ τ) := ⟨fun h =>
  .next (l ⬝ atL (l.get h).length dflt) (l.set (l.get h ++ [dflt]) h)⟩

/-- `pcommon.NewMap()` -/
def newMap {σ ρ : Type} : M σ ρ (Ref σ KVs) := ⟨fun h =>
  .next (mapsL ⬝ atL h.maps.length .nil) { h with maps := h.maps ++ [.nil] }⟩

/-- `pcommon.TraceID(b)` / `pcommon.SpanID(b)`: conversion of a slice to an array of `n` bytes panics
    when the slice is shorter. -/
def toArray {σ ρ : Type} (n : Nat) (b : List Nat) : M σ ρ (List Nat) := ⟨fun h =>
  if b.length < n then .panic else .next (b.take n) h⟩

/-- what a call of a translated `error` function comes to: `none` = panic (or no return),
    `some none` = an error was returned, `some (some x)` = nil was returned with the objects `x`. -/
def Out.res {σ α : Type} : Out σ Err α → Option (Option σ)
  | .ret none h => some (some h.obj)
  | .ret (some _) _ => some none
  | _ => none

/-- the same for a function without results. -/
def Out.resV {σ : Type} : Out σ Unit Unit → Option σ
  | .ret _ h => some h.obj
  | .next _ h => some h.obj
  | .panic => none

/-! ### conversions and constants -/

def len {τ : Type} (l : List τ) : Nat := l.length

/-- `uint64(x)` of a `pcommon.Timestamp`, and back -/
def cvt_ts_u64 (x : Nat) : Nat := x
def cvt_u64_ts (x : Nat) : Nat := x
/-- `int64(x)` of a `uint64` and back: the same 64-bit pattern -/
def cvt_u64_i64 (x : Nat) : Nat := x
def cvt_i64_u64 (x : Nat) : Nat := x
/-- `int64(x)` of an `int32`: sign extension; `int32(x)` of an `int64`: truncation -/
def cvt_i32_i64 (x : Nat) : Nat := sext32 x
def cvt_i64_i32 (x : Nat) : Nat := trunc32 x
/-- `a[:]` of a byte array, `pkg.Bytes(b)` of a byte slice, `[]byte(s)` of a `pkg.Bytes` -/
def cvt_arr_bytes (x : List Nat) : List Nat := x
def cvt_bytes_pkgbytes (x : List Nat) : List Nat := x
def cvt_pkgbytes_bytes (x : List Nat) : List Nat := x

/-- pmetric / pcommon constants (library) -/
def pc_NumberDataPointValueTypeEmpty : Nat := 0
def pc_NumberDataPointValueTypeInt : Nat := 1
def pc_NumberDataPointValueTypeDouble : Nat := 2
def pc_ExemplarValueTypeEmpty : Nat := 0
def pc_ExemplarValueTypeInt : Nat := 1
def pc_ExemplarValueTypeDouble : Nat := 2
def pc_AggregationTemporalityUnspecified : Nat := 0
def pc_AggregationTemporalityDelta : Nat := 1
def pc_AggregationTemporalityCumulative : Nat := 2
def pc_MetricTypeGauge : Nat := 1
def pc_MetricTypeSum : Nat := 2
def pc_MetricTypeHistogram : Nat := 3
def pc_MetricTypeExponentialHistogram : Nat := 4
def pc_MetricTypeSummary : Nat := 5
def pc_DefaultDataPointFlags : Nat := 0
/-- `len(pcommon.TraceID{})`, `len(pcommon.SpanID{})` -/
def pc_TraceIDLen : Nat := 16
def pc_SpanIDLen : Nat := 8

/-! ### otelstef (the generated record API), on the records of the hand model -/

/-- `BaseOtlpToStef`: `TempAttrs` (the scratch storage inside `Otlp2tef` is not observable). -/
structure Conv where
  tempAttrs : SAttrs := {}

def Conv.tempAttrsL : Lens Conv SAttrs := ⟨fun c => c.tempAttrs, fun v _ => { tempAttrs := v }⟩

/-- `otelstef.ExemplarArray`: the elements ever made and the current length. -/
structure ExArr where
  store : List SExemplar := []
  len : Nat := 0

namespace OPoint
def timestamp (p : SPoint) : Nat := p.ts
def startTimestamp (p : SPoint) : Nat := p.start
def setTimestamp (v : Nat) (p : SPoint) : SPoint := { p with ts := v }
def setStartTimestamp (v : Nat) (p : SPoint) : SPoint := { p with start := v }
def value : Lens SPoint SPValue := ⟨fun p => p.value, fun v p => { p with value := v }⟩
def exemplars : Lens SPoint ExArr :=
  ⟨fun p => ⟨p.exStore, p.exLen⟩, fun v p => { p with exStore := v.store, exLen := v.len }⟩
end OPoint

namespace OPointValue
/-- `Type()`: the numbering is checked against the regenerated constants `c_PointValueType*`. -/
def type : SPValue → Nat
  | .none => 0 | .int _ => 1 | .dbl _ => 2 | .hist _ => 3 | .exp _ => 4 | .summary _ => 5
def blank : Nat → SPValue
  | 1 => .int 0 | 2 => .dbl 0 | 3 => .hist {} | 4 => .exp {} | 5 => .summary {} | _ => .none
/-- `SetType(t)`: a change of type resets the struct of the new type, the same type changes nothing.
    (For Int64 / Float64 the stale scalar would show: the generator refuses these two.) -/
def setType (t : Nat) (v : SPValue) : SPValue := if type v == t then v else blank t
def int64 : SPValue → Nat | .int v => v | _ => 0
def float64 : SPValue → Nat | .dbl v => v | _ => 0
def setInt64 (x : Nat) (_ : SPValue) : SPValue := .int x
def setFloat64 (x : Nat) : SPValue → SPValue
  | .dbl o => .dbl (setF o x)
  | _ => .dbl x
def histogram : Lens SPValue SHist :=
  ⟨fun v => match v with | .hist h => h | _ => {}, fun h v => match v with | .hist _ => .hist h | _ => v⟩
def expHistogram : Lens SPValue SExp :=
  ⟨fun v => match v with | .exp e => e | _ => {}, fun e v => match v with | .exp _ => .exp e | _ => v⟩
def summary : Lens SPValue SSummary :=
  ⟨fun v => match v with | .summary s => s | _ => {}, fun s v => match v with | .summary _ => .summary s | _ => v⟩
end OPointValue

namespace OHistogramValue
def count (h : SHist) : Nat := h.count
def setCount (v : Nat) (h : SHist) : SHist := { h with count := v }
def hasSum (h : SHist) : Bool := h.sum.isSome
def sum (h : SHist) : Nat := h.sum.getD 0
def setSum (v : Nat) (h : SHist) : SHist := { h with sum := setOptF h.sum (some v) }
def unsetSum (h : SHist) : SHist := { h with sum := none }
def hasMin (h : SHist) : Bool := h.min.isSome
def min (h : SHist) : Nat := h.min.getD 0
def setMin (v : Nat) (h : SHist) : SHist := { h with min := setOptF h.min (some v) }
def unsetMin (h : SHist) : SHist := { h with min := none }
def hasMax (h : SHist) : Bool := h.max.isSome
def max (h : SHist) : Nat := h.max.getD 0
def setMax (v : Nat) (h : SHist) : SHist := { h with max := setOptF h.max (some v) }
def unsetMax (h : SHist) : SHist := { h with max := none }
def bucketCounts : Lens SHist (List Nat) := ⟨fun h => h.buckets, fun v h => { h with buckets := v }⟩
end OHistogramValue

namespace OUint64Array
def len (a : List Nat) : Nat := a.length
def elems (a : List Nat) : List Nat := a
/-- `CopyFromSlice(src)`: `if !equal(elems, src) { EnsureLen; copy }` -/
def copyFromSlice (src : List Nat) (_ : List Nat) : List Nat := src
end OUint64Array

namespace OFloat64Array
def len (a : List Nat) : Nat := a.length
def elems (a : List Nat) : List Nat := a
end OFloat64Array

namespace OExpHistogramValue
def count (e : SExp) : Nat := e.count
def setCount (v : Nat) (e : SExp) : SExp := { e with count := v }
def hasSum (e : SExp) : Bool := e.sum.isSome
def sum (e : SExp) : Nat := e.sum.getD 0
def setSum (v : Nat) (e : SExp) : SExp := { e with sum := setOptF e.sum (some v) }
def unsetSum (e : SExp) : SExp := { e with sum := none }
def hasMin (e : SExp) : Bool := e.min.isSome
def min (e : SExp) : Nat := e.min.getD 0
def setMin (v : Nat) (e : SExp) : SExp := { e with min := setOptF e.min (some v) }
def unsetMin (e : SExp) : SExp := { e with min := none }
def hasMax (e : SExp) : Bool := e.max.isSome
def max (e : SExp) : Nat := e.max.getD 0
def setMax (v : Nat) (e : SExp) : SExp := { e with max := setOptF e.max (some v) }
def unsetMax (e : SExp) : SExp := { e with max := none }
def scale (e : SExp) : Nat := e.scale
def setScale (v : Nat) (e : SExp) : SExp := { e with scale := v }
def zeroCount (e : SExp) : Nat := e.zeroCount
def setZeroCount (v : Nat) (e : SExp) : SExp := { e with zeroCount := v }
def zeroThreshold (e : SExp) : Nat := e.zeroThreshold
def setZeroThreshold (v : Nat) (e : SExp) : SExp := { e with zeroThreshold := setF e.zeroThreshold v }
def positiveBuckets : Lens SExp SBuckets := ⟨fun e => e.pos, fun v e => { e with pos := v }⟩
def negativeBuckets : Lens SExp SBuckets := ⟨fun e => e.neg, fun v e => { e with neg := v }⟩
end OExpHistogramValue

namespace OExpHistogramBuckets
def offset (b : SBuckets) : Nat := b.offset
def setOffset (v : Nat) (b : SBuckets) : SBuckets := { b with offset := v }
def bucketCounts : Lens SBuckets (List Nat) := ⟨fun b => b.counts, fun v b => { b with counts := v }⟩
end OExpHistogramBuckets

namespace OSummaryValue
def count (s : SSummary) : Nat := s.count
def setCount (v : Nat) (s : SSummary) : SSummary := { s with count := v }
def sum (s : SSummary) : Nat := s.sum
def setSum (v : Nat) (s : SSummary) : SSummary := { s with sum := setF s.sum v }
def quantileValues : Lens SSummary (List (Nat × Nat)) := ⟨fun s => s.quantiles, fun v s => { s with quantiles := v }⟩
end OSummaryValue

namespace OQuantileValueArray
def len (a : List (Nat × Nat)) : Nat := a.length
def elems (a : List (Nat × Nat)) : List (Nat × Nat) := a
/-- `EnsureLen(n)`: shorter, or longer by elements in their initial state (an element that was hidden
    and is exposed again is reset). -/
def ensureLen (n : Nat) (a : List (Nat × Nat)) : List (Nat × Nat) := a.take n ++ List.replicate (n - a.length) (0, 0)
def elem (i : Nat) : Lens (List (Nat × Nat)) (Nat × Nat) := atL i (0, 0)
end OQuantileValueArray

namespace OQuantileValue
def quantile (q : Nat × Nat) : Nat := q.1
def value (q : Nat × Nat) : Nat := q.2
def setQuantile (v : Nat) (q : Nat × Nat) : Nat × Nat := (setF q.1 v, q.2)
def setValue (v : Nat) (q : Nat × Nat) : Nat × Nat := (q.1, setF q.2 v)
end OQuantileValue

namespace OExemplarArray
/-- `len(e.elems)` -/
def len (a : ExArr) : Nat := (a.store.take a.len).length
/-- the visible elements -/
def elems (a : ExArr) : List SExemplar := a.store.take a.len
/-- `EnsureLen(n)`: `exEnsureLen` of the hand model (elements are kept in the store when the array
    shrinks and are reset - attributes emptied, their storage kept - when exposed again). -/
def ensureLen (n : Nat) (a : ExArr) : ExArr := ⟨exEnsureLen a.store a.len n, n⟩
def elem (i : Nat) : Lens ExArr SExemplar :=
  ⟨fun a => a.store.getD i {}, fun v a => { a with store := a.store.set i v }⟩
end OExemplarArray

namespace OExemplar
def timestamp (e : SExemplar) : Nat := e.ts
def setTimestamp (v : Nat) (e : SExemplar) : SExemplar := { e with ts := v }
def traceID (e : SExemplar) : List Nat := e.traceID
def setTraceID (v : List Nat) (e : SExemplar) : SExemplar := { e with traceID := v }
def spanID (e : SExemplar) : List Nat := e.spanID
def setSpanID (v : List Nat) (e : SExemplar) : SExemplar := { e with spanID := v }
def value : Lens SExemplar ExValue := ⟨fun e => e.value, fun v e => { e with value := v }⟩
def filteredAttributes : Lens SExemplar SAttrs := ⟨fun e => e.attrs, fun v e => { e with attrs := v }⟩
end OExemplar

namespace OExemplarValue
/-- `Type()`: the numbering is checked against the regenerated constants `c_ExemplarValueType*`. -/
def type : ExValue → Nat
  | .none => 0 | .int _ => 1 | .dbl _ => 2
def int64 : ExValue → Nat | .int v => v | _ => 0
def float64 : ExValue → Nat | .dbl v => v | _ => 0
def setInt64 (x : Nat) (_ : ExValue) : ExValue := .int x
def setFloat64 (x : Nat) : ExValue → ExValue
  | .dbl o => .dbl (setF o x)
  | _ => .dbl x
/-- `SetType(t)`; the generator accepts `ExemplarValueTypeNone` only. -/
def setType (t : Nat) (v : ExValue) : ExValue := if type v == t then v else .none
end OExemplarValue

namespace OAttributes
/-- `dst.CopyFrom(src)` where both are references. -/
def copyFrom {σ ρ : Type} (dst src : Ref σ SAttrs) : M σ ρ Unit := ⟨fun h =>
  .next () (dst.set (SAttrs.copyFrom (src.get h).visible (dst.get h)) h)⟩
end OAttributes

namespace OMetric
def monotonic (m : SMetric) : Bool := m.mono
def aggregationTemporality (m : SMetric) : Nat := m.temp
def histogramBounds : Lens SMetric (List Nat) := ⟨fun m => m.bounds, fun v m => { m with bounds := v }⟩
end OMetric

/-- `c.Otlp2tef.MapSorted(m, out)` (otlptools, another generator's target: the hand model's function). -/
def otlp2stefMapSorted {σ ρ : Type} (m : KVs) (out : Ref σ SAttrs) : M σ ρ Unit := upd out (SAttrs.mapSorted m)

/-- `otlptools.TefToOtlpMap(in, out)` into a map that is empty (a `pcommon.NewMap()` at both call
    sites); total in the hand model. -/
def tefToOtlpMap {σ ρ : Type} (src : SAttrs) (out : Ref σ KVs) : M σ ρ Err := ⟨fun h =>
  .next none (out.set src.toOtlp h)⟩

/-! ### pdata (pmetric, pcommon), on the records of the hand model -/

/-- `pmetric.ExponentialHistogramDataPointBuckets` -/
structure PBuckets where
  offset : Nat := 0
  counts : List Nat := []

namespace PDataPointFlags
def noRecordedValue (f : Nat) : Bool := f % 2 == 1
def withNoRecordedValue (b : Bool) (f : Nat) : Nat := if b then f ||| 1 else f - f % 2
end PDataPointFlags

namespace PUInt64Slice
def len (a : List Nat) : Nat := a.length
def asRaw (a : List Nat) : List Nat := a
def ensureCapacity (_ : Nat) (a : List Nat) : List Nat := a
def append (v : Nat) (a : List Nat) : List Nat := a ++ [v]
end PUInt64Slice

namespace PFloat64Slice
def len (a : List Nat) : Nat := a.length
def asRaw (a : List Nat) : List Nat := a
def ensureCapacity (_ : Nat) (a : List Nat) : List Nat := a
def append (v : Nat) (a : List Nat) : List Nat := a ++ [v]
end PFloat64Slice

namespace PMap
/-- `src.MoveTo(dst)`: `dst` gets the content, `src` is left empty. -/
def moveTo {σ ρ : Type} (src dst : Ref σ KVs) : M σ ρ Unit := ⟨fun h =>
  .next () (src.set .nil (dst.set (src.get h) h))⟩
end PMap

/-! what the five data point kinds have in common -/
namespace PAnyPoint
def timestamp (p : Point) : Nat := p.ts
def startTimestamp (p : Point) : Nat := p.start
def flags (p : Point) : Nat := p.flags
def setTimestamp (v : Nat) (p : Point) : Point := { p with ts := v }
def setStartTimestamp (v : Nat) (p : Point) : Point := { p with start := v }
def setFlags (v : Nat) (p : Point) : Point := { p with flags := v }
def count (p : Point) : Nat := p.count
def setCount (v : Nat) (p : Point) : Point := { p with count := v }
def hasSum (p : Point) : Bool := p.hasSum
def sum (p : Point) : Nat := p.sum
def setSum (v : Nat) (p : Point) : Point := { p with hasSum := true, sum := v }
def hasMin (p : Point) : Bool := p.hasMin
def min (p : Point) : Nat := p.min
def setMin (v : Nat) (p : Point) : Point := { p with hasMin := true, min := v }
def hasMax (p : Point) : Bool := p.hasMax
def max (p : Point) : Nat := p.max
def setMax (v : Nat) (p : Point) : Point := { p with hasMax := true, max := v }
def attributes : Lens Point KVs := ⟨fun p => p.attrs, fun v p => { p with attrs := v }⟩
def exemplars : Lens Point (List Exemplar) := ⟨fun p => p.exemplars, fun v p => { p with exemplars := v }⟩
end PAnyPoint

namespace PNumberDataPoint
export PAnyPoint (timestamp startTimestamp flags setTimestamp setStartTimestamp setFlags attributes exemplars)
def valueType (p : Point) : Nat := p.vt
def intValue (p : Point) : Nat := p.v
def doubleValue (p : Point) : Nat := p.v
def setIntValue (v : Nat) (p : Point) : Point := { p with vt := 1, v := v }
def setDoubleValue (v : Nat) (p : Point) : Point := { p with vt := 2, v := v }
end PNumberDataPoint

namespace PHistogramDataPoint
export PAnyPoint (timestamp startTimestamp flags setTimestamp setStartTimestamp setFlags attributes exemplars
  count setCount hasSum sum setSum hasMin min setMin hasMax max setMax)
def bucketCounts : Lens Point (List Nat) := ⟨fun p => p.buckets, fun v p => { p with buckets := v }⟩
def explicitBounds : Lens Point (List Nat) := ⟨fun p => p.bounds, fun v p => { p with bounds := v }⟩
end PHistogramDataPoint

namespace PExponentialHistogramDataPoint
export PAnyPoint (timestamp startTimestamp flags setTimestamp setStartTimestamp setFlags attributes exemplars
  count setCount hasSum sum setSum hasMin min setMin hasMax max setMax)
def scale (p : Point) : Nat := p.scale
def setScale (v : Nat) (p : Point) : Point := { p with scale := v }
def zeroCount (p : Point) : Nat := p.zeroCount
def setZeroCount (v : Nat) (p : Point) : Point := { p with zeroCount := v }
def zeroThreshold (p : Point) : Nat := p.zeroThreshold
def setZeroThreshold (v : Nat) (p : Point) : Point := { p with zeroThreshold := v }
def positive : Lens Point PBuckets :=
  ⟨fun p => ⟨p.posOff, p.pos⟩, fun v p => { p with posOff := v.offset, pos := v.counts }⟩
def negative : Lens Point PBuckets :=
  ⟨fun p => ⟨p.negOff, p.neg⟩, fun v p => { p with negOff := v.offset, neg := v.counts }⟩
end PExponentialHistogramDataPoint

namespace PExponentialHistogramDataPointBuckets
def offset (b : PBuckets) : Nat := b.offset
def setOffset (v : Nat) (b : PBuckets) : PBuckets := { b with offset := v }
def bucketCounts : Lens PBuckets (List Nat) := ⟨fun b => b.counts, fun v b => { b with counts := v }⟩
end PExponentialHistogramDataPointBuckets

namespace PSummaryDataPoint
export PAnyPoint (timestamp startTimestamp flags setTimestamp setStartTimestamp setFlags attributes count setCount sum)
/-- `SummaryDataPoint.SetSum`: a summary's sum is not optional -/
def setSum (v : Nat) (p : Point) : Point := { p with sum := v }
def quantileValues : Lens Point (List (Nat × Nat)) := ⟨fun p => p.quantiles, fun v p => { p with quantiles := v }⟩
end PSummaryDataPoint

namespace PSummaryDataPointValueAtQuantileSlice
def len (a : List (Nat × Nat)) : Nat := a.length
def elems (a : List (Nat × Nat)) : List (Nat × Nat) := a
def ensureCapacity (_ : Nat) (a : List (Nat × Nat)) : List (Nat × Nat) := a
def dflt : Nat × Nat := (0, 0)
end PSummaryDataPointValueAtQuantileSlice

namespace PSummaryDataPointValueAtQuantile
def quantile (q : Nat × Nat) : Nat := q.1
def value (q : Nat × Nat) : Nat := q.2
def setQuantile (v : Nat) (q : Nat × Nat) : Nat × Nat := (v, q.2)
def setValue (v : Nat) (q : Nat × Nat) : Nat × Nat := (q.1, v)
end PSummaryDataPointValueAtQuantile

namespace PExemplarSlice
def len (a : List Exemplar) : Nat := a.length
def elems (a : List Exemplar) : List Exemplar := a
def dflt : Exemplar := {}
end PExemplarSlice

namespace PExemplar
def timestamp (e : Exemplar) : Nat := e.ts
def setTimestamp (v : Nat) (e : Exemplar) : Exemplar := { e with ts := v }
def valueType (e : Exemplar) : Nat := e.vt
def intValue (e : Exemplar) : Nat := e.v
def doubleValue (e : Exemplar) : Nat := e.v
def setIntValue (v : Nat) (e : Exemplar) : Exemplar := { e with vt := 1, v := v }
def setDoubleValue (v : Nat) (e : Exemplar) : Exemplar := { e with vt := 2, v := v }
def traceID (e : Exemplar) : List Nat := e.traceID
def setTraceID (v : List Nat) (e : Exemplar) : Exemplar := { e with traceID := v }
def spanID (e : Exemplar) : List Nat := e.spanID
def setSpanID (v : List Nat) (e : Exemplar) : Exemplar := { e with spanID := v }
def filteredAttributes : Lens Exemplar KVs := ⟨fun e => e.attrs, fun v e => { e with attrs := v }⟩
end PExemplar

/-! the slices of data points: `AppendEmpty()` appends a point in its initial state -/
namespace PDataPointSlice
def dflt : Point := {}
end PDataPointSlice

/-! `pmetric.Metric`; `Gauge()`, `Sum()` ... are the metric itself seen as that kind (only called on a
    metric of that type: `AppendOTLPPoint` switches on `Type()`). -/
namespace PMetric
def type (m : Metric) : Nat :=
  match m.type with | .gauge => 1 | .sum => 2 | .hist => 3 | .exp => 4 | .summary => 5
def self : Lens Metric Metric := ⟨fun m => m, fun v _ => v⟩
def gauge := self
def sum := self
def histogram := self
def exponentialHistogram := self
def summary := self
end PMetric

namespace PMetricData
def dataPoints : Lens Metric (List Point) := ⟨fun m => m.points, fun v m => { m with points := v }⟩
def setIsMonotonic (b : Bool) (m : Metric) : Metric := { m with mono := b }
def setAggregationTemporality (t : Nat) (m : Metric) : Metric := { m with temp := t }
end PMetricData

end Stef.PointFlowSem
