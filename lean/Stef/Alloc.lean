/-
  Stef.Alloc: transcription of go/pkg/allocsizechecker.go. `uint` is 64 bit; `bits.Add` /
  `bits.Mul` are modelled exactly (carry / high word).
-/
import Stef.Gen.Consts

namespace Stef.Alloc

def maxUint : Nat := 2 ^ 64 - 1

structure Checker where
  allocatedSize : Nat := 0
  deriving Repr, DecidableEq

/-- `bits.Add(x, y, 0)` -/
def add64 (x y : Nat) : Nat × Nat := ((x + y) % 2 ^ 64, (x + y) / 2 ^ 64)
/-- `bits.Mul(x, y)` = (hi, lo) -/
def mul64 (x y : Nat) : Nat × Nat := ((x * y) / 2 ^ 64, (x * y) % 2 ^ 64)

def Checker.reset (_ : Checker) : Checker := {}

def Checker.addAllocSize (a : Checker) (size : Nat) : Checker :=
  let (s, carry) := add64 a.allocatedSize size
  if carry ≠ 0 then { allocatedSize := maxUint } else { allocatedSize := s }

def Checker.isOverLimit (a : Checker) : Bool := a.allocatedSize > Gen.recordAllocLimit

/-- returns the new state and whether an error (ErrRecordAllocLimitExceeded) is returned -/
def Checker.prepAllocSize (a : Checker) (size : Nat) : Checker × Bool :=
  let (s, carry) := add64 a.allocatedSize size
  if carry ≠ 0 then ({ allocatedSize := maxUint }, true)
  else
    let a' : Checker := { allocatedSize := s }
    (a', a'.isOverLimit)

def Checker.prepAllocSizeN (a : Checker) (size count : Nat) : Checker × Bool :=
  let (hi, total) := mul64 size count
  if hi ≠ 0 then ({ allocatedSize := maxUint }, true)
  else
    let (s, carry) := add64 a.allocatedSize total
    if carry ≠ 0 then ({ allocatedSize := maxUint }, true)
    else
      let a' : Checker := { allocatedSize := s }
      (a', a'.isOverLimit)

end Stef.Alloc
