/-
  Sub-driver for the OTLP <-> STEF converter models (first token `otlp`).

    otlp m2s-u <METRICS>    records of otlpToStefUnsorted, rendered, joined by " ; "
    otlp m2s-s <METRICS>    records of otlpToStefSorted
    otlp rt-uu|rt-us|rt-su|rt-ss <METRICS>
                            data points of (stefToOtlp{Unsorted,Sorted} ∘ otlpToStef{Unsorted,Sorted}), in the
                            order of the resulting batch, joined by " ; "
    otlp t2s-u|t2s-s <TRACES>   span records of tracesToStef false/true

  Input encoding and output formats: harness/cmd/h_otlp/{enc,canon}.go. Core Lean only.
-/
import Stef.Base
import Stef.Otlp
import Stef.Driver.Core

namespace Stef.Driver.Otlp
open Stef Stef.Otlp

structure St where
  dummy : Unit := ()

/-! ### parsing -/

abbrev P := StateT (List String) Option

def tok : P String := do
  match (← get) with
  | [] => failure
  | t :: rest => set rest; pure t

def hexNat (s : String) : Option Nat :=
  if s.isEmpty then none
  else s.toList.foldlM (fun (acc : Nat) c => (hexVal c).map (fun d => acc * 16 + d)) 0

def num : P Nat := do
  match hexNat (← tok) with
  | some n => pure n
  | none => failure

def hexBytesAux : List Char → List Nat → Option (List Nat)
  | [], acc => some acc.reverse
  | [_], _ => none
  | a :: b :: rest, acc =>
    match hexVal a, hexVal b with
    | some x, some y => hexBytesAux rest ((x * 16 + y) :: acc)
    | _, _ => none

def str : P Str := do
  let t ← tok
  if t == "-" then pure [] else
  match hexBytesAux t.toList [] with
  | some b => pure b
  | none => failure

def boolean : P Bool := do pure ((← num) != 0)

def listOf {α : Type} (p : P α) : Nat → P (List α)
  | 0 => pure []
  | n + 1 => do
    let x ← p
    let xs ← listOf p n
    pure (x :: xs)

def nums : P (List Nat) := do
  let n ← num
  listOf num n

mutual
  def pValue : Nat → P AnyValue
    | 0 => failure
    | fuel + 1 => do
      match (← tok) with
      | "n" => pure .empty
      | "s" => do pure (.str (← str))
      | "b" => do pure (.bool (← boolean))
      | "i" => do pure (.int (← num))
      | "d" => do pure (.dbl (← num))
      | "y" => do pure (.bytes (← str))
      | "a" => do
        let n ← num
        pure (.slice (← pValues fuel n))
      | "m" => do
        let n ← num
        pure (.map (← pKVs fuel n))
      | _ => failure
  def pValues : Nat → Nat → P Values
    | 0, _ => failure
    | _, 0 => pure .nil
    | fuel + 1, n + 1 => do
      let v ← pValue fuel
      let t ← pValues fuel n
      pure (.cons v t)
  def pKVs : Nat → Nat → P KVs
    | 0, _ => failure
    | _, 0 => pure .nil
    | fuel + 1, n + 1 => do
      let k ← str
      let v ← pValue fuel
      let t ← pKVs fuel n
      pure (.cons k v t)
end

def pAttrs : P KVs := do
  let fuel := (← get).length + 2
  let n ← num
  pKVs fuel n

def pExemplar : P Exemplar := do
  let ts ← num
  let vt ← num
  let v ← num
  let tr ← str
  let sp ← str
  let a ← pAttrs
  pure { ts := ts, vt := vt, v := v, traceID := tr, spanID := sp, attrs := a }

def pPoint : P Point := do
  let attrs ← pAttrs
  let start ← num
  let ts ← num
  let flags ← num
  let vt ← num
  let v ← num
  let count ← num
  let hasSum ← boolean
  let sum ← num
  let hasMin ← boolean
  let min ← num
  let hasMax ← boolean
  let max ← num
  let buckets ← nums
  let bounds ← nums
  let scale ← num
  let zeroCount ← num
  let zeroThreshold ← num
  let posOff ← num
  let pos ← nums
  let negOff ← num
  let neg ← nums
  let nq ← num
  let quantiles ← listOf (do let q ← num; let v ← num; pure (q, v)) nq
  let ne ← num
  let exemplars ← listOf pExemplar ne
  pure { attrs, start, ts, flags, vt, v, count, hasSum, sum, hasMin, min, hasMax, max, buckets, bounds, scale,
         zeroCount, zeroThreshold, posOff, pos, negOff, neg, quantiles, exemplars }

def pMetric : P Metric := do
  let name ← str
  let desc ← str
  let unit ← str
  let mdata ← pAttrs
  let ty ← num
  let temp ← num
  let mono ← boolean
  let np ← num
  let points ← listOf pPoint np
  match MType.ofNat? ty with
  | some t => pure { name, desc, unit, mdata, type := t, temp, mono, points }
  | none => failure

def pScopeMetrics : P ScopeMetrics := do
  let name ← str
  let ver ← str
  let url ← str
  let dropped ← num
  let attrs ← pAttrs
  let n ← num
  let metrics ← listOf pMetric n
  pure { name, ver, url, dropped, attrs, metrics }

def pResourceMetrics : P ResourceMetrics := do
  let url ← str
  let dropped ← num
  let attrs ← pAttrs
  let n ← num
  let scopes ← listOf pScopeMetrics n
  pure { url, dropped, attrs, scopes }

def pMetrics : P Metrics := do
  let n ← num
  let rms ← listOf pResourceMetrics n
  pure { rms }

def pEvent : P Event := do
  let name ← str
  let ts ← num
  let attrs ← pAttrs
  let dropped ← num
  pure { name, ts, attrs, dropped }

def pLink : P Link := do
  let traceID ← str
  let spanID ← str
  let traceState ← str
  let flags ← num
  let attrs ← pAttrs
  let dropped ← num
  pure { traceID, spanID, traceState, flags, attrs, dropped }

def pSpan : P Span := do
  let traceID ← str
  let spanID ← str
  let parent ← str
  let traceState ← str
  let flags ← num
  let name ← str
  let kind ← num
  let start ← num
  let stop ← num
  let attrs ← pAttrs
  let dropped ← num
  let droppedEvents ← num
  let droppedLinks ← num
  let statusCode ← num
  let statusMsg ← str
  let ne ← num
  let events ← listOf pEvent ne
  let nl ← num
  let links ← listOf pLink nl
  pure { traceID, spanID, parent, traceState, flags, name, kind, start, stop, attrs, dropped, droppedEvents,
         droppedLinks, statusCode, statusMsg, events, links }

def pScopeSpans : P ScopeSpans := do
  let name ← str
  let ver ← str
  let url ← str
  let dropped ← num
  let attrs ← pAttrs
  let n ← num
  let spans ← listOf pSpan n
  pure { name, ver, url, dropped, attrs, spans }

def pResourceSpans : P ResourceSpans := do
  let url ← str
  let dropped ← num
  let attrs ← pAttrs
  let n ← num
  let scopes ← listOf pScopeSpans n
  pure { url, dropped, attrs, scopes }

def pTraces : P Traces := do
  let n ← num
  let rss ← listOf pResourceSpans n
  pure { rss }

def runP {α : Type} (p : P α) (toks : List String) : Option α :=
  match p.run toks with
  | some (x, []) => some x
  | _ => none

/-! ### rendering -/

def hexDigits : Nat → Nat → List Char
  | 0, _ => []
  | fuel + 1, n => if n < 16 then [hexDigit n] else hexDigits fuel (n / 16) ++ [hexDigit (n % 16)]

/-- lower-case hex without leading zeros (Go: strconv.FormatUint(v, 16)) -/
def hx (n : Nat) : String := String.ofList (hexDigits 70 n)

def byteHex (b : Nat) : List Char := [hexDigit (b / 16 % 16), hexDigit (b % 16)]

/-- hex of a byte string, "-" when empty -/
def hs (s : Str) : String := if s.isEmpty then "-" else String.ofList (s.flatMap byteHex)

def b01 (b : Bool) : String := if b then "1" else "0"

def joinWith (sep : String) (l : List String) : String := sep.intercalate l

mutual
  def rValue : AnyValue → String
    | .empty => "n"
    | .str s => "s:" ++ hs s
    | .bool b => "b:" ++ b01 b
    | .int i => "i:" ++ hx i
    | .dbl f => "d:" ++ hx f
    | .bytes b => "y:" ++ hs b
    | .slice vs => "[" ++ joinWith "," (rValues vs) ++ "]"
    | .map kvs => "{" ++ joinWith "," (rKVs kvs) ++ "}"
  def rValues : Values → List String
    | .nil => []
    | .cons v t => rValue v :: rValues t
  def rKVs : KVs → List String
    | .nil => []
    | .cons k v t => (hs k ++ "=" ++ rValue v) :: rKVs t
end

def rAttrs (a : KVs) : String := "{" ++ joinWith "," (rKVs a) ++ "}"

def rNums (l : List Nat) : String := "[" ++ joinWith "," (l.map hx) ++ "]"

def rOpt : Option Nat → String
  | none => "-"
  | some v => hx v

def rId (id : Str) : String := if allZero id then "-" else hs id

def rExValue : ExValue → String
  | .none => "none"
  | .int v => "i:" ++ hx v
  | .dbl v => "d:" ++ hx v

def rDExemplar (e : DExemplar) : String :=
  "x(" ++ hx e.ts ++ "," ++ rExValue e.value ++ "," ++ rId e.spanID ++ "," ++ rId e.traceID ++ "," ++ rAttrs e.attrs ++ ")"

def rQuantiles (q : List (Nat × Nat)) : String :=
  "[" ++ joinWith "," (q.map fun p => hx p.1 ++ ":" ++ hx p.2) ++ "]"

def rPValue : PValue → String
  | .nrv => "nrv"
  | .empty => "empty"
  | .int v => "i:" ++ hx v
  | .dbl v => "d:" ++ hx v
  | .hist c s mn mx b bd =>
    "h(" ++ hx c ++ "," ++ rOpt s ++ "," ++ rOpt mn ++ "," ++ rOpt mx ++ "," ++ rNums b ++ "," ++ rNums bd ++ ")"
  | .exp c s mn mx sc zc zt po p no n =>
    "e(" ++ hx c ++ "," ++ rOpt s ++ "," ++ rOpt mn ++ "," ++ rOpt mx ++ "," ++ hx sc ++ "," ++ hx zc ++ "," ++ hx zt ++ ","
      ++ hx po ++ "," ++ rNums p ++ "," ++ hx no ++ "," ++ rNums n ++ ")"
  | .summary c s q => "q(" ++ hx c ++ "," ++ hx s ++ "," ++ rQuantiles q ++ ")"

def rDataPoint (d : DataPoint) : String :=
  let tm := match d.metric.type with
    | .sum => toString d.metric.temp ++ "," ++ b01 d.metric.mono
    | .hist | .exp => toString d.metric.temp ++ ",-"
    | _ => "-,-"
  "res(" ++ hs d.res.url ++ "," ++ hx d.res.dropped ++ "," ++ rAttrs d.res.attrs ++ ") " ++
  "scope(" ++ hs d.scope.name ++ "," ++ hs d.scope.ver ++ "," ++ hs d.scope.url ++ "," ++ hx d.scope.dropped ++ "," ++
    rAttrs d.scope.attrs ++ ") " ++
  "met(" ++ hs d.metric.name ++ "," ++ hs d.metric.desc ++ "," ++ hs d.metric.unit ++ "," ++ toString d.metric.type.toNat ++ "," ++
    tm ++ "," ++ rAttrs d.metric.mdata ++ ") " ++
  rAttrs d.attrs ++ " " ++ hx d.start ++ " " ++ hx d.ts ++ " " ++ hx d.flags ++ " " ++ rPValue d.value ++ " " ++
  "ex[" ++ joinWith "," (d.exemplars.map rDExemplar) ++ "]"

def rSExemplar (e : SExemplar) : String :=
  "x(" ++ hx e.ts ++ "," ++ rExValue e.value ++ "," ++ hs e.spanID ++ "," ++ hs e.traceID ++ "," ++ rAttrs e.attrs.visible ++ ")"

def rSPValue : SPValue → String
  | .none => "none"
  | .int v => "i:" ++ hx v
  | .dbl v => "d:" ++ hx v
  | .hist h => "h(" ++ hx h.count ++ "," ++ rOpt h.sum ++ "," ++ rOpt h.min ++ "," ++ rOpt h.max ++ "," ++ rNums h.buckets ++ ")"
  | .exp e =>
    "e(" ++ hx e.count ++ "," ++ rOpt e.sum ++ "," ++ rOpt e.min ++ "," ++ rOpt e.max ++ "," ++ hx e.scale ++ "," ++ hx e.zeroCount
      ++ "," ++ hx e.zeroThreshold ++ "," ++ hx e.pos.offset ++ "," ++ rNums e.pos.counts ++ "," ++ hx e.neg.offset ++ ","
      ++ rNums e.neg.counts ++ ")"
  | .summary s => "q(" ++ hx s.count ++ "," ++ hx s.sum ++ "," ++ rQuantiles s.quantiles ++ ")"

def rRecord (r : SRecord) : String :=
  "metric(" ++ hs r.metric.name ++ "," ++ hs r.metric.desc ++ "," ++ hs r.metric.unit ++ "," ++ hx r.metric.type ++ "," ++
    rAttrs r.metric.mdata.visible ++ "," ++ rNums r.metric.bounds ++ "," ++ hx r.metric.temp ++ "," ++ b01 r.metric.mono ++ ") " ++
  "res(" ++ hs r.resource.url ++ "," ++ hx r.resource.dropped ++ "," ++ rAttrs r.resource.attrs.visible ++ ") " ++
  "scope(" ++ hs r.scope.name ++ "," ++ hs r.scope.ver ++ "," ++ hs r.scope.url ++ "," ++ hx r.scope.dropped ++ "," ++
    rAttrs r.scope.attrs.visible ++ ") " ++
  rAttrs r.attrs.visible ++ " " ++
  "pt(" ++ hx r.point.start ++ "," ++ hx r.point.ts ++ "," ++ rSPValue r.point.value ++ ",ex[" ++
    joinWith "," (r.point.exemplars.map rSExemplar) ++ "])"

def rEventRec (e : EventRec) : String :=
  hs e.name ++ " " ++ hx e.ts ++ " " ++ rAttrs e.attrs ++ " " ++ hx e.dropped

def rLinkRec (l : LinkRec) : String :=
  hs l.traceID ++ " " ++ hs l.spanID ++ " " ++ hs l.traceState ++ " " ++ hx l.flags ++ " " ++ rAttrs l.attrs ++ " " ++ hx l.dropped

def rSpanRecord (r : SpanRecord) : String :=
  joinWith " " ([hs r.resURL, rAttrs r.resAttrs, hx r.resDropped, hs r.scName, hs r.scVer, hs r.scURL, rAttrs r.scAttrs,
    hx r.scDropped, hs r.traceID, hs r.spanID, hs r.parent, hs r.traceState, hx r.flags, hs r.name, hx r.kind, hx r.start,
    hx r.stop, rAttrs r.attrs, hx r.dropped, hs r.statusMsg, hx r.statusCode, toString r.events.length]
    ++ r.events.map rEventRec ++ [toString r.links.length] ++ r.links.map rLinkRec)

def rErr (e : String) : String := if e.startsWith "panic" then "panic" else "err"

/-! ### operations -/

def toStef (sorted : Bool) (m : Metrics) : Except String (List SRecord) :=
  if sorted then otlpToStefSorted m else otlpToStefUnsorted m

def toOtlp (sorted : Bool) (recs : List SRecord) : Except String Metrics :=
  if recs.isEmpty then .ok {}            -- nothing written: the harness does not read back
  else if sorted then stefToOtlpSorted recs else stefToOtlpUnsorted recs

def opRecords (sorted : Bool) (toks : List String) : String :=
  match runP pMetrics toks with
  | none => "bad-op"
  | some m =>
    match toStef sorted m with
    | .error e => rErr e
    | .ok recs => joinWith " ; " (recs.map rRecord)

def opRoundTrip (wSorted rSorted : Bool) (toks : List String) : String :=
  match runP pMetrics toks with
  | none => "bad-op"
  | some m =>
    match toStef wSorted m with
    | .error e => rErr e
    | .ok recs =>
      match toOtlp rSorted recs with
      | .error e => rErr e
      | .ok m' => joinWith " ; " ((flatten m').map rDataPoint)

def opTraces (sorted : Bool) (toks : List String) : String :=
  match runP pTraces toks with
  | none => "bad-op"
  | some t =>
    joinWith " ; " ((tracesToStef sorted t).map rSpanRecord)

def step (st : St) (toks : List String) : St × String :=
  match toks with
  | "otlp" :: "m2s-u" :: rest => (st, opRecords false rest)
  | "otlp" :: "m2s-s" :: rest => (st, opRecords true rest)
  | "otlp" :: "rt-uu" :: rest => (st, opRoundTrip false false rest)
  | "otlp" :: "rt-us" :: rest => (st, opRoundTrip false true rest)
  | "otlp" :: "rt-su" :: rest => (st, opRoundTrip true false rest)
  | "otlp" :: "rt-ss" :: rest => (st, opRoundTrip true true rest)
  | "otlp" :: "t2s-u" :: rest => (st, opTraces false rest)
  | "otlp" :: "t2s-s" :: rest => (st, opTraces true rest)
  | _ => (st, "bad-op")

end Stef.Driver.Otlp
