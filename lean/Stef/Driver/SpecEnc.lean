import Stef.SpecEnc
import Stef.Driver.Spec

/-
  Sub-driver `se`: the Lean ENCODER (Stef.SpecEnc) against streams written by the real writers.

    se schema <id> <enc>                 register a schema (same encoding as `sd schema`)      -> ok
    se reencode <id> <root> <hex>        decode the uncompressed stream with the marked decoder,
                                         re-encode every frame from the recovered marks with
                                         `encodeNode`, compare frame contents byte for byte      -> same
                                         (else: `frame <i>: <first difference>` / `error <e>`)
    se stat <id> <root> <hex>            same run, prints `<result> frames=<n> records=<n>`
-/
namespace Stef.Driver.SpecEncD
open Stef Stef.Spec Stef.SpecEnc

structure St where
  schemas : List (String × Schema) := []

def step (st : St) (toks : List String) : St × String :=
  match toks with
  | ["se", "schema", id, enc] =>
    match SpecD.parseSchema enc with
    | some σ => ({ st with schemas := (id, σ) :: st.schemas.filter (·.1 ≠ id) }, "ok")
    | none => (st, "bad-schema")
  | ["se", "reencode", id, root, hex] =>
    match st.schemas.find? (·.1 = id), hexToBytes hex with
    | some (_, σ), some bytes => (st, (reencodeStream σ root bytes).result)
    | _, _ => (st, "bad-op")
  | ["se", "stat", id, root, hex] =>
    match st.schemas.find? (·.1 = id), hexToBytes hex with
    | some (_, σ), some bytes =>
      let r := reencodeStream σ root bytes
      (st, s!"{r.result} frames={r.frames} records={r.records}")
    | _, _ => (st, "bad-op")
  | _ => (st, "bad-op")

end Stef.Driver.SpecEncD
