import Stef.Pipeline
import Stef.Driver.Core

/-
  Sub-driver of the pipeline model (token `pl`), one stream per `pl new`.
    pl new            -> ok
    pl push n         pushMetrics with n data points (fresh identities)   -> ok sent=<lastSentRecordId>
    pl emit k         a frame with the first k open records leaves          -> ok | not-enabled
    pl deliver        the receiver decodes the next chunk                   -> ok decoded=<RecordCount>
    pl accept         the consumer returned nil                             -> ok delivered=<points> na=<nextAckID>
    pl tick           responder tick                                        -> ok ack=<id> | ok noop
    pl ackrecv        the exporter's OnAck                                  -> ok acked=<lastAckedRecordId>
    pl state          -> sent=.. acked=.. pending=<len(sentPendingAck)> delivered=..
-/
namespace Stef.Driver.Pipeline
open Stef.Pipeline

structure St where
  s : PState := {}
  next : Nat := 0     -- next fresh point identity

def ev (st : St) (e : Event) (f : PState → PState → String) : St × String :=
  match Stef.Pipeline.step st.s e with
  | none => (st, "not-enabled")
  | some s' => ({ st with s := s' }, f st.s s')

def step (st : St) (toks : List String) : St × String :=
  match toks with
  | ["pl", "new"] => ({}, "ok")
  | ["pl", "push", n] =>
    match n.toNat? with
    | some n =>
      let pts := (List.range n).map (· + st.next)
      let (st', o) := ev st (.push pts) (fun _ s' => s!"ok sent={s'.lastSent}")
      ({ st' with next := st.next + n }, o)
    | none => (st, "bad-op")
  | ["pl", "emit", k] =>
    match k.toNat? with
    | some k => ev st (.emit k) (fun _ _ => "ok")
    | none => (st, "bad-op")
  | ["pl", "deliver"] => ev st .deliver (fun _ s' => s!"ok decoded={s'.decoded}")
  | ["pl", "accept"] => ev st .accept (fun _ s' => s!"ok delivered={s'.delivered.length} na={s'.nextAck}")
  | ["pl", "tick"] =>
    ev st .tick (fun s s' => if s'.back.length > s.back.length then s!"ok ack={s'.lastAckedR}" else "ok noop")
  | ["pl", "ackrecv"] => ev st .ackrecv (fun _ s' => s!"ok acked={s'.lastAckedX}")
  | ["pl", "state"] =>
    (st, s!"sent={st.s.lastSent} acked={st.s.lastAckedX} pending={st.s.pending.length} delivered={st.s.delivered.length}")
  | _ => (st, "bad-op")

end Stef.Driver.Pipeline
