import Stef.Codec
import Stef.Driver.Core

namespace Stef.Driver.CodecD
open Stef Stef.Codec

structure St where
  -- encoders
  dod : Dod := {}
  dodBuf : Bytes := []
  f64 : F64 := {}
  f64w : BitsWriter := {}
  boolw : BitsWriter := {}
  strBuf : Bytes := []
  wdict : WDict := []
  dstrBuf : Bytes := []
  -- decoders
  ddod : Dod := {}
  ddodBuf : Bytes := []
  df64 : F64 := {}
  df64r : BitsReader := {}
  dboolr : BitsReader := {}
  dstrBuf2 : Bytes := []
  rdict : List Bytes := []
  ddstrBuf : Bytes := []

def hexOr (b : Bytes) : String := if b.isEmpty then "-" else bytesToHex b

def showErr : DecErr → String
  | .eof => "err:eof"
  | .invalidRefNum => "err:refnum"

def step (st : St) (toks : List String) : St × String :=
  match toks with
  | ["ce", "new"] => ({ st with dod := {}, dodBuf := [], f64 := {}, f64w := {}, boolw := {}, strBuf := [], wdict := [], dstrBuf := [] }, "ok")
  | ["ce", "reset"] => ({ st with dod := {}, f64 := {} }, "ok")
  | ["ce", "resetdict"] => ({ st with wdict := [] }, "ok")
  | ["ce", "u64", v] =>
    match hexToWord v with
    | some v => let (c, b) := st.dod.encode v; ({ st with dod := c, dodBuf := st.dodBuf ++ b }, "ok")
    | none => (st, "bad-op")
  | ["ce", "u64close"] => ({ st with dodBuf := [] }, hexOr st.dodBuf)
  | ["ce", "f64", v] =>
    match hexToWord v with
    | some v => let (c, w, _) := st.f64.encodeW st.f64w v; ({ st with f64 := c, f64w := w }, "ok")
    | none => (st, "bad-op")
  | ["ce", "f64close"] => ({ st with f64w := {} }, hexOr st.f64w.bytes)
  | ["ce", "bool", v] => ({ st with boolw := boolEncodeW st.boolw (v = "1") }, "ok")
  | ["ce", "boolclose"] => ({ st with boolw := {} }, hexOr st.boolw.bytes)
  | ["ce", "str", v] =>
    match hexToBytes v with
    | some v => ({ st with strBuf := st.strBuf ++ strEncode v }, "ok")
    | none => (st, "bad-op")
  | ["ce", "strclose"] => ({ st with strBuf := [] }, hexOr st.strBuf)
  | ["ce", "dstr", v] =>
    match hexToBytes v with
    | some v =>
      let (d, b, _) := strDictEncode st.wdict v
      ({ st with wdict := d, dstrBuf := st.dstrBuf ++ b }, "ok")
    | none => (st, "bad-op")
  | ["ce", "dstrclose"] => ({ st with dstrBuf := [] }, hexOr st.dstrBuf)
  | ["cx", "new"] => ({ st with ddod := {}, df64 := {}, rdict := [] }, "ok")
  | ["cx", "reset"] => ({ st with ddod := {}, df64 := {} }, "ok")
  | ["cx", "resetdict"] => ({ st with rdict := [] }, "ok")
  | ["cx", "load", kind, h] =>
    match hexToBytes h with
    | none => (st, "bad-op")
    | some b =>
      match kind with
      | "u64" => ({ st with ddodBuf := b }, "ok")
      | "f64" => ({ st with df64r := { buf := b } }, "ok")
      | "bool" => ({ st with dboolr := { buf := b } }, "ok")
      | "str" => ({ st with dstrBuf2 := b }, "ok")
      | "dstr" => ({ st with ddstrBuf := b }, "ok")
      | _ => (st, "bad-op")
  | ["cx", "u64"] =>
    match st.ddod.decode st.ddodBuf with
    | none => (st, "err:eof")
    | some (c, v, rest) => ({ st with ddod := c, ddodBuf := rest }, wordToHex v)
  | ["cx", "f64"] =>
    let (c, r, v) := st.df64.decodeR st.df64r
    ({ st with df64 := c, df64r := r }, s!"{wordToHex v} eof={if r.err then 1 else 0}")
  | ["cx", "bool"] =>
    let (r, v) := boolDecodeR st.dboolr
    ({ st with dboolr := r }, s!"{if v then 1 else 0} eof={if r.err then 1 else 0}")
  | ["cx", "str"] =>
    match strDecode st.dstrBuf2 with
    | .error e => (st, showErr e)
    | .ok (v, rest) => ({ st with dstrBuf2 := rest }, hexOr v)
  | ["cx", "dstr"] =>
    match strDictDecode st.rdict st.ddstrBuf with
    | .error e => (st, showErr e)
    | .ok (d, v, rest) => ({ st with rdict := d, ddstrBuf := rest }, hexOr v)
  | _ => (st, "bad-op")

end Stef.Driver.CodecD
