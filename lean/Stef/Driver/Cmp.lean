/-
  Sub-driver for property C09 (harness h_cmp). Line protocol (first token selects this driver):

    prim u64cmp|i64cmp|f64cmp <hex> <hex>         -> <int>        pkg.Uint64Compare / Int64Compare / Float64Compare
    prim boolcmp <0|1> <0|1>                      -> <int>        pkg.BoolCompare
    prim strcmp|bytescmp <hexbytes|-> <hexbytes|-> -> <int>       pkg.StringCompare / BytesCompare
    prim u64eq|i64eq|f64eq|booleq|streq|byteseq a b -> true|false pkg.*Equal
    prim fltops <hex> <hex>                       -> lt=<0|1> gt=<0|1> eq=<0|1>   Go's <, >, == on float64
    cmp <A> <B>                                   -> <int>        Cmp<Type>(A, B)
    eq <A> <B>                                    -> true|false   A.IsEqual(B)
    clone <A>                                     -> <value>      A.Clone()
    copy <D> <S>                                  -> <value>      D.CopyFrom(S); state of D

  Canonical values (one token, produced by the harness' own dump of the real objects):
    u<hex> i<hex> b<0|1> f<hex bits> s<hexbytes> y<hexbytes>     primitives (s = string, y = bytes)
    N                                                            nil dictionary-struct pointer
    S(<f>,<f>,...)   with <f> = !<v> required | +<v> optional present | -<v> optional absent (stored value)
    O                oneof with typ None;   C<hex k>(<v>)   oneof with typ k+1
    A[<v>,...]       array;                 M[<k>=<v>,...]  multimap
-/
import Stef.Cmp
import Stef.Driver.Core

namespace Stef.Driver.Cmp
open Stef Stef.Cmp

structure St where
  unit : Unit := ()

abbrev V := Value PrimVal

/-! printing -/

def natToHex (n : Nat) : String :=
  if n = 0 then "0" else String.ofList ((Nat.toDigits 16 n))

def showPrim : PrimVal → String
  | .u64 w => "u" ++ natToHex w.toNat
  | .i64 w => "i" ++ natToHex w.toNat
  | .bool b => if b then "b1" else "b0"
  | .f64 w => "f" ++ natToHex w.toNat
  | .str s => "s" ++ String.join (s.map byteToHex)
  | .bytes s => "y" ++ String.join (s.map byteToHex)

mutual
def showV : V → String
  | .leaf a => showPrim a
  | .null => "N"
  | .struct fs => "S(" ++ showFs fs true ++ ")"
  | .none => "O"
  | .choice k v => "C" ++ natToHex k.toNat ++ "(" ++ showV v ++ ")"
  | .arr es => "A[" ++ showVs es true ++ "]"
  | .mmap ps => "M[" ++ showPs ps true ++ "]"
def showFs : Fields PrimVal → Bool → String
  | .nil, _ => ""
  | .cons p v rest, first =>
    (if first then "" else ",") ++
    (match p with | .req => "!" | .present => "+" | .absent => "-") ++ showV v ++ showFs rest false
def showVs : Values PrimVal → Bool → String
  | .nil, _ => ""
  | .cons v rest, first => (if first then "" else ",") ++ showV v ++ showVs rest false
def showPs : Pairs PrimVal → Bool → String
  | .nil, _ => ""
  | .cons k v rest, first =>
    (if first then "" else ",") ++ showV k ++ "=" ++ showV v ++ showPs rest false
end

/-! parsing (fuel = input length, so the parser is total) -/

def isHexChar (c : Char) : Bool := (hexVal c).isSome

def takeHex : List Char → List Char → List Char × List Char
  | c :: cs, acc => if isHexChar c then takeHex cs (c :: acc) else (acc.reverse, c :: cs)
  | [], acc => (acc.reverse, [])

def hexNat (cs : List Char) : Nat :=
  cs.foldl (fun acc c => acc * 16 + (hexVal c).getD 0) 0

def hexBytes (cs : List Char) : Option Bytes := hexToBytesAux cs []

mutual
def parseV : Nat → List Char → Option (V × List Char)
  | 0, _ => none
  | fuel + 1, cs =>
    match cs with
    | 'u' :: r => let (h, r) := takeHex r []; some (.leaf (.u64 (BitVec.ofNat 64 (hexNat h))), r)
    | 'i' :: r => let (h, r) := takeHex r []; some (.leaf (.i64 (BitVec.ofNat 64 (hexNat h))), r)
    | 'f' :: r => let (h, r) := takeHex r []; some (.leaf (.f64 (BitVec.ofNat 64 (hexNat h))), r)
    | 'b' :: '0' :: r => some (.leaf (.bool false), r)
    | 'b' :: '1' :: r => some (.leaf (.bool true), r)
    | 's' :: r => let (h, r) := takeHex r []; (hexBytes h).map fun b => (.leaf (.str b), r)
    | 'y' :: r => let (h, r) := takeHex r []; (hexBytes h).map fun b => (.leaf (.bytes b), r)
    | 'N' :: r => some (.null, r)
    | 'O' :: r => some (.none, r)
    | 'C' :: r =>
      let (h, r) := takeHex r []
      match r with
      | '(' :: r =>
        match parseV fuel r with
        | some (v, ')' :: r) => some (.choice (BitVec.ofNat 8 (hexNat h)) v, r)
        | _ => none
      | _ => none
    | 'S' :: '(' :: ')' :: r => some (.struct .nil, r)
    | 'S' :: '(' :: r =>
      match parseFs fuel r with
      | some (fs, ')' :: r) => some (.struct fs, r)
      | _ => none
    | 'A' :: '[' :: ']' :: r => some (.arr .nil, r)
    | 'A' :: '[' :: r =>
      match parseVs fuel r with
      | some (es, ']' :: r) => some (.arr es, r)
      | _ => none
    | 'M' :: '[' :: ']' :: r => some (.mmap .nil, r)
    | 'M' :: '[' :: r =>
      match parsePs fuel r with
      | some (ps, ']' :: r) => some (.mmap ps, r)
      | _ => none
    | _ => none
def parseFs : Nat → List Char → Option (Fields PrimVal × List Char)
  | 0, _ => none
  | fuel + 1, cs =>
    let pres : Option (Presence × List Char) :=
      match cs with
      | '!' :: r => some (.req, r)
      | '+' :: r => some (.present, r)
      | '-' :: r => some (.absent, r)
      | _ => none
    match pres with
    | none => none
    | some (p, r) =>
      match parseV fuel r with
      | some (v, ',' :: r) =>
        match parseFs fuel r with
        | some (rest, r) => some (.cons p v rest, r)
        | none => none
      | some (v, r) => some (.cons p v .nil, r)
      | none => none
def parseVs : Nat → List Char → Option (Values PrimVal × List Char)
  | 0, _ => none
  | fuel + 1, cs =>
    match parseV fuel cs with
    | some (v, ',' :: r) =>
      match parseVs fuel r with
      | some (rest, r) => some (.cons v rest, r)
      | none => none
    | some (v, r) => some (.cons v .nil, r)
    | none => none
def parsePs : Nat → List Char → Option (Pairs PrimVal × List Char)
  | 0, _ => none
  | fuel + 1, cs =>
    match parseV fuel cs with
    | some (k, '=' :: r) =>
      match parseV fuel r with
      | some (v, ',' :: r) =>
        match parsePs fuel r with
        | some (rest, r) => some (.cons k v rest, r)
        | none => none
      | some (v, r) => some (.cons k v .nil, r)
      | none => none
    | _ => none
end

def parse (s : String) : Option V :=
  let cs := s.toList
  match parseV (cs.length + 1) cs with
  | some (v, []) => some v
  | _ => none

def hexArg (s : String) : Option Word := hexToWord s

def boolArg (s : String) : Option Bool :=
  if s = "0" then some false else if s = "1" then some true else none

def b01 (b : Bool) : String := if b then "1" else "0"

def step (st : St) (toks : List String) : St × String :=
  match toks with
  | ["prim", f, a, b] =>
    let r : Option String :=
      match f with
      | "u64cmp" => do let a ← hexArg a; let b ← hexArg b; pure (toString (Gen.uint64Compare a b))
      | "i64cmp" => do let a ← hexArg a; let b ← hexArg b; pure (toString (Gen.int64Compare a b))
      | "f64cmp" => do let a ← hexArg a; let b ← hexArg b; pure (toString (Gen.float64Compare a b))
      | "boolcmp" => do let a ← boolArg a; let b ← boolArg b; pure (toString (Gen.boolCompare a b))
      | "strcmp" => do let a ← hexToBytes a; let b ← hexToBytes b; pure (toString (primCompare (.str a) (.str b)))
      | "bytescmp" => do let a ← hexToBytes a; let b ← hexToBytes b; pure (toString (primCompare (.bytes a) (.bytes b)))
      | "u64eq" => do let a ← hexArg a; let b ← hexArg b; pure (toString (Gen.uint64Equal a b))
      | "i64eq" => do let a ← hexArg a; let b ← hexArg b; pure (toString (Gen.int64Equal a b))
      | "f64eq" => do let a ← hexArg a; let b ← hexArg b; pure (toString (Gen.float64Equal a b))
      | "booleq" => do let a ← boolArg a; let b ← boolArg b; pure (toString (Gen.boolEqual a b))
      | "streq" => do let a ← hexToBytes a; let b ← hexToBytes b; pure (toString (primEqual (.str a) (.str b)))
      | "byteseq" => do let a ← hexToBytes a; let b ← hexToBytes b; pure (toString (primEqual (.bytes a) (.bytes b)))
      | "fltops" => do
        let a ← hexArg a; let b ← hexArg b
        pure s!"lt={b01 (Flt.lt a b)} gt={b01 (Flt.gt a b)} eq={b01 (Flt.eq a b)}"
      | _ => none
    (st, r.getD "bad-op")
  | ["cmp", a, b] =>
    match parse a, parse b with
    | some a, some b => (st, toString (cmp primOps a b))
    | _, _ => (st, "bad-op")
  | ["eq", a, b] =>
    match parse a, parse b with
    | some a, some b => (st, toString (isEqual primOps a b))
    | _, _ => (st, "bad-op")
  | ["clone", a] =>
    match parse a with
    | some a => (st, showV (clone primOps a))
    | none => (st, "bad-op")
  | ["copy", d, s] =>
    match parse d, parse s with
    | some d, some s => (st, showV (copyFrom primOps d s))
    | _, _ => (st, "bad-op")
  | _ => (st, "bad-op")

end Stef.Driver.Cmp
