/-
  Driver plumbing: every sub-driver owns its state and exposes
    `step : σ → List String → σ × String`
  `mkHandler` wraps it into an `IO` handler; `Driver/Main.lean` dispatches each input line on
  its first token.
-/
namespace Stef.Driver

abbrev Handler := List String → IO String

def mkHandler {σ : Type} (init : σ) (step : σ → List String → σ × String) : IO Handler := do
  let r ← IO.mkRef init
  pure fun toks => do
    let s ← r.get
    let (s', o) := step s toks
    r.set s'
    pure o

def tokens (line : String) : List String :=
  (line.trimAscii.toString.splitOn " ").filter (· ≠ "")

end Stef.Driver
