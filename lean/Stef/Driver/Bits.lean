import Stef.BitStream
import Stef.Driver.Core

namespace Stef.Driver.Bits
open Stef

structure St where
  bw : BitsWriter := {}
  br : BitsReader := {}

def showR (b : BitsReader) (v : Word) : String :=
  if b.panicked then "panic" else s!"{wordToHex v} eof={if b.err then 1 else 0}"

def step (st : St) (toks : List String) : St × String :=
  match toks with
  | ["bw", "new"] => ({ st with bw := {} }, "ok")
  | ["bw", "bits", v, n] =>
    match hexToWord v, n.toNat? with
    | some v, some n => ({ st with bw := st.bw.writeBits v n }, "ok")
    | _, _ => (st, "bad-op")
  | ["bw", "bit", v] =>
    match hexToWord v with
    | some v => ({ st with bw := st.bw.writeBit v }, "ok")
    | _ => (st, "bad-op")
  | ["bw", "uvc", v] =>
    match hexToWord v with
    | some v => let (w, n) := st.bw.writeUvarintCompact v; ({ st with bw := w }, s!"n={n}")
    | _ => (st, "bad-op")
  | ["bw", "vc", v] =>
    match hexToWord v with
    | some v => let (w, n) := st.bw.writeVarintCompact v; ({ st with bw := w }, s!"n={n}")
    | _ => (st, "bad-op")
  | ["bw", "close"] =>
    let n := st.bw.bitCount
    let w := st.bw.close
    ({ st with bw := w }, s!"bytes={bytesToHex w.stream} bits={n}")
  | ["br", "new", h] =>
    match hexToBytes h with
    | some bs => ({ st with br := { buf := bs } }, "ok")
    | none => (st, "bad-op")
  | ["br", "bits", n] =>
    match n.toNat? with
    | some n => let (b, v) := st.br.readBits n; ({ st with br := b }, showR b v)
    | none => (st, "bad-op")
  | ["br", "bit"] => let (b, v) := st.br.readBit; ({ st with br := b }, showR b v)
  | ["br", "peek", n] =>
    match n.toNat? with
    | some n => let (b, v) := st.br.peekBits n; ({ st with br := b }, showR b v)
    | none => (st, "bad-op")
  | ["br", "consume", n] =>
    match n.toNat? with
    | some n => ({ st with br := st.br.consume n }, "ok")
    | none => (st, "bad-op")
  | ["br", "uvc"] => let (b, v) := st.br.readUvarintCompact; ({ st with br := b }, showR b v)
  | ["br", "vc"] => let (b, v) := st.br.readVarintCompact; ({ st with br := b }, showR b v)
  | _ => (st, "bad-op")

end Stef.Driver.Bits
