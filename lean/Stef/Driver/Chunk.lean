import Stef.Chunk
import Stef.Driver.Core

namespace Stef.Driver.Chunk
open Stef Stef.Chunk

structure St where
  a : Asm := { src := [] }

/-- `ca new m1 m2 ...` each message `<hex|->:<0|1>`; `ca read n`; `ca stats`; `cw chunk hdr content`. -/
def parseMsg (s : String) : Option Msg :=
  match s.splitOn ":" with
  | [h, f] => (hexToBytes h).map (fun b => (b, f = "1"))
  | _ => none

def step (st : St) (toks : List String) : St × String :=
  match toks with
  | "ca" :: "new" :: ms =>
    match ms.mapM parseMsg with
    | some l => ({ a := { src := l } }, "ok")
    | none => (st, "bad-op")
  | ["ca", "read", n] =>
    match n.toNat? with
    | some n =>
      let (a', o) := st.a.read n
      match o with
      | none => ({ a := a' }, "err")
      | some out => ({ a := a' }, s!"n={out.length} {if out.isEmpty then "-" else bytesToHex out}")
    | none => (st, "bad-op")
  | ["ca", "stats"] => (st, s!"chunks={st.a.chunksReceived} bytes={st.a.bytesReceived}")
  | ["cw", "chunk", h, c] =>
    match hexToBytes h, hexToBytes c with
    | some h, some c =>
      let m := writeChunk h c
      (st, s!"{if m.1.isEmpty then "-" else bytesToHex m.1}:{if m.2 then 1 else 0}")
    | _, _ => (st, "bad-op")
  | _ => (st, "bad-op")

end Stef.Driver.Chunk
