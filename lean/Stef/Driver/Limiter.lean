import Stef.Limiter
import Stef.Driver.Core

namespace Stef.Driver.LimiterD
open Stef.Limiter

structure St where
  l : SizeLimiter := {}

def b01 (b : Bool) : String := if b then "1" else "0"

def step (st : St) (toks : List String) : St × String :=
  match toks with
  | ["sl", "init", d, f] =>
    match d.toNat?, f.toNat? with
    | some d, some f => ({ l := st.l.init d f }, "ok")
    | _, _ => (st, "bad-op")
  | ["sl", "new"] => ({ l := {} }, "ok")
  | ["sl", "dict", n] =>
    match n.toNat? with
    | some n => ({ l := st.l.addDictElemSize n }, "ok")
    | none => (st, "bad-op")
  | ["sl", "bits", n] =>
    match n.toNat? with
    | some n => ({ l := st.l.addFrameBits n }, "ok")
    | none => (st, "bad-op")
  | ["sl", "bytes", n] =>
    match n.toNat? with
    | some n => ({ l := st.l.addFrameBytes n }, "ok")
    | none => (st, "bad-op")
  | ["sl", "resetdict"] => ({ l := st.l.resetDict }, "ok")
  | ["sl", "resetframe"] => ({ l := st.l.resetFrameSize }, "ok")
  | ["sl", "q"] => (st, s!"dict={b01 st.l.dictLimitReached} frame={b01 st.l.frameLimitReached}")
  | _ => (st, "bad-op")

end Stef.Driver.LimiterD
