import Stef.Handshake
import Stef.Driver.Core

namespace Stef.Driver.HandshakeD
open Stef.Handshake

def parseCounts (s : String) : Option (List Nat) :=
  if s = "-" then some [] else (s.splitOn ",").mapM String.toNat?

def showCounts (l : List Nat) : String :=
  if l.isEmpty then "-" else ",".intercalate (l.map toString)

def showCompat : Compat → String
  | .exact => "exact" | .superset => "superset" | .incompatible => "incompatible"

def step (st : Unit) (toks : List String) : Unit × String :=
  match toks with
  | ["hs", "compat", a, b] =>
    match parseCounts a, parseCounts b with
    | some a, some b => (st, showCompat (compatible a b))
    | _, _ => (st, "bad-op")
  | ["hs", "connect", c, s, m] =>
    match parseCounts c, parseCounts s, m.toNat? with
    | some c, some s, some m =>
      match connect c s m with
      | none => (st, "err")
      | some o =>
        let sch := match o.schema with | none => "nil" | some l => showCounts l
        (st, s!"ok desc={if o.includeDescriptor then 1 else 0} schema={sch} dict={o.maxTotalDictSize}")
    | _, _, _ => (st, "bad-op")
  | ["hs", "accepts", own, d] =>
    match parseCounts own, (if d = "nil" then some none else (parseCounts d).map some) with
    | some own, some d => (st, if readerAcceptsDescriptor own d then "1" else "0")
    | _, _ => (st, "bad-op")
  | _ => (st, "bad-op")

end Stef.Driver.HandshakeD
