import Stef.Spec
import Stef.Driver.Core

namespace Stef.Driver.SpecD
open Stef Stef.Spec

structure St where
  schemas : List (String × Schema) := []

def parseTy (s : String) : Option Ty :=
  let cs := s.toList
  let rec go : Nat → List Char → Option Ty
    | 0, _ => none
    | _ + 1, [] => none
    | f + 1, '[' :: rest => (go f rest).map Ty.arr
    | _ + 1, '#' :: rest => some (.ref (String.ofList rest))
    | _ + 1, c :: rest =>
      let dict : Option String := match rest with
        | '@' :: d => some (String.ofList d)
        | _ => none
      let p : Option Prim := match c with
        | 'b' => some .bool | 'i' => some .i64 | 'u' => some .u64 | 'f' => some .f64
        | 's' => some .str | 'y' => some .byts | _ => none
      p.map (fun p => Ty.prim p dict)
  go (cs.length + 1) cs

def parseField (s : String) : Option Field :=
  match s.splitOn "~" with
  | [n, o, t] => (parseTy t).map (fun ty => { name := n, optional := o = "1", ty := ty })
  | _ => none

def parseFields (s : String) : Option (List Field) :=
  if s = "" then some [] else (s.splitOn ",").mapM parseField

def parseDef (s : String) : Option (String × Def) :=
  match s.splitOn ":" with
  | ["S", n, d, fs] => (parseFields fs).map (fun l => (n, Def.struct (if d = "-" then none else some d) l))
  | ["O", n, fs] => (parseFields fs).map (fun l => (n, Def.oneof l))
  | ["M", n, k, v] =>
    match parseTy k, parseTy v with
    | some k, some v => some (n, Def.mmap k v)
    | _, _ => none
  | _ => none

def parseSchema (s : String) : Option Schema :=
  ((s.splitOn ";").filter (· ≠ "")).mapM parseDef |>.map (fun l => { defs := l })

def showRecs (σ : Schema) (root : String) (recs : List (Nat × Spec.St)) : String :=
  "|".intercalate (recs.map (fun (m, r) => hexNat m ++ ":" ++ dump σ (.ref root) r))

def step (st : St) (toks : List String) : St × String :=
  match toks with
  | ["sd", "schema", id, enc] =>
    match parseSchema enc with
    | some σ => ({ st with schemas := (id, σ) :: st.schemas.filter (·.1 ≠ id) }, "ok")
    | none => (st, "bad-schema")
  | ["sd", "decode", id, root, hex] =>
    match st.schemas.find? (·.1 = id), hexToBytes hex with
    | some (_, σ), some bytes =>
      let d := decodeStream σ root bytes
      let body := showRecs σ root d.records
      let sep := if body = "" then "" else "|"
      match d.error with
      | none => (st, s!"OK dv={d.dictViolations}|{body}{sep}END")
      | some e => (st, s!"ERR {e} dv={d.dictViolations}|{body}{sep}END")
    | _, _ => (st, "bad-op")
  | ["sd", "values", id, root, hex] =>
    -- as `sd decode`, without the modified masks (used when the Go reader could not read the stream
    -- it wrote, so that the harness has no masks to expect)
    match st.schemas.find? (·.1 = id), hexToBytes hex with
    | some (_, σ), some bytes =>
      let d := decodeStream σ root bytes
      let body := "|".intercalate (d.records.map (fun (_, r) => dump σ (.ref root) r))
      let sep := if body = "" then "" else "|"
      match d.error with
      | none => (st, s!"OK dv={d.dictViolations}|{body}{sep}END")
      | some e => (st, s!"ERR {e} dv={d.dictViolations}|{body}{sep}END")
    | _, _ => (st, "bad-op")
  | ["sd", "frames", id, root, hex] =>
    match st.schemas.find? (·.1 = id), hexToBytes hex with
    | some (_, σ), some bytes =>
      let d := decodeStream σ root bytes
      let fs := d.frames.map (fun f => s!"{f.flags}:{f.size}:{f.records}:{f.dictPayloadAfter}")
      (st, s!"frames={",".intercalate fs} maxdict={d.maxDictPayload} err={d.error.getD "-"}")
    | _, _ => (st, "bad-op")
  | _ => (st, "bad-op")

end Stef.Driver.SpecD
