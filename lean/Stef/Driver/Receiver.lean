import Stef.Receiver
import Stef.Driver.Core

/-
  Sub-driver of the receiver LTS (tokens `rv`, `ls`).
    rv new                      reset to the initial state                      -> ok
    rv <event> [arg]            one event of Stef.Receiver.step                 -> ok <what happened> | not-enabled
                                (checkErr decode n readFail consume o schedAck schedBad | tick badRecv badMore
                                 badDone tickNoBad tickAck sendOk sendFail stop; the tick branch of Run is
                                 tick = load, [badRecv .. send], tickNoBad = inner default, tickAck = compare + send)
    rv summary                                                                  -> state summary
    ls new | ls write n | ls read k | ls done     writer/reader record counters -> w=.. / r=..
  An event trace recorded from the real code is a run of the LTS iff no line answers `not-enabled`.
-/
namespace Stef.Driver.Receiver
open Stef.Receiver

structure St where
  s : State := {}
  ls : Lockstep.LS := {}

def rangesStr (rs : List Range) : String :=
  if rs.isEmpty then "-" else ",".intercalate (rs.map (fun r => s!"{r.1}-{r.2}"))

def rpcName : RPc → String
  | .top => "top" | .await => "await" | .decoded => "decoded" | .needAck _ => "needAck"
  | .needBad _ _ => "needBad" | .exited => "exited"

def qpcName : QPc → String
  | .idle => "idle" | .loaded _ => "loaded" | .composing _ _ _ => "composing" | .sending _ _ _ _ => "sending"
  | .acking _ => "acking" | .stopped => "stopped"

def b01 (b : Bool) : Nat := if b then 1 else 0

def summary (s : State) : String :=
  s!"d={s.decoded} na={s.nextAck} la={s.lastAcked} q={s.queue.length} err={b01 s.lastError} broken={b01 s.broken} resps={s.resps.length} batches={s.batches.length} rpc={rpcName s.rpc} qpc={qpcName s.qpc}"

def parseOutcome : String → Option Outcome
  | "accept" => some .accept | "perm" => some .perm | "trans" => some .trans | _ => none

def parseEvent : List String → Option Event
  | ["checkErr"] => some .checkErr
  | ["decode", n] => n.toNat?.map .decode
  | ["readFail"] => some .readFail
  | ["consume", o] => (parseOutcome o).map .consume
  | ["schedAck"] => some .schedAck
  | ["schedBad"] => some .schedBad
  | ["tick"] => some .tick
  | ["badRecv"] => some .badRecv
  | ["badMore"] => some .badMore
  | ["badDone"] => some .badDone
  | ["tickNoBad"] => some .tickNoBad
  | ["tickAck"] => some .tickAck
  | ["sendOk"] => some .sendOk
  | ["sendFail"] => some .sendFail
  | ["stop"] => some .stop
  | _ => none

/-- what the event did, in terms of the new state (compared with the observation on the real code) -/
def describe (e : Event) (old s : State) : String :=
  match e with
  | .checkErr => s!"ok {rpcName s.rpc}"
  | .decode _ =>
    match s.batches with
    | b :: _ => s!"ok from={b.from_} to={b.to}"
    | [] => "ok"
  | .readFail => "ok exited"
  | .consume _ => s!"ok {rpcName s.rpc}"
  | .schedAck => s!"ok na={s.nextAck}"
  | .schedBad => s!"ok q={s.queue.length}"
  | .tick =>
    match s.qpc with
    | .loaded rd => s!"ok load rd={rd}"
    | _ => "ok"
  | .badRecv | .badMore =>
    match s.qpc with
    | .composing a rs k => s!"ok ack={a} n={rs.length} q={s.queue.length} in={if k.isSome then "tick" else "select"}"
    | _ => "ok"
  | .badDone =>
    match s.qpc with
    | .sending a rs _ _ => s!"ok send ack={a} ranges={rangesStr rs}"
    | _ => "ok"
  | .tickNoBad => "ok acking"
  | .tickAck =>
    match s.qpc with
    | .sending a _ _ _ => s!"ok send ack={a}"
    | _ => "ok noop"
  | .sendOk =>
    match s.resps with
    | r :: _ => s!"ok resp={s.resps.length} ack={r.ack} ranges={rangesStr r.ranges} la={s.lastAcked} next={qpcName s.qpc}"
    | [] => "ok"
  | .sendFail =>
    match s.resps with
    | r :: _ => s!"ok failed resp={s.resps.length} ack={r.ack} ranges={rangesStr r.ranges} la={s.lastAcked} next={qpcName s.qpc}"
    | [] => "ok"
  | .stop => if old.qpc = .idle then "ok stopped" else "ok"

def lsWrites : Nat → Lockstep.LS → Lockstep.LS
  | 0, s => s
  | n + 1, s =>
    match Lockstep.step s .write with
    | some s' => lsWrites n s'
    | none => s

/-- k reads; `none` if one of them is not enabled (no record available) -/
def lsReads : Nat → Lockstep.LS → Option Lockstep.LS
  | 0, s => some s
  | n + 1, s =>
    match Lockstep.step s .read with
    | some s' => lsReads n s'
    | none => none

def step (st : St) (toks : List String) : St × String :=
  match toks with
  | ["rv", "new"] => ({ st with s := {} }, "ok")
  | ["rv", "summary"] => (st, summary st.s)
  | "rv" :: rest =>
    match parseEvent rest with
    | none => (st, "bad-op")
    | some e =>
      match Stef.Receiver.step st.s e with
      | none => (st, "not-enabled")
      | some s' => ({ st with s := s' }, describe e st.s s')
  | ["ls", "new"] => ({ st with ls := {} }, "ok")
  | ["ls", "write", n] =>
    match n.toNat? with
    | some n =>
      -- n Write calls followed by Flush (frame restarts inside Write do not change the counters)
      let s1 := lsWrites n st.ls
      let s2 := (Lockstep.step s1 .flush).getD s1
      ({ st with ls := s2 }, s!"w={s2.wCount}")
    | none => (st, "bad-op")
  | ["ls", "read", k] =>
    match k.toNat? with
    | some k =>
      match lsReads k st.ls with
      | some s' => ({ st with ls := s' }, s!"r={s'.rCount}")
      | none => (st, "not-enabled")
    | none => (st, "bad-op")
  | ["ls", "done"] => (st, s!"w={st.ls.wCount} r={st.ls.rCount}")
  | _ => (st, "bad-op")

end Stef.Driver.Receiver
