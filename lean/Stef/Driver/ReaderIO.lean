/-
  Sub-driver of Stef.ReaderIO (token `rio`): the harness logs the Read calls the real reader made
  on the caller's io.Reader; the model is given the stream and the BEHAVIOUR of every call (what the
  source handed out, and whether an error came with the bytes) and has to predict the sequence of
  requests `len(p)` the real code made and the outcome.

    rio data <hex>                                    -> ok <len>        (stream for the next runs)
    rio run <bufsize> <shape> <fail01> <maxReads> <sched>
        sched: `-` or comma separated `<want>[!][*<count>]` (`!` = error attached to the call)
      -> calls=<n> reqs=<fnv> head=<first runs> open=<ok|class> recs=<n> err=<class>
-/
import Stef.ReaderIO
import Stef.Driver.Core
import Stef.Driver.Sizes

namespace Stef.Driver.ReaderIOD
open Stef Stef.ReaderIO

structure St where
  data : Bytes := []

def errClass : Err → String
  | .eof => "eof"
  | .unexpectedEof => "unexpected-eof"
  | .noProgress => "no-progress"
  | .srcFail => "src-fail"
  | .endOfFrame => "frame-end"
  | .errEndOfFrame => "end-of-frame"
  | .fuel => "model-fuel"
  | .zstdNotModelled => "zstd-not-modelled"
  | _ => "other"

def parseBeh (tok : String) : Option (List Beh) :=
  let (body, count) := match tok.splitOn "*" with
    | [b, c] => (b, c.toNat?)
    | [b] => (b, some 1)
    | _ => ("", none)
  let (num, eager) := if body.endsWith "!" then ((body.dropEnd 1).toString, true) else (body, false)
  match num.toNat?, count with
  | some w, some c => some (List.replicate c { want := w, eager := eager })
  | _, _ => none

def parseSched (s : String) : Option (List Beh) :=
  if s = "-" then some []
  else
    (s.splitOn ",").foldl (fun acc tok =>
      match acc, parseBeh tok with
      | some rev, some bs => some (bs.reverse ++ rev)
      | _, _ => none) (some []) |>.map List.reverse

def fnvStep (h : UInt64) (v : Nat) : UInt64 := (h ^^^ v.toUInt64) * 1099511628211

def fnvNats (l : List Nat) : UInt64 := l.foldl fnvStep 14695981039346656037

/-- run-length encoding of the first runs of a list -/
def rleHead (l : List Nat) (maxRuns : Nat) : String :=
  let rec go : List Nat → Option (Nat × Nat) → Nat → List String → List String
    | [], cur, _, acc => (match cur with | some (v, c) => s!"{v}x{c}" :: acc | none => acc)
    | x :: xs, none, k, acc => go xs (some (x, 1)) k acc
    | x :: xs, some (v, c), k, acc =>
      if x = v then go xs (some (v, c + 1)) k acc
      else if k + 1 ≥ maxRuns then (s!"{v}x{c}" :: acc)
      else go xs (some (x, 1)) (k + 1) (s!"{v}x{c}" :: acc)
  ",".intercalate (go l none 0 []).reverse

def hex16 (h : UInt64) : String :=
  let n := h.toNat
  String.ofList ((List.range 16).map (fun i => hexDigit ((n / 16 ^ (15 - i)) % 16)))

def step (st : St) (toks : List String) : St × String :=
  match toks with
  | ["rio", "data", hex] =>
    match hexToBytes hex with
    | some d => ({ data := d }, s!"ok {d.length}")
    | none => (st, "bad-op")
  | ["rio", "run", size, shape, fail, maxReads, sched] =>
    match size.toNat?, SizesD.parseTree shape.toList, maxReads.toNat?, parseSched sched with
    | some size, some (t, []), some maxReads, some σ =>
      let src : Src := { data := st.data, fail := fail = "1", sched := σ }
      let (o, r) := run size t src maxReads
      let reqs := r.fd.b.src.reqs.reverse
      let opn := match o.header with | .ok _ => "ok" | .error e => errClass e
      (st, s!"calls={reqs.length} reqs={hex16 (fnvNats reqs)} head={rleHead reqs 6} open={opn} recs={o.records.length} err={errClass o.err}")
    | _, _, _, _ => (st, "bad-op")
  | _ => (st, "bad-op")

end Stef.Driver.ReaderIOD
