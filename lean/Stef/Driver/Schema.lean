/-
  Sub-driver for the schema front end (first tokens `idl` and `ws`); protocol in
  harness/cmd/h_schema/main.go.
-/
import Stef.Base
import Stef.Idl
import Stef.SchemaPrint
import Stef.WireSchema
import Stef.Driver.Core

namespace Stef.Driver.Schema
open Stef Stef.Idl

structure St where
  last : Option Idl.Schema := none

def str (s : String) : List Char := s.toList

def primDump : Prim → List Char := Prim.text

def recursiveOf (σ : Idl.Schema) (b : BaseType) : Bool :=
  if b.struct ≠ [] then (σ.findStruct b.struct).any (·.recursive)
  else if b.multimap ≠ [] then (σ.findMultimap b.multimap).any (·.recursive)
  else false

def dumpBase (σ : Idl.Schema) (b : BaseType) : List Char :=
  let kind : Option (List Char) :=
    match b.prim with
    | some p => if b.enum ≠ [] then some (str "e." ++ b.enum) else some (primDump p)
    | none =>
      if b.struct ≠ [] then some (str "s." ++ b.struct)
      else if b.multimap ≠ [] then some (str "m." ++ b.multimap)
      else if b.enum ≠ [] then some (str "e?." ++ b.enum)
      else none
  match kind with
  | none => str "none"
  | some k =>
    k ++ (if b.dict ≠ [] then '@' :: b.dict else [])
      ++ (if b.prim.isNone && recursiveOf σ b then ['~'] else [])

def dumpFT (σ : Idl.Schema) : FType → List Char
  | .base b => dumpBase σ b
  | .array e d r =>
    ['['] ++ dumpBase σ e ++ [']'] ++ (if d ≠ [] then '@' :: d else []) ++ (if r then ['~'] else [])

def commaJoin : List (List Char) → List Char := joinWith [',']

def dumpSchema (σ : Idl.Schema) : List Char :=
  str "pkg:" ++ joinWith ['.'] σ.pkg
  ++ ((sortBy (·.name) σ.enums).map (fun e =>
        str " enum:" ++ e.name ++ ['{']
          ++ commaJoin (e.fields.map (fun f => f.name ++ ['='] ++ natToDec f.value)) ++ ['}'])).flatten
  ++ ((sortBy (·.name) σ.multimaps).map (fun m =>
        str " mm:" ++ m.name ++ ['{'] ++ dumpFT σ m.key ++ [','] ++ dumpFT σ m.value ++ ['}'])).flatten
  ++ ((sortBy (·.name) σ.structs).map (fun s =>
        (if s.oneOf then str " oneof:" else str " struct:") ++ s.name
          ++ (if s.dict ≠ [] then '@' :: s.dict else [])
          ++ (if s.isRoot then ['!'] else [])
          ++ (if s.recursive then ['~'] else [])
          ++ ['{']
          ++ commaJoin (s.fields.map (fun f =>
               f.name ++ [':'] ++ dumpFT σ f.ty ++ (if f.optional then ['?'] else [])))
          ++ ['}'])).flatten

def tokName : Tok → List Char
  | .error => str "error"
  | .eof => str "EOF"
  | .kw k => k.name
  | .ident _ => str "identifier"
  | .num _ => str "number"
  | .punct c => [c]

def className : ErrClass → List Char
  | .expected w g => str "expected:" ++ tokName w ++ [':'] ++ tokName g
  | .expectedDef => str "expected-def"
  | .structName => str "struct-name"
  | .multimapName => str "multimap-name"
  | .enumName => str "enum-name"
  | .dupTop n => str "dup-top:" ++ n
  | .dupField n => str "dup-field:" ++ n
  | .dupEnumField n => str "dup-enum-field:" ++ n
  | .oneofDict => str "oneof-dict"
  | .oneofRoot => str "oneof-root"
  | .rootEmpty => str "root-empty"
  | .dictName => str "dict-name"
  | .arrayType => str "array-type"
  | .typeExpected => str "type-expected"
  | .dictPrim => str "dict-prim"
  | .pkgIdent => str "pkg-ident"
  | .enumValue => str "enum-value"
  | .unknownType => str "unknown-type"
  | .ambiguousType => str "ambiguous-type"
  | .outOfFuel => str "MODEL-OUT-OF-FUEL"

def siteName : PanicSite → String
  | .unknownType => "unknown-type"
  | .invalidState => "invalid-state"
  | .setRecursiveOnPrimitive => "cannot-set-recursive-on-primitive"
  | .invalidFieldType => "invalid-fieldtype"
  | .nilDef => "runtime-error-invalid-memory-address-or-nil-p"
  | .outOfFuel => "MODEL-OUT-OF-FUEL"

def bytesToChars (bs : Bytes) : List Char := bs.map (fun b => Char.ofNat b.toNat)
def charsToBytes (cs : List Char) : Bytes := cs.map (fun c => BitVec.ofNat 8 c.toNat)

def countsStr (cs : List Nat) : String :=
  if cs.isEmpty then "counts -" else "counts " ++ ",".intercalate (cs.map toString)

def rerr : RErr → String
  | .eof => "err:eof"
  | .unexpectedEof => "err:ueof"
  | .overflow => "err:overflow"
  | .limit => "err:limit"

def step (st : St) (toks : List String) : St × String :=
  match toks with
  | ["idl", "parse", h] =>
    match hexToBytes h with
    | none => (st, "bad-op")
    | some bs =>
      match parse (bytesToChars bs) with
      | .ok σ => ({ st with last := some σ }, "ok " ++ String.ofList (dumpSchema σ))
      | .error p c => (st, s!"err {p.line}:{p.col}:{p.ofs} " ++ String.ofList (className c))
      | .panic site => (st, "panic " ++ siteName site)
  | ["idl", "print"] =>
    match st.last with
    | none => (st, "noschema")
    | some σ => (st, bytesToHex (charsToBytes (prettyPrint σ)))
  | ["ws", "new", root] =>
    match st.last with
    | none => (st, "noschema")
    | some σ =>
      match wire σ root.toList with
      | .ok cs => (st, countsStr cs)
      | .error _ => (st, "panic")
  | ["ws", "init", root] =>
    match st.last with
    | none => (st, "noschema")
    | some σ =>
      match initCounts σ root.toList with
      | .ok cs => (st, countsStr cs)
      | .error _ => (st, "panic")
  | ["ws", "deser", h] =>
    match hexToBytes h with
    | none => (st, "bad-op")
    | some bs =>
      match deserialize (bs.map (·.toNat)) with
      | .error e => (st, rerr e)
      | .ok cs =>
        (st, s!"ok {cs.length} " ++ bytesToHex ((serialize cs).map (BitVec.ofNat 8)))
  | _ => (st, "bad-op")

end Stef.Driver.Schema
