import Stef.Alloc
import Stef.Driver.Core

namespace Stef.Driver.AllocD
open Stef.Alloc

def b01 (b : Bool) : String := if b then "1" else "0"

def step (st : Checker) (toks : List String) : Checker × String :=
  match toks with
  | ["al", "reset"] => (st.reset, "ok")
  | ["al", "add", n] =>
    match n.toNat? with
    | some n => (st.addAllocSize n, "ok")
    | none => (st, "bad-op")
  | ["al", "prep", n] =>
    match n.toNat? with
    | some n => let (s, e) := st.prepAllocSize n; (s, s!"err={b01 e} over={b01 s.isOverLimit}")
    | none => (st, "bad-op")
  | ["al", "prepn", a, b] =>
    match a.toNat?, b.toNat? with
    | some a, some b => let (s, e) := st.prepAllocSizeN a b; (s, s!"err={b01 e} over={b01 s.isOverLimit}")
    | _, _ => (st, "bad-op")
  | _ => (st, "bad-op")

end Stef.Driver.AllocD
