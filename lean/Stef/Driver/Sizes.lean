import Stef.Sizes
import Stef.Driver.Core

namespace Stef.Driver.SizesD
open Stef Stef.Sizes

/-- shape syntax: a column is `(` kids `)`. -/
partial def parseTree : List Char → Option (ColTree × List Char)
  | '(' :: r =>
    let rec kids (r : List Char) (acc : List ColTree) : Option (List ColTree × List Char) :=
      match r with
      | ')' :: r => some (acc.reverse, r)
      | _ => match parseTree r with
        | some (k, r) => kids r (k :: acc)
        | none => none
    (kids r []).map fun (ks, r) => (.node ks, r)
  | _ => none

def outcomeStr : Outcome → String
  | .ok => "ok" | .errHeader => "err:header" | .errTotalLimit => "err:total-limit"
  | .errColLimit => "err:col-limit" | .errEof => "err:eof"

def step (_ : Unit) (toks : List String) : Unit × String :=
  match toks with
  | ["rs", shape, limit, hex] =>
    match parseTree shape.toList, limit.toNat?, hexToBytesAux (if hex = "-" then [] else hex.toList) [] with
    | some (t, []), some lim, some input =>
      let r := readFrom t input lim
      let nz := r.alloc.filter (· ≠ 0)
      ((), s!"{outcomeStr r.outcome} alloc={nz}")
    | _, _, _ => ((), "bad-op")
  | _ => ((), "bad-op")

end Stef.Driver.SizesD
