import Stef.Api
import Stef.Driver.Spec

/-
  Sub-driver `ap`: the record API model (Stef/Api.lean) replays the history of public API calls that
  the harness made on a real writer's record, produces value + marks at every Write, encodes them with
  the proved encoder (Stef/SpecEnc.lean) and compares with what the real writer produced.

    ap schema <id> <enc> <ptr>          register a schema (`sd schema` encoding); <ptr> = comma separated
                                        names of the recursive structs/oneofs (stored by pointer) or `-`   -> ok
    ap new <id> <root>                  start a history: writer record and shadow record := Init()          -> ok
    ap mk <oid> <type>                  object <oid> := new <type>, Init()                                  -> ok
    ap fz <oid>                         <oid>.Freeze()                                                      -> ok
    ap cl <oid> <target> <path>         object <oid> := Clone() of the node at <path> of <target>           -> ok
    ap rs <hex>                         reader source: the records of this (uncompressed) stream            -> ok
    ap c <target> <path> <m> <args..>   one public API call; <target> = w (the writer's record) | a (the
                                        shadow record) | o<id> (an object)                                  -> ok
    ap W <r>                            Write(); <r> = `-` or the flags of the frame that is opened after
                                        this Write (a restart)             -> <root modified mask hex>:<dump of the record>
    ap end <f1,f2,..>                   the data frames of the real stream, each <flags>:<nrec>:<len>:<fnv1a-64 of content>;
                                        every frame is re-encoded from the model's values and marks  -> same frames=<n> records=<n>

  <path>: `-` or steps separated by `/`: f<i> field getter, a<k> oneof alternative getter (1-based),
  e<i> At(i), k<i> Key(i), v<i> Value(i).
  <m> <args>: sp <i> <val> | us <i> | pr <i> | so <i> <src> | cf <src> | st <k> | sa <k> <val> | el <n> |
  ap <val> | ao <src> | cs <val,val,..|-> | sk <i> <val> | sv <i> <val> | sko <i> <src> | svo <i> <src> | ak <val> <val>
  <val>: T | F | x<hex> | f<hex> | s<hex>.   <src>: o<id> | a:<path> | r<n>:<path> (reader record after n reads).
-/
namespace Stef.Driver.ApiD
open Stef Stef.Spec Stef.SpecEnc Stef.Api

structure Hist where
  C : Ctx := default
  rootName : String := ""
  root : Node := .recur "?"
  ncols : Nat := 0
  w : AS := .nil
  alt : AS := .nil
  objs : List (String × AS) := []
  ws : WSt := {}
  curFlags : Nat := 0
  curRecs : List (St × Mk) := []                 -- newest first
  frames : List (Nat × List (St × Mk)) := []     -- newest first
  readerRecs : List AS := []
  broken : Option String := none

structure St where
  schemas : List (String × Ctx) := []
  h : Hist := {}

def parseNat (s : String) : Option Nat := s.toNat?

def parseHexNat (s : String) : Option Nat :=
  if s.isEmpty then none else
  s.toList.foldlM (fun (acc : Nat) c => (hexVal c).map (fun d => acc * 16 + d)) 0

def parseVal (s : String) : Option Spec.St :=
  match s.toList with
  | ['T'] => some (.b true)
  | ['F'] => some (.b false)
  | 'x' :: rest => (parseHexNat (String.ofList rest)).map (fun n => .i (BitVec.ofNat 64 n))
  | 'f' :: rest => (parseHexNat (String.ofList rest)).map (fun n => .f (BitVec.ofNat 64 n))
  | 's' :: rest => (hexToBytesAux rest []).map .s
  | _ => none

def parseStep (s : String) : Option Step :=
  match s.toList with
  | 'f' :: r => (parseNat (String.ofList r)).map .field
  | 'a' :: r => (parseNat (String.ofList r)).map .alt
  | 'e' :: r => (parseNat (String.ofList r)).map .at
  | 'k' :: r => (parseNat (String.ofList r)).map .key
  | 'v' :: r => (parseNat (String.ofList r)).map .val
  | _ => none

def parsePath (s : String) : Option (List Step) :=
  if s = "-" then some [] else (s.splitOn "/").mapM parseStep

def target (h : Hist) (t : String) : Option AS :=
  if t = "w" then some h.w
  else if t = "a" then some h.alt
  else (h.objs.find? (·.1 = t)).map (·.2)

def setTarget (h : Hist) (t : String) (v : AS) : Hist :=
  if t = "w" then { h with w := v }
  else if t = "a" then { h with alt := v }
  else { h with objs := (t, v) :: h.objs.filter (·.1 ≠ t) }

/-- the records of an (uncompressed) stream with the marks they carry (frame loop of
    `SpecEnc.reencodeStream` without the re-encoding); stops silently at the first error -/
def decodeStreamM (σ : Schema) (rootName : String) (stream : Bytes) : List (Spec.St × Mk) :=
  let fuel := stream.length * 8 + 1000
  match readFixedHeader stream with
  | .error _ => []
  | .ok (comp, rest) =>
    if comp ≠ 0 then [] else
    match readFrames fuel rest [] with
    | .ok (vh :: frames) =>
      match readVarHeader vh.content with
      | .error _ => []
      | .ok (counts, _) =>
        match mkNode σ 200 [] (.ref rootName) { override := counts } with
        | .error _ => []
        | .ok (root, b) =>
          let kinds := colKinds 10000 root
          let init := initSt σ initFuel (.ref rootName)
          let ds0 : DS := { cols := Array.replicate b.nextCol {} }
          let rec go (fs : List Frame) (cur : Spec.St) (ds : DS) (acc : List (Spec.St × Mk)) : List (Spec.St × Mk) :=
            match fs with
            | [] => acc
            | fr :: rest =>
              let ds := resetFor fr.flags ds
              match needVar fr.content with
              | .error _ => acc
              | .ok (nrec, c1) =>
                match needVar c1 with
                | .error _ => acc
                | .ok (sos, c2) =>
                  match needTake sos c2 with
                  | .error _ => acc
                  | .ok (sizeBytes, data) =>
                    match readSizes 100000 root (bytesBits sizeBytes) [] with
                    | .error _ => acc
                    | .ok (_, sizes) =>
                      match loadColumns kinds sizes data ds with
                      | .error _ => acc
                      | .ok (ds, _) =>
                        match decodeRecordsM σ root (fr.content.length * 8 + nrec + 1000) nrec cur ds [] with
                        | .error _ => acc
                        | .ok (cur', ds, recs) => go rest cur' ds (acc ++ recs)
          go frames init ds0 []
    | _ => []

/-- the reader's record after each read: `Init()`, then one `rdApply` per record -/
def readerStates (C : Ctx) (rootName : String) (recs : List (Spec.St × Mk)) : List AS :=
  let init := C.init (.ref rootName)
  (recs.foldl (fun (acc : List AS × AS) (r : Spec.St × Mk) =>
    let nxt := rdApply C 100000 (.ref rootName) acc.2 r.1 r.2
    (nxt :: acc.1, nxt)) ([], init)).1.reverse

def resolveSrc (h : Hist) (s : String) : Option AS :=
  match s.splitOn ":" with
  | [o] => (h.objs.find? (·.1 = o)).map (·.2)
  | ["a", p] => (parsePath p).bind (fun path => getAt path h.alt)
  | [r, p] =>
    match r.toList with
    | 'r' :: n =>
      match parseNat (String.ofList n), parsePath p with
      | some n, some path =>
        let rec0 : AS := if n = 0 then h.C.init (.ref h.rootName)
          else match h.readerRecs[n - 1]? with
            | some a => a
            | none => h.readerRecs.getLast?.getD (h.C.init (.ref h.rootName))
        getAt path rec0
      | _, _ => none
    | _ => none
  | _ => none

def parseOp (h : Hist) (toks : List String) : Option Op :=
  match toks with
  | ["sp", i, v] => do some (.setPrim (← parseNat i) (← parseVal v))
  | ["us", i] => do some (.unset (← parseNat i))
  | ["pr", i] => do some (.setPresent (← parseNat i))
  | ["so", i, s] => do some (.setObj (← parseNat i) (← resolveSrc h s))
  | ["cf", s] => do some (.copyFrom (← resolveSrc h s))
  | ["st", k] => do some (.setType (← parseNat k))
  | ["sa", k, v] => do some (.setAlt (← parseNat k) (← parseVal v))
  | ["el", n] => do some (.ensureLen (← parseNat n))
  | ["ap", v] => do some (.append (← parseVal v))
  | ["ao", s] => do some (.appendObj (← resolveSrc h s))
  | ["cs", vs] => if vs = "-" then some (.copyFromSlice []) else do some (.copyFromSlice (← (vs.splitOn ",").mapM parseVal))
  | ["sk", i, v] => do some (.setKey (← parseNat i) (← parseVal v))
  | ["sv", i, v] => do some (.setValue (← parseNat i) (← parseVal v))
  | ["sko", i, s] => do some (.setKeyObj (← parseNat i) (← resolveSrc h s))
  | ["svo", i, s] => do some (.setValueObj (← parseNat i) (← resolveSrc h s))
  | ["ak", k, v] => do some (.appendKV (← parseVal k) (← parseVal v))
  | _ => none

def fnv64 (bs : Bytes) : UInt64 :=
  bs.foldl (fun h b => (h ^^^ b.toNat.toUInt64) * 1099511628211) 14695981039346656037

def hex64 (h : UInt64) : String := hexNat h.toNat

structure FrameDesc where
  flags : Nat
  nrec : Nat
  len : Nat
  fnv : String

def parseFrames (s : String) : Option (List FrameDesc) :=
  if s = "-" then some [] else
  (s.splitOn ",").mapM fun f =>
    match f.splitOn ":" with
    | [a, b, c, d] => do some { flags := ← parseNat a, nrec := ← parseNat b, len := ← parseNat c, fnv := d }
    | _ => none

/-- re-encode the frames of the history with the checked frame encoder and compare -/
def finish (h : Hist) (descs : List FrameDesc) : String :=
  let frames := ((if h.curRecs.isEmpty then h.frames else (h.curFlags, h.curRecs) :: h.frames).reverse).map
    (fun (f, rs) => (f, rs.reverse))
  if frames.length ≠ descs.length then
    s!"frame count differs: model {frames.length} ({",".intercalate (frames.map (fun f => toString f.2.length))}) stream {descs.length}"
  else
    let σ := h.C.σ
    let init := initSt σ initFuel (.ref h.rootName)
    let es0 : DS := { cols := Array.replicate h.ncols {} }
    let rec go (fs : List ((Nat × List (Spec.St × Mk)) × FrameDesc)) (idx : Nat) (cur : Spec.St) (es : DS) (nrecs : Nat) : String :=
      match fs with
      | [] => s!"same frames={idx} records={nrecs}"
      | ((flags, recs), d) :: rest =>
        if flags ≠ d.flags then s!"frame {idx}: flags differ: model {flags} stream {d.flags}"
        else if recs.length ≠ d.nrec then s!"frame {idx}: record count differs: model {recs.length} stream {d.nrec}"
        else
          let fuel := d.len * 8 + d.nrec + 1000
          match encodeFrameBytes σ h.root h.ncols { flags := flags, fuel := fuel, recs := recs } cur es with
          | some (f, _, es', effs) =>
            let bad := (List.zip effs (recs.map (·.1))).find? (fun (e, n) =>
              dump σ (.ref h.rootName) e ≠ dump σ (.ref h.rootName) n)
            match bad with
            | some (e, n) =>
              s!"frame {idx}: UNSOUND MARKS: reader gets {dump σ (.ref h.rootName) e} for the record {dump σ (.ref h.rootName) n}"
            | none =>
              if f.content.length ≠ d.len ∨ hex64 (fnv64 f.content) ≠ d.fnv then
                let hx := if f.content.length ≤ 3000 then bytesToHex f.content else "(long)"
                s!"frame {idx}: content differs: model len={f.content.length} fnv={hex64 (fnv64 f.content)} stream len={d.len} fnv={d.fnv} model-content={hx}"
              else go rest (idx + 1) (effs.getLast?.getD cur) es' (nrecs + recs.length)
          | none =>
            -- the frame encoder refused: find out why (wrong fuel = other length, or a side condition)
            match encodeRecords σ h.root fuel recs cur (resetFor flags es) with
            | none => s!"frame {idx}: encoder-refused"
            | some (evs, _, _) =>
              let out := EncOut.absorb (Array.replicate h.ncols ({} : ColOut)) evs
              let content := frameContent h.root recs.length out
              if !(frameOk h.root h.ncols recs.length out) then s!"frame {idx}: frame-side-conditions"
              else
                let hx := if content.length ≤ 3000 then bytesToHex content else "(long)"
                s!"frame {idx}: content differs: model len={content.length} fnv={hex64 (fnv64 content)} stream len={d.len} fnv={d.fnv} model-content={hx}"
    go (List.zip frames descs) 0 init es0 0

def step (st : St) (toks : List String) : St × String :=
  let h := st.h
  let fail (msg : String) : St × String := ({ st with h := { h with broken := some msg } }, "err " ++ msg)
  match toks with
  | ["ap", "schema", id, enc, ptr] =>
    match SpecD.parseSchema enc with
    | some σ =>
      let C : Ctx := { σ := σ, ptr := if ptr = "-" then [] else ptr.splitOn "," }
      ({ st with schemas := (id, C) :: st.schemas.filter (·.1 ≠ id) }, "ok")
    | none => (st, "bad-schema")
  | ["ap", "new", id, root] =>
    match st.schemas.find? (·.1 = id) with
    | none => (st, "bad-op")
    | some (_, C) =>
      match mkNode C.σ 200 [] (.ref root) {} with
      | .error e => (st, "err " ++ e)
      | .ok (node, b) =>
        let w := C.init (.ref root)
        ({ st with h := { C := C, rootName := root, root := node, ncols := b.nextCol, w := w, alt := w } }, "ok")
  | "ap" :: rest =>
    match h.broken with
    | some _ => (st, "broken")
    | none =>
      match rest with
      | ["mk", oid, ty] => ({ st with h := setTarget h oid (h.C.init (.ref ty)) }, "ok")
      | ["fz", oid] =>
        match target h oid with
        | some o => ({ st with h := setTarget h oid (freezeAS o) }, "ok")
        | none => fail "no such object"
      | ["cl", oid, t, p] =>
        match target h t, parsePath p with
        | some o, some path =>
          match getAt path o with
          | some n => ({ st with h := setTarget h oid (cloneAS h.C n) }, "ok")
          | none => fail "clone: no such node"
        | _, _ => fail "clone: bad target"
      | ["rs", hex] =>
        match hexToBytes hex with
        | some bytes =>
          let recs := decodeStreamM h.C.σ h.rootName bytes
          ({ st with h := { h with readerRecs := readerStates h.C h.rootName recs } }, "ok")
        | none => fail "bad hex"
      | "c" :: t :: p :: m =>
        match target h t, parsePath p, parseOp h m with
        | some o, some path, some op =>
          match call h.C path op o with
          | .ok o' => ({ st with h := setTarget h t o' }, "ok")
          | .error e => fail e
        | none, _, _ => fail "no such target"
        | _, none, _ => fail "bad path"
        | _, _, none => fail "bad call"
      | ["W", r] =>
        let mask := rootMask h.w
        match write h.C h.root h.w h.ws with
        | none => fail "write: the record does not fit the column tree"
        | some (new, mk, w', ws') =>
          let out := hexNat mask ++ ":" ++ dump h.C.σ (.ref h.rootName) new
          let h := { h with w := w', ws := ws', curRecs := (new, mk) :: h.curRecs }
          let h := match parseNat r with
            | some flags =>
              { h with frames := (h.curFlags, h.curRecs) :: h.frames, curRecs := [], curFlags := flags,
                       ws := restart h.root flags h.ws }
            | none => h
          ({ st with h := h }, out)
      | ["end", fs] =>
        match parseFrames fs with
        | some descs => (st, finish h descs)
        | none => fail "bad frame list"
      | _ => (st, "bad-op")
  | _ => (st, "bad-op")

end Stef.Driver.ApiD
