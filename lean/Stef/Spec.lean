/-
  Stef.Spec: the STEF format as written in stef-spec/specification.md (with the implementation
  notes of DESIGN.md appendix D), as a decoder from bytes to records that shares no code with
  the Go library. Generic in the schema. Core Lean only (executable in the driver).

  Everything is list based and total; recursion over data uses explicit fuel (a stream of n bits
  cannot need more than the fuel the driver supplies; running out of fuel is an error).
-/
import Stef.Base
import Stef.Varint

namespace Stef.Spec

/-! ## Schemas -/

inductive Prim | bool | i64 | u64 | f64 | str | byts
  deriving DecidableEq, Repr, Inhabited

inductive Ty
  | prim (p : Prim) (dict : Option String)
  | arr (elem : Ty)
  | ref (name : String)
  deriving Repr, Inhabited

structure Field where
  name : String
  optional : Bool
  ty : Ty
  deriving Repr, Inhabited

inductive Def
  | struct (dict : Option String) (fields : List Field)
  | oneof (fields : List Field)
  | mmap (k v : Ty)
  deriving Repr, Inhabited

structure Schema where
  defs : List (String × Def)
  deriving Repr, Inhabited

def Schema.find (σ : Schema) (n : String) : Option Def := (σ.defs.find? (·.1 = n)).map (·.2)

/-! ## Record state (what a reader holds for the previous record) -/

inductive St
  | b (v : Bool)
  | i (v : Word)            -- int64 / uint64 / enum
  | f (v : Word)            -- float64 bit pattern
  | s (v : Bytes)           -- string / bytes
  | struct (present : Nat) (fields : List St)   -- bit j of `present` = j-th optional field present
  | oneof (typ : Nat) (val : Option St)         -- typ 0 = none
  | arr (es : List St)
  | mmap (ps : List (St × St))
  deriving Repr, Inhabited

def initPrim : Prim → St
  | .bool => .b false
  | .i64 => .i 0#64
  | .u64 => .i 0#64
  | .f64 => .f 0#64
  | .str => .s []
  | .byts => .s []

/-- initial ("new") state of a value of type `ty`. An optional field of composite type is absent in
    a new struct; its slot holds a placeholder that is never shown (`dump` prints `_`) and is
    replaced by the field type's own new state when the field becomes present (`decodeFields`).
    This keeps the new state of recursive schemas (recursion through optional fields) finite. -/
def initSt (σ : Schema) : Nat → Ty → St
  | 0, _ => .oneof 0 none
  | _, .prim p _ => initPrim p
  | _, .arr _ => .arr []
  | fuel + 1, .ref n =>
    match σ.find n with
    | some (.struct _ fs) => .struct 0 (fs.map (fun fd =>
        match fd.optional, fd.ty with
        | true, .ref _ => .oneof 0 none
        | true, .arr _ => .arr []
        | _, _ => initSt σ fuel fd.ty))
    | some (.oneof _) => .oneof 0 none
    | some (.mmap _ _) => .mmap []
    | none => .oneof 0 none

def initFuel : Nat := 64

/-! ## Canonical dump (must agree character for character with harness/internal/recgen.Dump) -/

def hexNat (n : Nat) : String := String.ofList (Nat.toDigits 16 n)

def commaJoin (xs : List String) : String := ",".intercalate xs

def optIndex (fs : List Field) (i : Nat) : Nat := ((fs.take i).filter (·.optional)).length

partial def dump (σ : Schema) (ty : Ty) (st : St) : String :=
  match ty, st with
  | _, .b v => if v then "T" else "F"
  | _, .i v => "x" ++ hexNat v.toNat
  | _, .f v => "f" ++ hexNat v.toNat
  | _, .s v => "s" ++ bytesToHex v
  | .arr e, .arr es => "[" ++ commaJoin (es.map (dump σ e)) ++ "]"
  | .ref n, st =>
    match σ.find n, st with
    | some (.struct _ fs), .struct present vals =>
      let parts := (List.zip (List.zip fs vals) (List.range fs.length)).map fun ((fd, v), idx) =>
        if fd.optional && !(present.testBit (optIndex fs idx)) then "_" else dump σ fd.ty v
      "{" ++ commaJoin parts ++ "}"
    | some (.oneof fs), .oneof typ val =>
      match val, fs[typ - 1]? with
      | some v, some fd => if typ = 0 then "<0>" else "<" ++ toString typ ++ ":" ++ dump σ fd.ty v ++ ">"
      | _, _ => "<0>"
    | some (.mmap k v), .mmap ps =>
      "(" ++ commaJoin (ps.map (fun p => dump σ k p.1 ++ "=" ++ dump σ v p.2)) ++ ")"
    | _, _ => "?"
  | _, _ => "?"

/-! ## Column tree (schema tree with recursion cut where a type is already being built) -/

inductive Node
  | prim (col : Nat) (p : Prim) (dict : Option String)
  | struct (col : Nat) (name : String) (dict : Option String) (kept : Nat) (optCount : Nat)
      (fields : List (Bool × Node))      -- the kept fields only: (optional, node)
  | oneof (col : Nat) (name : String) (kept : Nat) (alts : List Node)
  | arr (col : Nat) (key : String) (elemTy : Ty) (elem : Node)
  | mmap (col : Nat) (name : String) (kTy vTy : Ty) (k v : Node)
  | recur (key : String)
  deriving Repr, Inhabited

structure Build where
  nextCol : Nat := 0
  override : Option (List Nat) := none      -- remaining counts of the stream's wire schema
  known : List (String × Nat) := []         -- counts already fetched, per struct/oneof name
  deriving Repr

def tyKey : Ty → String
  | .prim .bool _ => "bool" | .prim .i64 _ => "int64" | .prim .u64 _ => "uint64"
  | .prim .f64 _ => "float64" | .prim .str _ => "string" | .prim .byts _ => "bytes"
  | .arr e => "[]" ++ tyKey e
  | .ref n => n

/-- fetch the field count of struct/oneof `name` (own count `own`): from the override list on
    first encounter, remembered afterwards; a count larger than `own` is refused. -/
def fetchCount (b : Build) (name : String) (own : Nat) : Except String (Nat × Build) :=
  match b.known.find? (·.1 = name) with
  | some (_, c) => .ok (c, b)
  | none =>
    match b.override with
    | none => .ok (own, { b with known := (name, own) :: b.known })
    | some [] => .error "schema-override-exhausted"
    | some (c :: rest) =>
      if c > own then .error "too-many-fields"
      else .ok (c, { b with override := some rest, known := (name, c) :: b.known })

mutual
def mkNode (σ : Schema) : Nat → List String → Ty → Build → Except String (Node × Build)
  | 0, _, _, _ => .error "schema-too-deep"
  | _ + 1, _, .prim p d, b => .ok (.prim b.nextCol p d, { b with nextCol := b.nextCol + 1 })
  | fuel + 1, stack, .arr e, b =>
    let key := tyKey (.arr e)
    if stack.contains key then .ok (.recur key, b)
    else do
      let col := b.nextCol
      let b := { b with nextCol := col + 1 }
      let (en, b) ← mkNode σ fuel (key :: stack) e b
      .ok (.arr col key e en, b)
  | fuel + 1, stack, .ref n, b =>
    if stack.contains n then .ok (.recur n, b)
    else
      match σ.find n with
      | none => .error ("unknown-type " ++ n)
      | some (.struct d fs) => do
        let col := b.nextCol
        let b := { b with nextCol := col + 1 }
        let (cnt, b) ← fetchCount b n fs.length
        let keptFs := fs.take cnt
        let (nodes, b) ← mkFields σ fuel (n :: stack) keptFs b
        .ok (.struct col n d cnt ((keptFs.filter (·.optional)).length) nodes, b)
      | some (.oneof fs) => do
        let col := b.nextCol
        let b := { b with nextCol := col + 1 }
        let (cnt, b) ← fetchCount b n fs.length
        let (nodes, b) ← mkFields σ fuel (n :: stack) (fs.take cnt) b
        .ok (.oneof col n cnt (nodes.map (·.2)), b)
      | some (.mmap k v) => do
        let col := b.nextCol
        let b := { b with nextCol := col + 1 }
        let (kn, b) ← mkNode σ fuel (n :: stack) k b
        let (vn, b) ← mkNode σ fuel (n :: stack) v b
        .ok (.mmap col n k v kn vn, b)
def mkFields (σ : Schema) : Nat → List String → List Field → Build → Except String (List (Bool × Node) × Build)
  | 0, _, _, _ => .error "schema-too-deep"
  | _ + 1, _, [], b => .ok ([], b)
  | fuel + 1, stack, fd :: rest, b => do
    let (n, b) ← mkNode σ fuel stack fd.ty b
    let (ns, b) ← mkFields σ fuel stack rest b
    .ok ((fd.optional, n) :: ns, b)
end

/-! ## Primitive wire formats (bit columns are `Bits`, byte columns are `Bytes`) -/

def readBitsAux : Nat → Bits → Word → Option (Word × Bits)
  | 0, bs, acc => some (acc, bs)
  | _ + 1, [], _ => none
  | n + 1, b :: bs, acc => readBitsAux n bs ((acc <<< 1) ||| (if b then 1#64 else 0#64))

/-- read an `n`-bit big-endian number; `none` when the column has fewer than `n` bits left. -/
def readBits (n : Nat) (bs : Bits) : Option (Word × Bits) := readBitsAux n bs 0#64

/-- payload width of UvarintCompact by number of leading zero bits of the prefix. -/
def uvcPayload : Nat → Option Nat
  | 0 => some 0 | 1 => some 2 | 2 => some 5 | 3 => some 12 | 4 => some 19 | 5 => some 26
  | 6 => some 33 | 7 => some 48 | _ => none

def countZeros : Nat → Bits → Nat → Option (Nat × Bits)
  | 0, _, _ => none
  | _ + 1, [], _ => none
  | _ + 1, true :: bs, k => some (k, bs)
  | f + 1, false :: bs, k => countZeros f bs (k + 1)

/-- UvarintCompact: unary prefix (k zeros then a one), then the payload of `uvcPayload k` bits. -/
def readUvc (bs : Bits) : Option (Word × Bits) :=
  match countZeros 8 bs 0 with
  | none => none
  | some (k, rest) =>
    match uvcPayload k with
    | none => none
    | some w => readBits w rest

def takeBytes : Nat → Bytes → Bytes → Option (Bytes × Bytes)
  | 0, bs, acc => some (acc.reverse, bs)
  | _ + 1, [], _ => none
  | n + 1, b :: bs, acc => takeBytes n bs (b :: acc)

/-- per-column state -/
structure ColSt where
  bits : Bits := []
  bytes : Bytes := []
  lastVal : Word := 0#64
  lastDelta : Word := 0#64
  fLast : Word := 0#64
  fLead : Nat := 0
  fTrail : Nat := 0
  size : Nat := 0           -- size in bytes of the column in the current frame
  deriving Inhabited

def ColSt.resetCodec (c : ColSt) : ColSt :=
  { c with lastVal := 0#64, lastDelta := 0#64, fLast := 0#64, fLead := 0, fTrail := 0 }

/-- delta-of-delta step of the Uint64/Int64 codec (decoder side). -/
def dodDecode (c : ColSt) (dod : Word) : ColSt × Word :=
  let delta := c.lastDelta + dod
  let v := c.lastVal + delta
  ({ c with lastDelta := delta, lastVal := v }, v)

/-- Float64 codec (decoder side) on a bit column. -/
def f64Decode (c : ColSt) : Option (ColSt × Word) :=
  match c.bits with
  | [] => none
  | false :: rest => some ({ c with bits := rest }, c.fLast)
  | true :: rest =>
    match rest with
    | [] => none
    | false :: rest =>
      let sig := 64 - c.fLead - c.fTrail
      match readBits sig rest with
      | none => none
      | some (x, rest) =>
        let v := (x <<< c.fTrail) ^^^ c.fLast
        some ({ c with bits := rest, fLast := v }, v)
    | true :: rest =>
      match readBits 5 rest with
      | none => none
      | some (lead, rest) =>
        match readBits 6 rest with
        | none => none
        | some (sm1, rest) =>
          let sig := sm1.toNat + 1
          if lead.toNat + sig > 64 then none else
          let trail := 64 - lead.toNat - sig
          match readBits sig rest with
          | none => none
          | some (x, rest) =>
            let v := (x <<< trail) ^^^ c.fLast
            some ({ c with bits := rest, fLast := v, fLead := lead.toNat, fTrail := trail }, v)

/-! ## Decoder state -/

structure DS where
  cols : Array ColSt
  sdict : List (String × List Bytes) := []
  tdict : List (String × List (Option St)) := []
  -- specification violations that do not stop decoding: direct string encodings of a value
  -- already in its dictionary, and values-only multimap encodings of more than 62 pairs
  dictViolations : Nat := 0
  dictPayload : Nat := 0           -- bytes of string values currently retained in dictionaries
  maxDictPayload : Nat := 0
  deriving Inhabited

def DS.col (ds : DS) (i : Nat) : ColSt := ds.cols.getD i {}
def DS.setCol (ds : DS) (i : Nat) (c : ColSt) : DS := { ds with cols := ds.cols.setIfInBounds i c }

def lookupDict {α} (d : List (String × List α)) (n : String) : List α :=
  ((d.find? (·.1 = n)).map (·.2)).getD []

def setDict {α} (d : List (String × List α)) (n : String) (v : List α) : List (String × List α) :=
  if d.any (·.1 = n) then d.map (fun p => if p.1 = n then (n, v) else p) else (n, v) :: d

def DS.resetDicts (ds : DS) : DS := { ds with sdict := [], tdict := [], dictPayload := 0 }

abbrev R := Except String

def needBits (o : Option α) : R α := match o with | some a => .ok a | none => .error "eof-bits"
def needBytes (o : Option α) : R α := match o with | some a => .ok a | none => .error "eof-bytes"

def decodePrim (col : Nat) (p : Prim) (dict : Option String) (ds : DS) : R (St × DS) :=
  let c := ds.col col
  match p with
  | .bool =>
    match c.bits with
    | [] => .error "eof-bits"
    | b :: rest => .ok (.b b, ds.setCol col { c with bits := rest })
  | .i64 | .u64 => do
    let (dod, rest) ← needBytes (Varint.decodeSigned c.bytes)
    let (c, v) := dodDecode { c with bytes := rest } dod
    .ok (.i v, ds.setCol col c)
  | .f64 => do
    let (c, v) ← needBits (f64Decode c)
    .ok (.f v, ds.setCol col c)
  | .str | .byts => do
    let (x, rest) ← needBytes (Varint.decodeSigned c.bytes)
    if x.msb then
      -- reference: RefNum = -x - 1
      match dict with
      | none => .error "invalid-refnum"
      | some dn =>
        let refNum := (0#64 - x - 1#64).toNat
        match (lookupDict ds.sdict dn)[refNum]? with
        | none => .error "invalid-refnum"
        | some v => .ok (.s v, ds.setCol col { c with bytes := rest })
    else do
      let (v, rest) ← needBytes (takeBytes x.toNat rest [])
      let ds := ds.setCol col { c with bytes := rest }
      match dict with
      | none => .ok (.s v, ds)
      | some dn =>
        let cur := lookupDict ds.sdict dn
        let viol := if v.length ≥ 2 ∧ cur.contains v then 1 else 0
        let ds := { ds with dictViolations := ds.dictViolations + viol }
        if v.length ≥ 2 then
          let pay := ds.dictPayload + v.length
          .ok (.s v, { ds with sdict := setDict ds.sdict dn (cur ++ [v]), dictPayload := pay,
                               maxDictPayload := max ds.maxDictPayload pay })
        else .ok (.s v, ds)

def bitLen (n : Nat) : Nat := if n = 0 then 0 else Nat.log2 n + 1

def listSet {α} (l : List α) (i : Nat) (v : α) : List α := l.set i v

/-- initial state for the alternative decoded by node `an` (used when the choice changes). -/
def altInit (σ : Schema) : Node → St
  | .prim _ p _ => initPrim p
  | .struct _ name _ _ _ _ => initSt σ initFuel (.ref name)
  | .oneof _ _ _ _ => .oneof 0 none
  | .arr _ _ _ _ => .arr []
  | .mmap _ _ _ _ _ _ => .mmap []
  | .recur key => if key.startsWith "[]" then .arr [] else initSt σ initFuel (.ref key)

mutual
/-- decode one value at `n` starting from the previous value `cur` at the same position. -/
def decodeNode (σ : Schema) : Nat → List (String × Node) → Node → St → DS → R (St × DS)
  | 0, _, _, _, _ => .error "fuel"
  | _ + 1, _, .prim col p d, _, ds => decodePrim col p d ds
  | fuel + 1, env, .recur key, cur, ds =>
    match env.find? (·.1 = key) with
    | none => .error "bad-recursion"
    | some (_, n) => decodeNode σ fuel env n cur ds
  | fuel + 1, env, .struct col name dict kept optCount fields, cur, ds => do
    let env := (name, Node.struct col name dict kept optCount fields) :: env
    let c := ds.col col
    -- dictionary structs: FullEncoding bit, or RefNum
    let (isRef, c) ← match dict with
      | none => pure (false, c)
      | some _ =>
        match c.bits with
        | [] => throw "eof-bits"
        | b :: rest => pure (!b, { c with bits := rest })
    if isRef then
      let (r, rest) ← needBits (readUvc c.bits)
      let ds := ds.setCol col { c with bits := rest }
      match (lookupDict ds.tdict (dict.getD ""))[r.toNat]? with
      | some (some v) => .ok (v, ds)
      | _ => .error "invalid-refnum"
    else
      let (mask, rest) ← needBits (readBits kept c.bits)
      let (pres, rest) ← needBits (readBits optCount rest)
      let ds := ds.setCol col { c with bits := rest }
      let (curFields, curPres) := match cur with
        | .struct p fs => (fs, p)
        | _ => ([], 0)
      let (newFields, ds) ← decodeFields σ fuel env fields 0 0 mask.toNat pres.toNat curPres curFields ds
      let v := St.struct pres.toNat newFields
      match dict with
      | none => .ok (v, ds)
      | some dn =>
        let curD := lookupDict ds.tdict dn
        let curD := if curD.isEmpty then [none] else curD     -- RefNum 0 is the nil struct
        .ok (v, { ds with tdict := setDict ds.tdict dn (curD ++ [some v]) })
  | fuel + 1, env, .oneof col name kept alts, cur, ds => do
    let env := (name, Node.oneof col name kept alts) :: env
    let c := ds.col col
    let (t, rest) ← needBits (readBits (bitLen (kept + 1)) c.bits)
    let ds := ds.setCol col { c with bits := rest }
    let typ := t.toNat
    if typ > kept then .error "invalid-oneof-type"
    else if typ = 0 then .ok (.oneof 0 none, ds)
    else
      match alts[typ - 1]? with
      | none => .error "invalid-oneof-type"
      | some an =>
        let prev : St := match cur with
          | .oneof ct (some v) => if ct = typ then v else altInit σ an
          | _ => altInit σ an
        let (v, ds) ← decodeNode σ fuel env an prev ds
        .ok (.oneof typ (some v), ds)
  | fuel + 1, env, .arr col key ety elem, cur, ds => do
    let env := (key, Node.arr col key ety elem) :: env
    let c := ds.col col
    let (len, rest) ← needBits (readUvc c.bits)
    let ds := ds.setCol col { c with bits := rest }
    let old := match cur with | .arr es => es | _ => []
    let (es, ds) ← decodeElems σ fuel env elem ety len.toNat old ds
    .ok (.arr es, ds)
  | fuel + 1, env, .mmap col name kty vty k v, cur, ds => do
    let env := (name, Node.mmap col name kty vty k v) :: env
    let c := ds.col col
    let (x, rest) ← needBytes (Varint.decode c.bytes)
    let ds := ds.setCol col { c with bytes := rest }
    let old := match cur with | .mmap ps => ps | _ => []
    if x = 0#64 then .ok (.mmap old, ds)
    else if x.getLsbD 0 then
      let count := (x >>> 1).toNat
      if count ≥ 1024 then .error "multimap-count-limit"
      else do
        let (ps, ds) ← decodePairsFull σ fuel env k v kty vty count old ds
        .ok (.mmap ps, ds)
    else do
      -- specification (MultiMap codec): "Value-only encoding can be used if the number of key-value
      -- pairs in the MultiMap is less than or equal to 62"; a values-only header against more pairs
      -- is counted as a violation, decoding continues
      let ds := if old.length > 62 then { ds with dictViolations := ds.dictViolations + 1 } else ds
      let (ps, ds) ← decodeValuesOnly σ fuel env v (x >>> 1).toNat 0 old ds
      .ok (.mmap ps, ds)

def decodeFields (σ : Schema) : Nat → List (String × Node) → List (Bool × Node) → Nat → Nat → Nat → Nat → Nat →
    List St → DS → R (List St × DS)
  | 0, _, _, _, _, _, _, _, _, _ => .error "fuel"
  | _ + 1, _, [], _, _, _, _, _, cur, ds => .ok (cur, ds)       -- fields beyond the kept ones stay as they are
  | fuel + 1, env, (opt, n) :: rest, idx, optIdx, mask, pres, prevPres, cur, ds => do
    let prev0 := cur.headD (.oneof 0 none)
    let modified := mask.testBit idx
    let present := !opt || pres.testBit optIdx
    -- implementation note (struct decoder): an optional field of a non-primitive type that was
    -- absent in the previous instance and is present (and encoded) now starts from the "new" state
    let isPrim := match n with | .prim _ _ _ => true | _ => false
    let prev := if opt && !isPrim && !(prevPres.testBit optIdx) then altInit σ n else prev0
    let (v, ds) ← if modified && present then decodeNode σ fuel env n prev ds else pure (prev0, ds)
    let (vs, ds) ← decodeFields σ fuel env rest (idx + 1) (if opt then optIdx + 1 else optIdx) mask pres prevPres cur.tail ds
    .ok (v :: vs, ds)

def decodeElems (σ : Schema) : Nat → List (String × Node) → Node → Ty → Nat → List St → DS → R (List St × DS)
  | 0, _, _, _, _, _, _ => .error "fuel"
  | _ + 1, _, _, _, 0, _, ds => .ok ([], ds)
  | fuel + 1, env, elem, ety, n + 1, old, ds => do
    let prev := match old with | o :: _ => o | [] => initSt σ initFuel ety
    let (v, ds) ← decodeNode σ fuel env elem prev ds
    let (vs, ds) ← decodeElems σ fuel env elem ety n old.tail ds
    .ok (v :: vs, ds)

def decodePairsFull (σ : Schema) : Nat → List (String × Node) → Node → Node → Ty → Ty → Nat →
    List (St × St) → DS → R (List (St × St) × DS)
  | 0, _, _, _, _, _, _, _, _ => .error "fuel"
  | _ + 1, _, _, _, _, _, 0, _, ds => .ok ([], ds)
  | fuel + 1, env, k, v, kty, vty, n + 1, old, ds => do
    let (pk, pv) := match old with
      | o :: _ => o
      | [] => (initSt σ initFuel kty, initSt σ initFuel vty)
    let (kv, ds) ← decodeNode σ fuel env k pk ds
    let (vv, ds) ← decodeNode σ fuel env v pv ds
    let (rest, ds) ← decodePairsFull σ fuel env k v kty vty n old.tail ds
    .ok ((kv, vv) :: rest, ds)

def decodeValuesOnly (σ : Schema) : Nat → List (String × Node) → Node → Nat → Nat →
    List (St × St) → DS → R (List (St × St) × DS)
  | 0, _, _, _, _, _, _ => .error "fuel"
  | _ + 1, _, _, _, _, [], ds => .ok ([], ds)
  | fuel + 1, env, v, changed, idx, (pk, pv) :: rest, ds => do
    let (vv, ds) ← if idx < 64 && changed.testBit idx then decodeNode σ fuel env v pv ds else pure (pv, ds)
    let (rs, ds) ← decodeValuesOnly σ fuel env v changed (idx + 1) rest ds
    .ok ((pk, vv) :: rs, ds)
end

/-! ## Frames and headers -/

def needVar (bs : Bytes) : R (Nat × Bytes) :=
  match Varint.decode bs with
  | some (v, rest) => .ok (v.toNat, rest)
  | none => .error "eof-varint"

def needTake (n : Nat) (bs : Bytes) : R (Bytes × Bytes) :=
  match takeBytes n bs [] with
  | some r => .ok r
  | none => .error "eof-bytes"

structure Frame where
  flags : Nat
  content : Bytes
  deriving Inhabited

/-- frames of an uncompressed stream: flags byte, U64 size, content. -/
def readFrames : Nat → Bytes → List Frame → R (List Frame)
  | 0, _, _ => .error "fuel"
  | _, [], acc => .ok acc.reverse
  | fuel + 1, fb :: rest, acc => do
    if fb.toNat > 7 then throw "invalid-frame-flags"
    let (sz, rest) ← needVar rest
    if sz > 67108864 then throw "frame-size-limit"
    let (content, rest) ← needTake sz rest
    readFrames fuel rest ({ flags := fb.toNat, content := content } :: acc)

structure Header where
  compression : Nat
  wireCounts : Option (List Nat)
  userData : List (Bytes × Bytes)
  deriving Inhabited

def readCounts : Nat → Bytes → List Nat → R (List Nat)
  | 0, _, acc => .ok acc.reverse
  | n + 1, bs, acc => do
    let (c, rest) ← needVar bs
    readCounts n rest (c :: acc)

def readUser : Nat → Bytes → List (Bytes × Bytes) → R (List (Bytes × Bytes))
  | 0, _, acc => .ok acc.reverse
  | n + 1, bs, acc => do
    let (kl, rest) ← needVar bs
    if kl > 256 then throw "string-too-long"
    let (k, rest) ← needTake kl rest
    let (vl, rest) ← needVar rest
    if vl > 256 then throw "string-too-long"
    let (v, rest) ← needTake vl rest
    readUser n rest ((k, v) :: acc)

def sig : Bytes := [0x53#8, 0x54#8, 0x45#8, 0x46#8]

def readFixedHeader (bs : Bytes) : R (Nat × Bytes) := do
  let (s, rest) ← needTake 4 bs
  if s ≠ sig then throw "invalid-signature"
  let (sz, rest) ← needVar rest
  if sz < 2 ∨ sz > 1048576 then throw "invalid-header"
  let (content, rest) ← needTake sz rest
  let ver := (content.getD 0 0#8).toNat % 16
  if ver ≠ 0 then throw "invalid-version"
  let comp := (content.getD 1 0#8).toNat % 4
  if comp > 1 then throw "invalid-compression"
  .ok (comp, rest)

def readVarHeader (content : Bytes) : R (Option (List Nat) × List (Bytes × Bytes)) := do
  let (slen, rest) ← needVar content
  if slen > 1048576 then throw "schema-too-large"
  let (sb, rest) ← needTake slen rest
  let (uc, rest) ← needVar rest
  if uc > 1024 then throw "too-many-user-data"
  let user ← readUser uc rest []
  if slen = 0 then .ok (none, user)
  else do
    let (n, sb) ← needVar sb
    if n > 1024 then throw "struct-count-limit"
    let counts ← readCounts n sb []
    .ok (some counts, user)

-- read the size table (UC per column, subtree of an empty column elided)
mutual
def readSizes : Nat → Node → Bits → List (Nat × Nat) → R (Bits × List (Nat × Nat))
  | 0, _, _, _ => .error "fuel"
  | _ + 1, .recur _, bs, acc => .ok (bs, acc)
  | fuel + 1, n, bs, acc => do
    let (sz, bs) ← needBits (readUvc bs)
    let col := match n with
      | .prim c _ _ => c | .struct c _ _ _ _ _ => c | .oneof c _ _ _ => c
      | .arr c _ _ _ => c | .mmap c _ _ _ _ _ => c | .recur _ => 0
    let acc := (col, sz.toNat) :: acc
    if sz.toNat = 0 then .ok (bs, acc)
    else
      let kids : List Node := match n with
        | .struct _ _ _ _ _ fs => fs.map (·.2)
        | .oneof _ _ _ alts => alts
        | .arr _ _ _ e => [e]
        | .mmap _ _ _ _ k v => [k, v]
        | _ => []
      readSizesList fuel kids bs acc
def readSizesList : Nat → List Node → Bits → List (Nat × Nat) → R (Bits × List (Nat × Nat))
  | 0, _, _, _ => .error "fuel"
  | _ + 1, [], bs, acc => .ok (bs, acc)
  | fuel + 1, n :: ns, bs, acc => do
    let (bs, acc) ← readSizes fuel n bs acc
    readSizesList fuel ns bs acc
end

def isBitNode : Node → Bool
  | .prim _ .bool _ => true | .prim _ .f64 _ => true | .prim _ _ _ => false
  | .struct .. => true | .oneof .. => true | .arr .. => true
  | .mmap .. => false | .recur _ => false

-- column ids in depth-first order with their kind (true = bit column)
mutual
def colKinds : Nat → Node → List (Nat × Bool)
  | 0, _ => []
  | _ + 1, .recur _ => []
  | fuel + 1, n =>
    let (col, kids) : Nat × List Node := match n with
      | .prim c _ _ => (c, [])
      | .struct c _ _ _ _ fs => (c, fs.map (·.2))
      | .oneof c _ _ alts => (c, alts)
      | .arr c _ _ e => (c, [e])
      | .mmap c _ _ _ k v => (c, [k, v])
      | .recur _ => (0, [])
    (col, isBitNode n) :: colKindsList fuel kids
def colKindsList : Nat → List Node → List (Nat × Bool)
  | 0, _ => []
  | _ + 1, [] => []
  | fuel + 1, n :: ns => colKinds fuel n ++ colKindsList fuel ns
end

/-- hand each column its data for this frame (in depth-first order; columns whose parent was
    empty do not appear in `sizes` and get no data). -/
def loadColumns (kinds : List (Nat × Bool)) (sizes : List (Nat × Nat)) (data : Bytes) (ds : DS) : R (DS × Bytes) :=
  kinds.foldlM (init := (ds, data)) fun (ds, data) (col, isBit) =>
    let sz := ((sizes.find? (·.1 = col)).map (·.2)).getD 0
    match takeBytes sz data [] with
    | none => .error "eof-column-data"
    | some (bytes, rest) =>
      let c := ds.col col
      let c := if isBit then { c with bits := bytesBits bytes, bytes := [], size := sz }
               else { c with bytes := bytes, bits := [], size := sz }
      .ok (ds.setCol col c, rest)

structure FrameInfo where
  flags : Nat
  size : Nat
  records : Nat
  dictPayloadAfter : Nat
  deriving Repr, Inhabited

structure Decoded where
  header : Header
  frames : List FrameInfo
  records : List (Nat × St)        -- (root modified mask, record)
  -- specification violations that did not stop decoding (`DS.dictViolations`): direct string
  -- encodings of a value already in its dictionary + values-only multimaps of more than 62 pairs
  dictViolations : Nat
  maxDictPayload : Nat
  error : Option String            -- set when decoding stopped early
  deriving Inhabited

def decodeRecords (σ : Schema) (root : Node) (rootMaskBits : Nat) :
    Nat → Nat → St → DS → List (Nat × St) → R (St × DS × List (Nat × St))
  | 0, _, _, _, _ => .error "fuel"
  | _ + 1, 0, cur, ds, acc => .ok (cur, ds, acc)
  | fuel + 1, n + 1, cur, ds, acc => do
    -- peek the root modified mask for reporting
    let rootCol := match root with | .struct c _ _ _ _ _ => c | _ => 0
    let mask := match readBits rootMaskBits (ds.col rootCol).bits with
      | some (m, _) => m.toNat
      | none => 0
    let (v, ds) ← decodeNode σ (fuel * 64 + 100000) [] root cur ds
    decodeRecords σ root rootMaskBits fuel n v ds ((mask, v) :: acc)

/-- the whole stream (uncompressed framing). Returns what was decoded up to the first error. -/
def decodeStream (σ : Schema) (rootName : String) (stream : Bytes) : Decoded :=
  let fuel := stream.length * 8 + 1000
  let fail (h : Header) (e : String) : Decoded :=
    { header := h, frames := [], records := [], dictViolations := 0, maxDictPayload := 0, error := some e }
  let h0 : Header := { compression := 0, wireCounts := none, userData := [] }
  match readFixedHeader stream with
  | .error e => fail h0 e
  | .ok (comp, rest) =>
    if comp ≠ 0 then fail { h0 with compression := comp } "compressed-stream-not-supported" else
    match readFrames fuel rest [] with
    | .error e => fail h0 e
    | .ok [] => fail h0 "eof-no-varheader"
    | .ok (vh :: frames) =>
      match readVarHeader vh.content with
      | .error e => fail h0 e
      | .ok (counts, user) =>
        let hdr : Header := { compression := comp, wireCounts := counts, userData := user }
        match mkNode σ 200 [] (.ref rootName) { override := counts } with
        | .error e => fail hdr e
        | .ok (root, b) =>
          if (match b.override with | some (_ :: _) => true | _ => false) then fail hdr "schema-override-not-consumed" else
          let ncols := b.nextCol
          let kinds := colKinds 10000 root
          let rootKept := match root with | .struct _ _ _ k _ _ => k | _ => 0
          let init := initSt σ initFuel (.ref rootName)
          let ds0 : DS := { cols := Array.replicate ncols {} }
          let rec go (fs : List Frame) (cur : St) (ds : DS) (infos : List FrameInfo) (recs : List (Nat × St)) : Decoded :=
            match fs with
            | [] => { header := hdr, frames := infos.reverse, records := recs.reverse,
                      dictViolations := ds.dictViolations, maxDictPayload := ds.maxDictPayload, error := none }
            | fr :: rest =>
              let stop (e : String) : Decoded :=
                { header := hdr, frames := infos.reverse, records := recs.reverse,
                  dictViolations := ds.dictViolations, maxDictPayload := ds.maxDictPayload, error := some e }
              let ds := if fr.flags % 2 = 1 then ds.resetDicts else ds
              let ds := if (fr.flags / 4) % 2 = 1 then { ds with cols := ds.cols.map ColSt.resetCodec } else ds
              match needVar fr.content with
              | .error e => stop e
              | .ok (nrec, c1) =>
                match needVar c1 with
                | .error e => stop e
                | .ok (sos, c2) =>
                  match needTake sos c2 with
                  | .error e => stop e
                  | .ok (sizeBytes, data) =>
                    match readSizes 100000 root (bytesBits sizeBytes) [] with
                    | .error e => stop e
                    | .ok (_, sizes) =>
                      match loadColumns kinds sizes data ds with
                      | .error e => stop e
                      | .ok (ds, _) =>
                        match decodeRecords σ root rootKept (fr.content.length * 8 + nrec + 1000) nrec cur ds [] with
                        | .error e => stop e
                        | .ok (cur, ds, newRecs) =>
                          go rest cur ds
                            ({ flags := fr.flags, size := fr.content.length, records := nrec,
                               dictPayloadAfter := ds.dictPayload } :: infos)
                            (newRecs ++ recs)
          go frames init ds0 [] []

end Stef.Spec
