/-
  Stef.BitFlowSem: the (hand-written) target vocabulary of the `BitFlow` generator of /verif/extract
  (extract/bitflow.go). The generator translates the struct declarations `BitsWriter` / `BitsReader` of
  go/pkg/bitstream.go and the bodies of their methods, one Lean `let` / `if` / `match` per Go statement,
  into definitions over these types (Stef/Gen/BitFlow.lean). Nothing here says WHAT the bit stream does -
  only what a Go type, a Go operator at a given type and a whitelisted library call mean.

  Go types (64-bit platform, as everywhere in this model):
  * `uint64`          -> `Word` = `BitVec 64` with the `BitVec` operators (wrap around; a shift by >= 64
                         gives 0, as in Go);
  * `int64`           -> `Word` read as two's complement: `>>` is the arithmetic shift (`sshiftRight`),
                         `<<`, `^`, `&`, `|` are the bit operators; the conversions `uint64(x)` /
                         `int64(x)` are the identity on the bit pattern;
  * `uint`            -> `Nat`, every arithmetic result reduced modulo 2^64 (`uadd`, `usub`, `umul`,
                         `ushl`); a value of this type is meaningful when it is < 2^64 (the theorems of
                         Proofs/BitFlowGen carry that as a hypothesis on the fields and prove it preserved);
  * `int`             -> `Int`, every arithmetic result wrapped into [-2^63, 2^63) (`wrapI`);
  * `byte`            -> `Byte` = `BitVec 8`;  `bool` -> `Bool`;
  * `error`           -> `GoError` = `Bool`: `nil` is `false`, `io.EOF` (the only error value the
                         generator accepts) is `true`;
  * `[]byte`          -> `Bytes` = `List Byte`; `len` is the length as an `int` (a Go slice has fewer
                         than 2^63 elements: a longer list is not a Go value); `s[i]`, `s[i:]`, `s[:n]`
                         panic outside the bounds: the generator puts the test in front of the statement
                         (`.. then none else`) and then uses `getD` / `drop` / `take`. For `s[:n]` Go's
                         bound is cap(s), which is not modelled: n > len(s) is treated as a panic.
  A panic makes the translated function return `none`; so does a `for` loop that has not ended after
  `loopFuel` rounds (the proofs show that this never happens).
-/
import Stef.Base
import Stef.Gen.Tables

namespace Stef.BitFlowSem

abbrev GoError := Bool

/-! ### Go `uint` (the arithmetic definitions are irreducible: proofs unfold them explicitly, and `simp` /
    `whnf` do not run into `% 2 ^ 64` on symbolic arguments) -/

@[irreducible] def uadd (a b : Nat) : Nat := (a + b) % 2 ^ 64
/-- `a - b` modulo 2^64. (The constant part is the LEFT summand on purpose: `Nat.add` recurses on its right
    argument, so that the kernel's evaluation of `usub n 56 ≤ ..` stops at the variable instead of peeling
    2^64 successors.) -/
@[irreducible] def usub (a b : Nat) : Nat := ((2 ^ 64 - b % 2 ^ 64) + a) % 2 ^ 64
@[irreducible] def umul (a b : Nat) : Nat := (a * b) % 2 ^ 64
def uand (a b : Nat) : Nat := a &&& b
def uor (a b : Nat) : Nat := a ||| b
def uxor (a b : Nat) : Nat := a ^^^ b
@[irreducible] def ushl (a n : Nat) : Nat := (a <<< n) % 2 ^ 64
def ushr (a n : Nat) : Nat := a >>> n

/-! ### Go `int` -/

/-- two's complement wrap of a mathematical integer into the range of a Go `int` (int64). -/
@[irreducible] def wrapI (x : Int) : Int := (x + 2 ^ 63) % 2 ^ 64 - 2 ^ 63

def iadd (a b : Int) : Int := wrapI (a + b)
def isub (a b : Int) : Int := wrapI (a - b)
/-- `a / c` for a non-zero constant `c` (Go's division truncates towards zero). -/
def idiv (a c : Int) : Int := wrapI (Int.tdiv a c)

/-! ### conversions -/

/-- `uint64(x)` of a `uint` -/
abbrev u64OfUint (x : Nat) : Word := BitVec.ofNat 64 x
/-- `uint(x)` of a `uint64` -/
abbrev uintOfU64 (x : Word) : Nat := x.toNat
/-- `uint64(x)` of a `byte` -/
abbrev u64OfByte (x : Byte) : Word := x.setWidth 64
/-- `uint(x)` of an `int` -/
@[irreducible] def uintOfInt (x : Int) : Nat := (x % 2 ^ 64).toNat
/-- `int(x)` of a `uint` -/
def intOfUint (x : Nat) : Int := wrapI x

/-! ### library -/

/-- `len(s)` -/
abbrev len (s : Bytes) : Int := (s.length : Int)
/-- `bits.LeadingZeros64` (64 for 0), result type `int`. -/
abbrev leadingZeros64 (x : Word) : Int := (x.clz.toNat : Int)
/-- `binary.BigEndian.AppendUint64(s, w)` -/
abbrev appendUint64BE (s : Bytes) (w : Word) : Bytes := s ++ be64 w
/-- `binary.BigEndian.Uint64(s)`: the first 8 bytes, big endian (the generator puts the `len(s) < 8`
    panic test in front). -/
def uint64BE (s : Bytes) : Word :=
  (List.range 8).foldl (fun acc k => (acc <<< 8) ||| ((s.getD k 0#8).setWidth 64)) 0#64

/-- rounds granted to a translated `for` loop. The only loop of bitstream.go (`refillSlow`) adds 8 to
    a counter that it keeps below 56 + 8: it ends after 7 rounds at most (`refillSlow_loop_eq`). -/
def loopFuel : Nat := 64

end Stef.BitFlowSem
