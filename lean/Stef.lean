import Stef.Base
import Stef.Gen.Tables
import Stef.Gen.Consts
import Stef.BitStream
