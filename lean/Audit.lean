/-
  Audit: `lake env lean --run Audit.lean Stef.Props.C20 [more modules]`
  Prints one JSON line per theorem declared in the given modules:
    {"module":..., "theorem":..., "axioms":[...]}
  The environment is loaded from the compiled .olean files, so what is listed is what the
  kernel accepted.
-/
import Lean
open Lean

def jsonStr (s : String) : String := "\"" ++ s ++ "\""

unsafe def main (args : List String) : IO UInt32 := do
  initSearchPath (← findSysroot)
  let mods := args.map String.toName
  let env ← importModules (mods.toArray.map (fun m => { module := m })) {} (trustLevel := 1024)
  let mut bad : UInt32 := 0
  for m in mods do
    match env.getModuleIdx? m with
    | none => IO.eprintln s!"module {m} not found"; bad := 1
    | some idx =>
      let names := env.constants.fold (init := #[]) fun acc n ci =>
        match ci with
        | .thmInfo _ => if env.getModuleIdxFor? n == some idx then acc.push n else acc
        | _ => acc
      let names := names.qsort (fun a b => a.toString < b.toString)
      for n in names do
        if n.isInternal then continue
        let (axs, _) ← ((collectAxioms n : CoreM (Array Name)).toIO
          { fileName := "<audit>", fileMap := default } { env := env })
        let axs := axs.qsort (fun a b => a.toString < b.toString)
        let axStr := ", ".intercalate (axs.toList.map (fun a => jsonStr a.toString))
        IO.println s!"\{\"module\":{jsonStr m.toString},\"theorem\":{jsonStr n.toString},\"axioms\":[{axStr}]}"
  return bad
