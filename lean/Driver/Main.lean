/-
  stefmodel: the executable Lean model behind a one-line-in, one-line-out protocol.
  Each line's first token selects the sub-driver. Core Lean only (no Mathlib) so it links.
-/
import Stef.Driver.Core
import Stef.Driver.Bits
import Stef.Driver.Chunk
import Stef.Driver.Spec
import Stef.Driver.SpecEnc
import Stef.Driver.Api
import Stef.Driver.Codec
import Stef.Driver.Limiter
import Stef.Driver.Handshake
import Stef.Driver.Cmp
import Stef.Driver.Receiver
import Stef.Driver.Pipeline
import Stef.Driver.Alloc
import Stef.Driver.Schema
import Stef.Driver.Sizes
import Stef.Driver.Otlp
import Stef.Driver.ReaderIO

open Stef.Driver

def mkHandlers : IO (List (List String × Handler)) := do
  let bits ← mkHandler ({} : Bits.St) Bits.step
  let chunk ← mkHandler ({} : Chunk.St) Chunk.step
  let spec ← mkHandler ({} : SpecD.St) SpecD.step
  let specEnc ← mkHandler ({} : SpecEncD.St) SpecEncD.step
  let api ← mkHandler ({} : ApiD.St) ApiD.step
  let codec ← mkHandler ({} : CodecD.St) CodecD.step
  let limiter ← mkHandler ({} : LimiterD.St) LimiterD.step
  let hs ← mkHandler () HandshakeD.step
  let cmp ← mkHandler ({} : Cmp.St) Cmp.step
  let recv ← mkHandler ({} : Receiver.St) Receiver.step
  let pipe ← mkHandler ({} : Pipeline.St) Pipeline.step
  let alloc ← mkHandler ({} : Stef.Alloc.Checker) AllocD.step
  let schema ← mkHandler ({} : Schema.St) Schema.step
  let sizes ← mkHandler () SizesD.step
  let otlp ← mkHandler ({} : Otlp.St) Otlp.step
  let rio ← mkHandler ({} : ReaderIOD.St) ReaderIOD.step
  pure [
    (["idl", "ws"], schema),
    (["rs"], sizes),
    (["rio"], rio),
    (["otlp"], otlp),
    (["al"], alloc),
    (["rv", "ls"], recv),
    (["pl"], pipe),
    (["prim", "cmp", "eq", "clone", "copy"], cmp),
    (["hs"], hs),
    (["sl"], limiter),
    (["sd"], spec),
    (["se"], specEnc),
    (["ap"], api),
    (["ce", "cx"], codec),
    (["bw", "br"], bits),
    (["ca", "cw"], chunk)
  ]

partial def loop (h out : IO.FS.Stream) (hs : List (List String × Handler)) : IO Unit := do
  let line ← h.getLine
  if line.isEmpty then return ()
  let toks := tokens line
  let o ← match toks with
    | [] => pure "bad-op"
    | t :: _ =>
      match hs.find? (fun p => p.1.contains t) with
      | some (_, f) => f toks
      | none => pure "bad-op"
  out.putStrLn o
  loop h out hs

def main : IO Unit := do
  let stdin ← IO.getStdin
  let stdout ← IO.getStdout
  let hs ← mkHandlers
  loop stdin stdout hs
  stdout.flush
