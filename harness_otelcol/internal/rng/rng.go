// Package rng is the single PRNG (splitmix64) every harness derives its choices from.
package rng

import (
	"os"
	"strconv"
)

type R struct{ s uint64 }

func New(seed uint64) *R { return &R{s: seed*0x9E3779B97F4A7C15 + 0x1234567} }

// FromEnv seeds from VERIF_SEED (default 1), mixed with a stream id.
func FromEnv(stream uint64) *R {
	seed := uint64(1)
	if v := os.Getenv("VERIF_SEED"); v != "" {
		if n, err := strconv.ParseUint(v, 10, 64); err == nil {
			seed = n
		}
	}
	return New(seed*1000003 + stream)
}

func Seed() uint64 {
	if v := os.Getenv("VERIF_SEED"); v != "" {
		if n, err := strconv.ParseUint(v, 10, 64); err == nil {
			return n
		}
	}
	return 1
}

func (r *R) U64() uint64 {
	r.s += 0x9E3779B97F4A7C15
	z := r.s
	z = (z ^ (z >> 30)) * 0xBF58476D1CE4E5B9
	z = (z ^ (z >> 27)) * 0x94D049BB133111EB
	return z ^ (z >> 31)
}

func (r *R) Intn(n int) int {
	if n <= 0 {
		return 0
	}
	return int(r.U64() % uint64(n))
}

func (r *R) Bool() bool { return r.U64()&1 == 1 }

// Pick returns true with probability num/den.
func (r *R) Chance(num, den int) bool { return r.Intn(den) < num }

// Bits returns a value with exactly n significant bits (top bit set) for n>=1, 0 for n=0.
func (r *R) BitsExact(n int) uint64 {
	if n == 0 {
		return 0
	}
	v := r.U64()
	if n < 64 {
		v &= (uint64(1) << n) - 1
	}
	return v | (uint64(1) << (n - 1))
}
