package main

import (
	"errors"
	"fmt"
	"sync"
	"time"

	"github.com/splunk/stef/go/grpc/stef_proto"
)

// ---- the global event log of one stream -------------------------------------------------------

type logEntry struct {
	seq    int
	kind   string // decode consumeEnd send exit runStopped
	batch  int    // decode/consumeEnd: batch index
	n      int    // decode: records in the batch
	out    string // consumeEnd: accept | perm | trans ; exit: resperr | trans | readfail | other:<text>
	ack    int
	ranges []idr
	ok     bool // send: result (known at entry for the scripted stream, set at return otherwise)
}

type tracer struct {
	mu      sync.Mutex
	entries []logEntry
}

func newTracer() *tracer { return &tracer{} }

func (t *tracer) add(e logEntry) int {
	t.mu.Lock()
	e.seq = len(t.entries)
	t.entries = append(t.entries, e)
	t.mu.Unlock()
	return e.seq
}

func (t *tracer) setOK(seq int, ok bool) {
	t.mu.Lock()
	t.entries[seq].ok = ok
	t.mu.Unlock()
}

func (t *tracer) snapshot() []logEntry {
	t.mu.Lock()
	defer t.mu.Unlock()
	return append([]logEntry(nil), t.entries...)
}

// waitFor polls until pred(entries) holds or the timeout passes; returns whether it held.
func (t *tracer) waitFor(timeout time.Duration, pred func([]logEntry) bool) bool {
	deadline := time.Now().Add(timeout)
	for {
		t.mu.Lock()
		ok := pred(t.entries)
		t.mu.Unlock()
		if ok {
			return true
		}
		if !time.Now().Before(deadline) {
			return false
		}
		time.Sleep(300 * time.Microsecond)
	}
}

// ---- scripted STEFStream -------------------------------------------------------------------------

var errScripted = errors.New("scripted send failure")

// fakeStream records every response (copied: the Responder reuses its response objects), fails
// every send from index failFrom on (a failed gRPC stream stays failed) and can hold a send for a
// while, which is what gRPC flow control does to a server whose client reads slowly.
type fakeStream struct {
	tr       *tracer
	mu       sync.Mutex
	nsend    int
	failFrom int
	hold     map[int]time.Duration
	inner    interface {
		SendDataResponse(*stef_proto.STEFDataResponse) error
	}
	blocked map[int]bool
}

func newFakeStream(tr *tracer) *fakeStream {
	return &fakeStream{tr: tr, failFrom: -1, hold: map[int]time.Duration{}, blocked: map[int]bool{}}
}

func (f *fakeStream) SendDataResponse(r *stef_proto.STEFDataResponse) error {
	f.mu.Lock()
	idx := f.nsend
	f.nsend++
	f.mu.Unlock()
	e := logEntry{kind: "send", ack: int(r.GetAckRecordId()), ok: f.failFrom < 0 || idx < f.failFrom}
	for _, x := range r.GetBadDataRecordIdRanges() {
		e.ranges = append(e.ranges, idr{int(x.GetFromId()), int(x.GetToId())})
	}
	seq := f.tr.add(e)
	if d := f.hold[idx]; d > 0 {
		f.mu.Lock()
		f.blocked[idx] = true
		f.mu.Unlock()
		time.Sleep(d)
	}
	if !e.ok {
		return errScripted
	}
	if f.inner != nil {
		if err := f.inner.SendDataResponse(r); err != nil {
			f.tr.setOK(seq, false)
			return err
		}
	}
	return nil
}

func (f *fakeStream) isBlocked(idx int) bool {
	f.mu.Lock()
	defer f.mu.Unlock()
	return f.blocked[idx]
}

// waitBlocked waits (bounded) until send #idx has entered its hold.
func (f *fakeStream) waitBlocked(idx int, timeout time.Duration) bool {
	deadline := time.Now().Add(timeout)
	for !f.isBlocked(idx) {
		if !time.Now().Before(deadline) {
			return false
		}
		time.Sleep(200 * time.Microsecond)
	}
	return true
}

// ---- from the log to the two thread sequences of the LTS ---------------------------------------

type batchObs struct {
	from, to   int
	n          int
	out        string // "" if the consumer never returned
	decodeSeq  int
	consumeSeq int // -1 if never
}

type sendObs struct {
	seq    int
	ack    int
	ranges []idr
	ok     bool
}

type streamObs struct {
	batches    []batchObs
	sends      []sendObs
	exit       string // "" (still running / unknown), resperr, trans, readfail, other:..
	runStopped bool
}

func observe(entries []logEntry) *streamObs {
	o := &streamObs{}
	count := 0
	for _, e := range entries {
		switch e.kind {
		case "decode":
			o.batches = append(o.batches, batchObs{from: count, to: count + e.n, n: e.n, decodeSeq: e.seq, consumeSeq: -1})
			count += e.n
		case "consumeEnd":
			b := &o.batches[len(o.batches)-1]
			b.out = e.out
			b.consumeSeq = e.seq
		case "send":
			o.sends = append(o.sends, sendObs{seq: e.seq, ack: e.ack, ranges: e.ranges, ok: e.ok})
		case "exit":
			o.exit = e.out
		case "runStopped":
			o.runStopped = true
		}
	}
	return o
}

// threads builds the receiver-loop sequence R and the Responder's groups with their ordering
// constraints (see DESIGN notes in lean/Stef/Receiver.lean):
//   - what precedes the log entry of a send (tick / tickNoBad / tickAck / badRecv.. badDone: the
//     loads and channel receives) precedes every receiver event whose log entry is later and which
//     happens after its entry is written (consume = return of ConsumeMetrics);
//   - a decode whose entry precedes the entry of a send precedes that send's result.
func (o *streamObs) threads() (R []mevent, groups []qgroup) {
	// R
	decodeIdx := make([]int, len(o.batches))
	for i, b := range o.batches {
		R = append(R, mevent{kind: "checkErr"})
		R = append(R, mevent{kind: "decode", n: b.n})
		decodeIdx[i] = len(R)
		if b.out == "" {
			break
		}
		need := 0
		for j, s := range o.sends {
			if s.seq < b.consumeSeq && j+1 > need {
				need = j + 1
			}
		}
		R = append(R, mevent{kind: "consume", out: b.out, needSends: need})
		last := i == len(o.batches)-1
		switch b.out {
		case "accept":
			R = append(R, mevent{kind: "schedAck"})
		case "perm":
			// the loop may still be blocked inside ScheduleBadDataResponse when the case ends
			if !(last && o.exit == "blocked") {
				R = append(R, mevent{kind: "schedBad"})
			}
		}
	}
	switch o.exit {
	case "resperr":
		R = append(R, mevent{kind: "checkErr", exit: true})
	case "readfail":
		R = append(R, mevent{kind: "checkErr"}, mevent{kind: "readFail"})
	}
	// the Responder
	result := func(s sendObs) mevent {
		k := "sendOk"
		if !s.ok {
			k = "sendFail"
		}
		need := 0
		for i, b := range o.batches {
			if b.decodeSeq < s.seq && decodeIdx[i] > need {
				need = decodeIdx[i]
			}
		}
		return mevent{kind: k, ack: s.ack, ranges: s.ranges, need: need}
	}
	compose := func(s sendObs) []mevent {
		evs := []mevent{{kind: "badRecv"}}
		for k := 1; k < len(s.ranges); k++ {
			evs = append(evs, mevent{kind: "badMore"})
		}
		return append(evs, mevent{kind: "badDone", ack: s.ack, ranges: s.ranges})
	}
	for j := 0; j < len(o.sends); {
		s := o.sends[j]
		switch {
		case len(s.ranges) > 0 && j+1 < len(o.sends) && len(o.sends[j+1].ranges) == 0:
			t := o.sends[j+1]
			var fused, split qalt
			fused.evs = append(fused.evs, mevent{kind: "tick", ack: t.ack, fused: true})
			fused.evs = append(fused.evs, compose(s)...)
			fused.preEnd = append(fused.preEnd, len(fused.evs))
			fused.evs = append(fused.evs, result(s), mevent{kind: "tickAck", ack: t.ack})
			fused.preEnd = append(fused.preEnd, len(fused.evs))
			fused.evs = append(fused.evs, result(t))
			split.evs = compose(s)
			split.preEnd = append(split.preEnd, len(split.evs))
			split.evs = append(split.evs, result(s), mevent{kind: "tick", ack: t.ack}, mevent{kind: "tickNoBad"},
				mevent{kind: "tickAck", ack: t.ack})
			split.preEnd = append(split.preEnd, len(split.evs))
			split.evs = append(split.evs, result(t))
			groups = append(groups, qgroup{nsends: 2, alts: []qalt{fused, split}})
			j += 2
		case len(s.ranges) > 0:
			a := qalt{evs: compose(s)}
			a.preEnd = []int{len(a.evs)}
			a.evs = append(a.evs, result(s))
			groups = append(groups, qgroup{nsends: 1, alts: []qalt{a}})
			j++
		default:
			a := qalt{evs: []mevent{{kind: "tick", ack: s.ack}, {kind: "tickNoBad"}, {kind: "tickAck", ack: s.ack}}}
			a.preEnd = []int{len(a.evs)}
			a.evs = append(a.evs, result(s))
			groups = append(groups, qgroup{nsends: 1, alts: []qalt{a}})
			j++
		}
	}
	if o.runStopped {
		groups = append(groups, qgroup{alts: []qalt{{evs: []mevent{{kind: "stop"}}}}})
	}
	return R, groups
}

// ---- the property, evaluated directly on what was observed -------------------------------------

type oracleOpts struct {
	exactRanges bool // the range was computed by the real onStream (not by the harness playing it)
	quiescent   bool // the stream was given time to report everything and did not break
	written     int  // batches handed to the receiver (real onStream runs), -1 if not applicable
}

func checkC16(c *caseOut, o *streamObs, opt oracleOpts) {
	// reportedAt[i] = seq of the first successful send that carries batch i's range
	reportedAt := map[int]int{}
	reportCount := map[int]int{}
	byTo := map[int]int{}
	for i, b := range o.batches {
		byTo[b.to] = i
	}
	for _, s := range o.sends {
		for _, r := range s.ranges {
			i, ok := byTo[r.to]
			if !ok || o.batches[i].out != "perm" {
				c.fail("bad-range-spurious", "response reports range [%d,%d] which is not a permanently rejected batch", r.from, r.to)
				continue
			}
			b := o.batches[i]
			reportCount[i]++
			if reportCount[i] > 1 {
				c.fail("bad-batch-reported-twice", "batch %d (ids %d..%d) reported in more than one range", i, b.from+1, b.to)
			}
			if b.consumeSeq < 0 || b.consumeSeq > s.seq {
				c.fail("bad-range-ahead", "range [%d,%d] reported before the consumer rejected the batch", r.from, r.to)
			}
			if s.ok {
				if _, dup := reportedAt[i]; !dup {
					reportedAt[i] = s.seq
				}
			}
			switch {
			case r.from == b.from+1:
				c.stat("range-exact", 1)
			case r.from == b.from && b.from == 0:
				// [0,to]: id 0 is no record, the records covered are exactly 1..to
				c.stat("range-first-batch-from-0", 1)
			case r.from == b.from:
				c.fail("bad-range-off-by-one",
					"batch %d has record ids %d..%d but the reported inclusive range is [%d,%d]: it includes id %d, the last record of the previous batch (%s)",
					i, b.from+1, b.to, r.from, r.to, r.from, o.batches[i-1].out)
			default:
				c.fail("bad-range-wrong", "batch %d has record ids %d..%d, reported range [%d,%d]", i, b.from+1, b.to, r.from, r.to)
			}
		}
	}
	prev := -1
	for j, s := range o.sends {
		if !s.ok {
			continue
		}
		a := s.ack
		if prev >= 0 && a < prev {
			c.fail("ack-regress", "response %d acknowledges id %d after id %d was acknowledged (trace: %s)", j, a, prev, o.sendsStr())
		}
		prev = a
		if _, aligned := byTo[a]; !aligned && a != 0 {
			c.fail("ack-unaligned", "response %d acknowledges id %d which is not the last id of a batch", j, a)
		}
		last := 0
		if len(o.batches) > 0 {
			last = o.batches[len(o.batches)-1].to
		}
		if a > last {
			c.fail("ack-ahead", "response %d acknowledges id %d but only %d records were decoded", j, a, last)
		}
		for i, b := range o.batches {
			if b.from >= a {
				break
			}
			if b.decodeSeq > s.seq {
				c.fail("ack-ahead", "response %d acknowledges id %d before batch %d (ids %d..%d) was decoded", j, a, i, b.from+1, b.to)
				continue
			}
			if b.consumeSeq < 0 || b.consumeSeq > s.seq {
				c.fail("ack-ahead", "response %d acknowledges id %d before the consumer returned for batch %d (ids %d..%d)", j, a, i, b.from+1, b.to)
				continue
			}
			switch b.out {
			case "accept":
			case "perm":
				if at, ok := reportedAt[i]; !ok || at > s.seq {
					c.fail("ack-before-bad-report",
						"response %d acknowledges id %d while the permanently rejected batch %d (ids %d..%d) has not been reported in any bad-data range yet (trace: %s)",
						j, a, i, b.from+1, b.to, o.sendsStr())
				}
			default:
				c.fail("ack-covers-transient", "response %d acknowledges id %d covering batch %d whose outcome was %s", j, a, i, b.out)
			}
		}
	}
	// "... is reported exactly once ... while the stream continues": when the loop left (transient
	// consumer error, failed response) the deferred Stop may win the select against the bad-data
	// branch and the report is lost with the stream; that is outside the property.
	ended := o.exit == "trans" || o.exit == "resperr"
	for i, b := range o.batches {
		if b.out == "perm" && reportCount[i] == 0 {
			if opt.quiescent && !ended {
				c.fail("bad-batch-not-reported", "permanently rejected batch %d (ids %d..%d) was never reported", i, b.from+1, b.to)
			} else if ended {
				c.stat("bad-report-lost-with-stream", 1)
			}
		}
	}
	if opt.written >= 0 && opt.quiescent {
		// the stream continues after a permanent error: every batch written up to the first
		// transient outcome reaches the consumer
		got := 0
		for _, b := range o.batches {
			if b.out != "" {
				got++
			}
		}
		if got < opt.written {
			lastOut := "none"
			if got > 0 {
				lastOut = o.batches[got-1].out
			}
			if lastOut == "perm" {
				c.fail("stream-stopped-after-permanent", "consumer saw %d of %d batches; the loop stopped after a permanent error", got, opt.written)
			} else if lastOut != "trans" {
				c.fail("stream-stopped", "consumer saw %d of %d batches (last outcome %s, exit %q)", got, opt.written, lastOut, o.exit)
			}
		}
	}
}

// raceWindows counts the situations in which, before fix 3888867, Run's select had its tick branch
// and its bad-data branch ready at the same time with the acknowledgement the larger of the two: a
// bad-data response is followed by the acknowledgement of a LATER batch which the consumer had
// already accepted when the bad-data response was sent.
func (o *streamObs) raceWindows() int {
	n := 0
	for j := 0; j+1 < len(o.sends); j++ {
		s, t := o.sends[j], o.sends[j+1]
		if len(s.ranges) == 0 || len(t.ranges) != 0 {
			continue
		}
		maxTo := 0
		for _, r := range s.ranges {
			if r.to > maxTo {
				maxTo = r.to
			}
		}
		for _, b := range o.batches {
			if b.to == t.ack && b.out == "accept" && t.ack > maxTo && b.consumeSeq >= 0 && b.consumeSeq < s.seq {
				n++
			}
		}
	}
	return n
}

func (o *streamObs) sendsStr() string {
	s := ""
	for j, x := range o.sends {
		if j > 0 {
			s += " "
		}
		r := ""
		if !x.ok {
			r = "!"
		}
		s += fmt.Sprintf("%sack=%d/%s", r, x.ack, rangesStr(x.ranges))
	}
	return s
}

func (o *streamObs) batchesStr() string {
	s := ""
	for i, b := range o.batches {
		if i > 0 {
			s += " "
		}
		s += fmt.Sprintf("%d..%d:%s", b.from+1, b.to, b.out)
	}
	return s
}

// finishC16 linearises, prints the op lines, evaluates the oracle and the non-triviality rule.
func finishC16(c *caseOut, entries []logEntry, opt oracleOpts) *streamObs {
	o := observe(entries)
	R, groups := o.threads()
	evs, ok := linearise(R, groups)
	if !ok {
		c.note("note case %s: no interleaving of the recorded thread sequences is accepted by the mirror; batches=%s sends=%s",
			c.name, o.batchesStr(), o.sendsStr())
		c.stat("linearise-failed", 1)
	}
	emitRun(c, evs)
	checkC16(c, o, opt)
	c.stat("events", len(evs))
	c.stat("responses", len(o.sends))
	c.stat("batches", len(o.batches))
	nperm, multi := 0, 0
	for _, b := range o.batches {
		c.stat("outcome-"+b.out, 1)
		if b.out == "perm" {
			nperm++
		}
	}
	for _, s := range o.sends {
		if len(s.ranges) > 1 {
			multi++
		}
		if !s.ok {
			c.stat("send-failed", 1)
		}
	}
	c.stat("multi-range-responses", multi)
	for _, e := range evs {
		if e.fused {
			// the interleaving found sends a bad-data response from inside the tick branch
			c.stat("tick-branch-bad-data", 1)
		}
	}
	c.stat("race-windows", o.raceWindows())
	c.stat("exit-"+o.exit, 1)
	if nperm >= 1 && len(o.sends) >= 2 {
		h := uint64(1469598103934665603)
		for _, e := range evs {
			h = fnv(h, e.op())
		}
		c.note("nontrivial %x", h)
	}
	c.note("sample case=%s batches=[%s] responses=[%s] exit=%s", c.name, o.batchesStr(), o.sendsStr(), o.exit)
	return o
}
