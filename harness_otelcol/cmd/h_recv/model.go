package main

// Go mirror of the enabledness/output function of lean/Stef/Receiver.lean `step`, used ONLY to
// turn the two per-goroutine event sequences recorded from the real code (receiver loop, Responder
// goroutine) into one interleaving. The interleaving is a certificate: it is printed as op lines
// and the Lean model decides (event by event) whether it is a run of the LTS. A bug here can only
// make the Lean side answer `not-enabled` (reported as broken correspondence), never hide one.

import (
	"fmt"
	"strings"
)

type idr struct{ from, to int }

func rangesStr(rs []idr) string {
	if len(rs) == 0 {
		return "-"
	}
	p := make([]string, len(rs))
	for i, r := range rs {
		p[i] = fmt.Sprintf("%d-%d", r.from, r.to)
	}
	return strings.Join(p, ",")
}

const (
	rTop = iota
	rAwait
	rDecoded
	rNeedAck
	rNeedBad
	rExited
)
const (
	qIdle = iota
	qLoaded
	qComposing
	qSending
	qAcking
	qStopped
)

const badDataCap = 10 // badDataMaxBatchSize of responder.go (also Gen-independent constant of the Lean model)

type mstate struct {
	decoded  int
	nbatches int
	rpc      int
	rf, rt   int
	nextAck  int
	queue    []idr
	lastAck  int
	lastErr  bool
	broken   bool
	stopReq  bool
	qpc      int
	rd       int  // readRecordID of the tick branch (qLoaded, qAcking, and while inTick)
	inTick   bool // the bad-data response is composed / sent from inside the tick branch
	sAck     int
	sRanges  []idr
	sBad     bool
	nresp    int
}

func (s *mstate) clone() *mstate {
	c := *s
	c.queue = append([]idr(nil), s.queue...)
	c.sRanges = append([]idr(nil), s.sRanges...)
	return &c
}

// mevent is one event of the LTS together with what was OBSERVED on the real code for it (values
// that the model's output must reproduce) and its ordering constraints from the global log.
type mevent struct {
	kind string // checkErr decode readFail consume schedAck schedBad | tick badRecv badMore badDone tickNoBad tickAck sendOk sendFail stop
	n    int    // decode: records
	out  string // consume: accept | perm | trans
	// observations
	exit   bool  // checkErr: the loop was observed to exit with the responder's error
	ack    int   // tick (the id loaded) / badDone/tickAck/sendOk/sendFail: AckRecordId of the response
	ranges []idr // badDone/sendOk/sendFail: ranges of the response
	noop   bool  // tickAck: nothing was sent (readRecordID <= lastAckedID)
	// cross-thread constraints derived from the global log.
	need      int  // Responder event: that many receiver-loop events happened before it
	needSends int  // receiver-loop event: the loads and channel receives of that many responses happened before it
	fused     bool // tick: first event of a tick branch that also sends a bad-data response
}

func (e *mevent) op() string {
	switch e.kind {
	case "decode":
		return fmt.Sprintf("rv decode %d", e.n)
	case "consume":
		return "rv consume " + e.out
	}
	return "rv " + e.kind
}

// step returns (enabled, output exactly as the Lean driver prints it).
func (s *mstate) step(e *mevent) (bool, string) {
	switch e.kind {
	case "checkErr":
		if s.rpc != rTop {
			return false, ""
		}
		if s.lastErr {
			s.rpc = rExited
			s.stopReq = true
			return true, "ok exited"
		}
		s.rpc = rAwait
		return true, "ok await"
	case "decode":
		if s.rpc != rAwait || e.n < 1 {
			return false, ""
		}
		s.rf, s.rt = s.decoded, s.decoded+e.n
		s.decoded += e.n
		s.nbatches++
		s.rpc = rDecoded
		return true, fmt.Sprintf("ok from=%d to=%d", s.rf, s.rt)
	case "readFail":
		if s.rpc != rAwait {
			return false, ""
		}
		s.rpc = rExited
		s.stopReq = true
		return true, "ok exited"
	case "consume":
		if s.rpc != rDecoded {
			return false, ""
		}
		switch e.out {
		case "accept":
			s.rpc = rNeedAck
			return true, "ok needAck"
		case "perm":
			s.rpc = rNeedBad
			return true, "ok needBad"
		case "trans":
			s.rpc = rExited
			s.stopReq = true
			return true, "ok exited"
		}
		return false, ""
	case "schedAck":
		if s.rpc != rNeedAck {
			return false, ""
		}
		s.nextAck = s.rt
		s.rpc = rTop
		return true, fmt.Sprintf("ok na=%d", s.nextAck)
	case "schedBad":
		if s.rpc != rNeedBad || len(s.queue) >= badDataCap {
			return false, ""
		}
		s.queue = append(s.queue, idr{s.rf + 1, s.rt}) // BadData{FromID: fromRecordID + 1, ToID: toRecordID}
		s.rpc = rTop
		return true, fmt.Sprintf("ok q=%d", len(s.queue))
	case "tick":
		// case <-t.C: readRecordID := r.nextAckID.Load()
		if s.qpc != qIdle {
			return false, ""
		}
		s.qpc = qLoaded
		s.rd = s.nextAck
		return true, fmt.Sprintf("ok load rd=%d", s.rd)
	case "badRecv":
		// outer select (idle) or the non-blocking select of the tick branch (loaded)
		if (s.qpc != qIdle && s.qpc != qLoaded) || len(s.queue) == 0 {
			return false, ""
		}
		s.inTick = s.qpc == qLoaded
		h := s.queue[0]
		s.queue = s.queue[1:]
		s.qpc = qComposing
		s.sAck, s.sRanges, s.sBad = h.to, []idr{h}, true
		return true, fmt.Sprintf("ok ack=%d n=%d q=%d in=%s", s.sAck, len(s.sRanges), len(s.queue), s.where())
	case "badMore":
		if s.qpc != qComposing || len(s.queue) == 0 {
			return false, ""
		}
		h := s.queue[0]
		s.queue = s.queue[1:]
		s.sRanges = append(s.sRanges, h)
		if s.sAck < h.to {
			s.sAck = h.to
		}
		return true, fmt.Sprintf("ok ack=%d n=%d q=%d in=%s", s.sAck, len(s.sRanges), len(s.queue), s.where())
	case "badDone":
		if s.qpc != qComposing || len(s.queue) != 0 {
			return false, ""
		}
		if s.sAck < s.lastAck { // sendBadDataResponse: never acknowledge less than lastAckedID
			s.sAck = s.lastAck
		}
		s.qpc = qSending
		return true, fmt.Sprintf("ok send ack=%d ranges=%s", s.sAck, rangesStr(s.sRanges))
	case "tickNoBad":
		// default: of the tick branch's select
		if s.qpc != qLoaded || len(s.queue) != 0 {
			return false, ""
		}
		s.qpc = qAcking
		return true, "ok acking"
	case "tickAck":
		if s.qpc != qAcking {
			return false, ""
		}
		if s.rd > s.lastAck {
			s.lastAck = s.rd
			s.qpc = qSending
			s.sAck, s.sRanges, s.sBad, s.inTick = s.rd, nil, false, false
			return true, fmt.Sprintf("ok send ack=%d", s.sAck)
		}
		s.qpc = qIdle
		return true, "ok noop"
	case "sendOk":
		if s.qpc != qSending || s.broken {
			return false, ""
		}
		s.nresp++
		if s.sBad {
			s.lastAck = s.sAck
		}
		s.afterSend()
		return true, fmt.Sprintf("ok resp=%d ack=%d ranges=%s la=%d next=%s", s.nresp, s.sAck, rangesStr(s.sRanges), s.lastAck, qpcNames[s.qpc])
	case "sendFail":
		if s.qpc != qSending {
			return false, ""
		}
		s.nresp++
		s.lastErr = true
		s.broken = true
		s.afterSend()
		return true, fmt.Sprintf("ok failed resp=%d ack=%d ranges=%s la=%d next=%s", s.nresp, s.sAck, rangesStr(s.sRanges), s.lastAck, qpcNames[s.qpc])
	case "stop":
		if s.qpc != qIdle || !s.stopReq {
			return false, ""
		}
		s.qpc = qStopped
		return true, "ok stopped"
	}
	return false, ""
}

// afterSend: a bad-data response sent from inside the tick branch continues with the
// acknowledgement of the id loaded before; everything else returns to the select.
func (s *mstate) afterSend() {
	if s.sBad && s.inTick {
		s.qpc = qAcking
	} else {
		s.qpc = qIdle
	}
	s.inTick = false
}

func (s *mstate) where() string {
	if s.inTick {
		return "tick"
	}
	return "select"
}

var rpcNames = []string{"top", "await", "decoded", "needAck", "needBad", "exited"}
var qpcNames = []string{"idle", "loaded", "composing", "sending", "acking", "stopped"}

func b01(b bool) int {
	if b {
		return 1
	}
	return 0
}

func (s *mstate) summary() string {
	return fmt.Sprintf("d=%d na=%d la=%d q=%d err=%d broken=%d resps=%d batches=%d rpc=%s qpc=%s",
		s.decoded, s.nextAck, s.lastAck, len(s.queue), b01(s.lastErr), b01(s.broken), s.nresp, s.nbatches,
		rpcNames[s.rpc], qpcNames[s.qpc])
}

// expected returns the output the observation demands for event e, given the mirror's output o
// (observed values override the mirror's so that the Lean model is compared with the REAL code).
func (e *mevent) expected(o string) string {
	switch e.kind {
	case "checkErr":
		if e.exit {
			return "ok exited"
		}
		return "ok await"
	case "tick":
		return fmt.Sprintf("ok load rd=%d", e.ack)
	case "tickAck":
		if e.noop {
			return "ok noop"
		}
		return fmt.Sprintf("ok send ack=%d", e.ack)
	case "badDone":
		return fmt.Sprintf("ok send ack=%d ranges=%s", e.ack, rangesStr(e.ranges))
	case "sendOk", "sendFail":
		// "ok [failed ]resp=N ack=A ranges=R la=L next=P": ack and ranges are observed
		i := strings.Index(o, " la=")
		j := strings.Index(o, " ack=")
		if i < 0 || j < 0 {
			return o
		}
		return fmt.Sprintf("%s ack=%d ranges=%s%s", o[:j], e.ack, rangesStr(e.ranges), o[i:])
	}
	return o
}

// The Responder's thread is a sequence of groups; a group is what Run does for one or two
// consecutive responses and may have alternatives that differ in WHERE the tick branch loaded the
// id it acknowledged (nothing in the log tells): a bad-data response followed by an
// acknowledgement is either
//
//	fused: tick (load), badRecv .. badDone, send result, tickAck, send result   (one tick branch)
//	split: badRecv .. badDone, send result (outer bad-data branch); tick, tickNoBad, tickAck, send result
//
// A tick branch whose final comparison sends nothing is indistinguishable from the outer bad-data
// branch (same state afterwards) and a tick that neither reports nor acknowledges is a no-op, so
// these are not generated.
type qalt struct {
	evs    []mevent
	preEnd []int // per response of the group: offset in evs just after its loads / channel receives
}

type qgroup struct {
	nsends int
	alts   []qalt
}

type qpos struct{ g, alt, off int }

// sendsPre: number of responses whose loads and channel receives have happened at position p.
func sendsPre(groups []qgroup, base []int, p qpos) int {
	if p.g >= len(groups) {
		return base[len(groups)]
	}
	n := base[p.g]
	for _, pe := range groups[p.g].alts[p.alt].preEnd {
		if pe <= p.off {
			n++
		}
	}
	return n
}

// linearise searches an interleaving of R (receiver loop) and the Responder's groups that the
// mirror accepts with outputs equal to the observations. For accepted prefixes the state is a
// function of (i, position in the chosen alternative) - every shared variable has one writer and
// all values read are observed (the id a tick loads is the id it is seen to acknowledge) - so a
// depth-first search with a visited set over (i, group, alternative, offset) is complete.
// Returns the interleaving (or the longest accepted prefix plus the first stuck events) and ok.
func linearise(R []mevent, groups []qgroup) ([]*mevent, bool) {
	base := make([]int, len(groups)+1)
	for g := range groups {
		base[g+1] = base[g] + groups[g].nsends
	}
	type node struct {
		i int
		p qpos
	}
	visited := map[node]bool{}
	var best []*mevent
	bestI, bestP := 0, qpos{}
	var path []*mevent
	var rec func(s *mstate, i int, p qpos) bool
	rec = func(s *mstate, i int, p qpos) bool {
		if i == len(R) && p.g == len(groups) {
			return true
		}
		if visited[node{i, p}] {
			return false
		}
		visited[node{i, p}] = true
		if len(path) > len(best) || best == nil {
			best = append([]*mevent{}, path...)
			bestI, bestP = i, p
		}
		// Responder events first: they are the ones that read the shared variables. At the start
		// of a group with alternatives: the fused one (bad data reported from inside the tick
		// branch), then the receiver loop, then the split one - so that the tick branch's own
		// bad-data path is the certificate whenever the observations admit it.
		tryQ := func(a int) bool {
			evs := groups[p.g].alts[a].evs
			e := &evs[p.off]
			if i < e.need {
				return false
			}
			c := s.clone()
			if ok, o := c.step(e); ok && e.expected(o) == o {
				np := qpos{p.g, a, p.off + 1}
				if np.off == len(evs) {
					np = qpos{p.g + 1, 0, 0}
				}
				path = append(path, e)
				if rec(c, i, np) {
					return true
				}
				path = path[:len(path)-1]
			}
			return false
		}
		tryR := func() bool {
			if i < len(R) && sendsPre(groups, base, p) >= R[i].needSends {
				c := s.clone()
				if ok, o := c.step(&R[i]); ok && R[i].expected(o) == o {
					path = append(path, &R[i])
					if rec(c, i+1, p) {
						return true
					}
					path = path[:len(path)-1]
				}
			}
			return false
		}
		if p.g < len(groups) {
			if p.off > 0 {
				if tryQ(p.alt) {
					return true
				}
			} else {
				if tryQ(0) {
					return true
				}
				if len(groups[p.g].alts) > 1 {
					if tryR() {
						return true
					}
					for a := 1; a < len(groups[p.g].alts); a++ {
						if tryQ(a) {
							return true
						}
					}
					return false
				}
			}
		}
		return tryR()
	}
	if rec(&mstate{}, 0, qpos{}) {
		return append([]*mevent(nil), path...), true
	}
	// no interleaving: return the longest accepted prefix followed by the remaining events in
	// thread order (Responder first, last alternative = the split one), so that the Lean model
	// points at the first impossible one.
	res := best
	p := bestP
	for p.g < len(groups) {
		if p.off == 0 {
			p.alt = len(groups[p.g].alts) - 1
		}
		evs := groups[p.g].alts[p.alt].evs
		for k := p.off; k < len(evs); k++ {
			res = append(res, &evs[k])
		}
		p = qpos{p.g + 1, 0, 0}
	}
	for i := bestI; i < len(R); i++ {
		res = append(res, &R[i])
	}
	return res, false
}

// emitRun prints the op lines of an interleaving with the outputs demanded by the observations.
func emitRun(c *caseOut, evs []*mevent) {
	s := &mstate{}
	c.emit("rv new", "ok")
	dead := false
	for _, e := range evs {
		if dead {
			// after a stuck event the mirror state is meaningless; demand `ok` so that the
			// mismatch stays visible without inventing outputs
			c.emit(e.op(), "ok")
			continue
		}
		ok, o := s.step(e)
		if !ok {
			dead = true
			c.emit(e.op(), "ok (observed on the real code; mirror: not enabled)")
			continue
		}
		c.emit(e.op(), e.expected(o))
	}
	if !dead {
		c.emit("rv summary", s.summary())
	}
}
