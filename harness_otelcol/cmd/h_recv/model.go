package main

// Go mirror of the enabledness/output function of lean/Stef/Receiver.lean `step`, used ONLY to
// turn the two per-goroutine event sequences recorded from the real code (receiver loop, Responder
// goroutine) into one interleaving. The interleaving is a certificate: it is printed as op lines
// and the Lean model decides (event by event) whether it is a run of the LTS. A bug here can only
// make the Lean side answer `not-enabled` (reported as broken correspondence), never hide one.

import (
	"fmt"
	"strings"
)

type idr struct{ from, to int }

func rangesStr(rs []idr) string {
	if len(rs) == 0 {
		return "-"
	}
	p := make([]string, len(rs))
	for i, r := range rs {
		p[i] = fmt.Sprintf("%d-%d", r.from, r.to)
	}
	return strings.Join(p, ",")
}

const (
	rTop = iota
	rAwait
	rDecoded
	rNeedAck
	rNeedBad
	rExited
)
const (
	qIdle = iota
	qComposing
	qSending
	qStopped
)

const badDataCap = 10 // badDataMaxBatchSize of responder.go (also Gen-independent constant of the Lean model)

type mstate struct {
	decoded  int
	nbatches int
	rpc      int
	rf, rt   int
	nextAck  int
	queue    []idr
	lastAck  int
	lastErr  bool
	broken   bool
	stopReq  bool
	qpc      int
	sAck     int
	sRanges  []idr
	sBad     bool
	nresp    int
}

func (s *mstate) clone() *mstate {
	c := *s
	c.queue = append([]idr(nil), s.queue...)
	c.sRanges = append([]idr(nil), s.sRanges...)
	return &c
}

// mevent is one event of the LTS together with what was OBSERVED on the real code for it (values
// that the model's output must reproduce) and its ordering constraints from the global log.
type mevent struct {
	kind string // checkErr decode readFail consume schedAck schedBad | tick badRecv badMore badDone sendOk sendFail stop
	n    int    // decode: records
	out  string // consume: accept | perm | trans
	// observations
	exit   bool  // checkErr: the loop was observed to exit with the responder's error
	ack    int   // tick/badDone/sendOk/sendFail: AckRecordId of the response
	ranges []idr // badDone/sendOk/sendFail: ranges of the response
	// cross-thread constraints derived from the global log: this event needs that many events of
	// the other thread to have happened before it.
	need int
}

func (e *mevent) op() string {
	switch e.kind {
	case "decode":
		return fmt.Sprintf("rv decode %d", e.n)
	case "consume":
		return "rv consume " + e.out
	}
	return "rv " + e.kind
}

// step returns (enabled, output exactly as the Lean driver prints it).
func (s *mstate) step(e *mevent) (bool, string) {
	switch e.kind {
	case "checkErr":
		if s.rpc != rTop {
			return false, ""
		}
		if s.lastErr {
			s.rpc = rExited
			s.stopReq = true
			return true, "ok exited"
		}
		s.rpc = rAwait
		return true, "ok await"
	case "decode":
		if s.rpc != rAwait || e.n < 1 {
			return false, ""
		}
		s.rf, s.rt = s.decoded, s.decoded+e.n
		s.decoded += e.n
		s.nbatches++
		s.rpc = rDecoded
		return true, fmt.Sprintf("ok from=%d to=%d", s.rf, s.rt)
	case "readFail":
		if s.rpc != rAwait {
			return false, ""
		}
		s.rpc = rExited
		s.stopReq = true
		return true, "ok exited"
	case "consume":
		if s.rpc != rDecoded {
			return false, ""
		}
		switch e.out {
		case "accept":
			s.rpc = rNeedAck
			return true, "ok needAck"
		case "perm":
			s.rpc = rNeedBad
			return true, "ok needBad"
		case "trans":
			s.rpc = rExited
			s.stopReq = true
			return true, "ok exited"
		}
		return false, ""
	case "schedAck":
		if s.rpc != rNeedAck {
			return false, ""
		}
		s.nextAck = s.rt
		s.rpc = rTop
		return true, fmt.Sprintf("ok na=%d", s.nextAck)
	case "schedBad":
		if s.rpc != rNeedBad || len(s.queue) >= badDataCap {
			return false, ""
		}
		s.queue = append(s.queue, idr{s.rf + 1, s.rt}) // BadData{FromID: fromRecordID + 1, ToID: toRecordID}
		s.rpc = rTop
		return true, fmt.Sprintf("ok q=%d", len(s.queue))
	case "tick":
		if s.qpc != qIdle {
			return false, ""
		}
		if s.nextAck > s.lastAck {
			s.lastAck = s.nextAck
			s.qpc = qSending
			s.sAck, s.sRanges, s.sBad = s.nextAck, nil, false
			return true, fmt.Sprintf("ok send ack=%d", s.sAck)
		}
		return true, "ok noop"
	case "badRecv":
		if s.qpc != qIdle || len(s.queue) == 0 {
			return false, ""
		}
		h := s.queue[0]
		s.queue = s.queue[1:]
		s.qpc = qComposing
		s.sAck, s.sRanges, s.sBad = h.to, []idr{h}, true
		return true, fmt.Sprintf("ok ack=%d n=%d q=%d", s.sAck, len(s.sRanges), len(s.queue))
	case "badMore":
		if s.qpc != qComposing || len(s.queue) == 0 {
			return false, ""
		}
		h := s.queue[0]
		s.queue = s.queue[1:]
		s.sRanges = append(s.sRanges, h)
		if s.sAck < h.to {
			s.sAck = h.to
		}
		return true, fmt.Sprintf("ok ack=%d n=%d q=%d", s.sAck, len(s.sRanges), len(s.queue))
	case "badDone":
		if s.qpc != qComposing || len(s.queue) != 0 {
			return false, ""
		}
		s.qpc = qSending
		return true, fmt.Sprintf("ok send ack=%d ranges=%s", s.sAck, rangesStr(s.sRanges))
	case "sendOk":
		if s.qpc != qSending || s.broken {
			return false, ""
		}
		s.nresp++
		if s.sBad {
			s.lastAck = s.sAck
		}
		s.qpc = qIdle
		return true, fmt.Sprintf("ok resp=%d ack=%d ranges=%s la=%d", s.nresp, s.sAck, rangesStr(s.sRanges), s.lastAck)
	case "sendFail":
		if s.qpc != qSending {
			return false, ""
		}
		s.nresp++
		s.lastErr = true
		s.broken = true
		s.qpc = qIdle
		return true, fmt.Sprintf("ok failed resp=%d ack=%d ranges=%s la=%d", s.nresp, s.sAck, rangesStr(s.sRanges), s.lastAck)
	case "stop":
		if s.qpc != qIdle || !s.stopReq {
			return false, ""
		}
		s.qpc = qStopped
		return true, "ok stopped"
	}
	return false, ""
}

var rpcNames = []string{"top", "await", "decoded", "needAck", "needBad", "exited"}
var qpcNames = []string{"idle", "composing", "sending", "stopped"}

func b01(b bool) int {
	if b {
		return 1
	}
	return 0
}

func (s *mstate) summary() string {
	return fmt.Sprintf("d=%d na=%d la=%d q=%d err=%d broken=%d resps=%d batches=%d rpc=%s qpc=%s",
		s.decoded, s.nextAck, s.lastAck, len(s.queue), b01(s.lastErr), b01(s.broken), s.nresp, s.nbatches,
		rpcNames[s.rpc], qpcNames[s.qpc])
}

// expected returns the output the observation demands for event e, given the mirror's output o
// (observed values override the mirror's so that the Lean model is compared with the REAL code).
func (e *mevent) expected(o string) string {
	switch e.kind {
	case "checkErr":
		if e.exit {
			return "ok exited"
		}
		return "ok await"
	case "tick":
		return fmt.Sprintf("ok send ack=%d", e.ack)
	case "badDone":
		return fmt.Sprintf("ok send ack=%d ranges=%s", e.ack, rangesStr(e.ranges))
	case "sendOk", "sendFail":
		// "ok [failed ]resp=N ack=A ranges=R la=L": ack and ranges are observed
		i := strings.Index(o, " la=")
		j := strings.Index(o, " ack=")
		if i < 0 || j < 0 {
			return o
		}
		return fmt.Sprintf("%s ack=%d ranges=%s%s", o[:j], e.ack, rangesStr(e.ranges), o[i:])
	}
	return o
}

// linearise searches an interleaving of R (receiver loop) and Q (Responder goroutine) that the
// mirror accepts with outputs equal to the observations. For accepted prefixes the state is a
// function of (i, j) - every shared variable has one writer and all values read are observed -
// so a depth-first search with a visited set over the (i, j) grid is complete.
// Returns the interleaving (or the longest accepted prefix plus the first stuck events) and ok.
func linearise(R, Q []mevent) ([]*mevent, bool) {
	type node struct{ i, j int }
	visited := map[node]bool{}
	var best []*mevent
	var path []*mevent
	var rec func(s *mstate, i, j int) bool
	rec = func(s *mstate, i, j int) bool {
		if i == len(R) && j == len(Q) {
			return true
		}
		if visited[node{i, j}] {
			return false
		}
		visited[node{i, j}] = true
		if len(path) > len(best) {
			best = append([]*mevent(nil), path...)
		}
		// Responder events first: they are the ones that read the shared variables.
		if j < len(Q) && i >= Q[j].need {
			c := s.clone()
			if ok, o := c.step(&Q[j]); ok && Q[j].expected(o) == o {
				path = append(path, &Q[j])
				if rec(c, i, j+1) {
					return true
				}
				path = path[:len(path)-1]
			}
		}
		if i < len(R) && j >= R[i].need {
			c := s.clone()
			if ok, o := c.step(&R[i]); ok && R[i].expected(o) == o {
				path = append(path, &R[i])
				if rec(c, i+1, j) {
					return true
				}
				path = path[:len(path)-1]
			}
		}
		return false
	}
	if rec(&mstate{}, 0, 0) {
		return append([]*mevent(nil), path...), true
	}
	// no interleaving: return the longest accepted prefix followed by the remaining events in
	// thread order (Responder first), so that the Lean model points at the first impossible one.
	ni, nj := 0, 0
	for _, e := range best {
		if isQ(e.kind) {
			nj++
		} else {
			ni++
		}
	}
	res := best
	for j := nj; j < len(Q); j++ {
		res = append(res, &Q[j])
	}
	for i := ni; i < len(R); i++ {
		res = append(res, &R[i])
	}
	return res, false
}

func isQ(kind string) bool {
	switch kind {
	case "tick", "badRecv", "badMore", "badDone", "sendOk", "sendFail", "stop":
		return true
	}
	return false
}

// emitRun prints the op lines of an interleaving with the outputs demanded by the observations.
func emitRun(c *caseOut, evs []*mevent) {
	s := &mstate{}
	c.emit("rv new", "ok")
	dead := false
	for _, e := range evs {
		if dead {
			// after a stuck event the mirror state is meaningless; demand `ok` so that the
			// mismatch stays visible without inventing outputs
			c.emit(e.op(), "ok")
			continue
		}
		ok, o := s.step(e)
		if !ok {
			dead = true
			c.emit(e.op(), "ok (observed on the real code; mirror: not enabled)")
			continue
		}
		c.emit(e.op(), e.expected(o))
	}
	if !dead {
		c.emit("rv summary", s.summary())
	}
}
