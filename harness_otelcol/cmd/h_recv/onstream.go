package main

// Scenario family (ii): the real receiver loop (verifhooks.OnStream = stefReceiver.onStream) fed by
// a real otelstef.MetricsWriter, through an in-memory chunk pipe or a loopback gRPC connection,
// with a scripted consumer.Metrics. A batch is what the writer emits on one Flush (one frame).

import (
	"encoding/binary"
	"context"
	"errors"
	"fmt"
	"io"
	"sync"
	"time"

	"go.opentelemetry.io/collector/consumer"
	"go.opentelemetry.io/collector/consumer/consumererror"
	"go.opentelemetry.io/collector/pdata/pmetric"
	"google.golang.org/grpc"
	"google.golang.org/grpc/codes"
	"google.golang.org/grpc/credentials/insecure"
	"google.golang.org/grpc/status"

	stefgrpc "github.com/splunk/stef/go/grpc"
	"github.com/splunk/stef/go/grpc/stef_proto"
	"github.com/splunk/stef/go/otel/otelstef"
	"github.com/splunk/stef/go/pdata/metrics/sortedbymetric"
	"github.com/splunk/stef/go/pkg"
	"github.com/splunk/stef/otelcol/verifhooks"

	"verif/harness_otelcol/internal/rng"
)

// chunkPipe is a pkg.ChunkWriter whose chunks are read by a stefgrpc.GrpcReader, one chunk per
// refill, exactly as chunkAssembler hands them out.
type chunkPipe struct {
	ch     chan []byte
	buf    []byte
	idx    int
	closed sync.Once
}

func newChunkPipe() *chunkPipe { return &chunkPipe{ch: make(chan []byte, 4096)} }

func (p *chunkPipe) WriteChunk(header []byte, content []byte) error {
	b := make([]byte, 0, len(header)+len(content))
	b = append(b, header...)
	b = append(b, content...)
	p.ch <- b
	return nil
}

func (p *chunkPipe) Close() { p.closed.Do(func() { close(p.ch) }) }

func (p *chunkPipe) Read(b []byte) (int, error) {
	if p.idx >= len(p.buf) {
		c, ok := <-p.ch
		if !ok {
			return 0, io.EOF
		}
		p.buf, p.idx = c, 0
	}
	n := copy(b, p.buf[p.idx:])
	p.idx += n
	return n, nil
}

func (p *chunkPipe) Stats() stefgrpc.GrpcReaderStats { return stefgrpc.GrpcReaderStats{} }

// scriptedConsumer is the next consumer of the receiver. It logs `decode` when ConsumeMetrics is
// entered (the batch has been decoded and converted) and `consumeEnd` just before it returns.
type scriptedConsumer struct {
	tr       *tracer
	mu       sync.Mutex
	outcomes []string
	delays   []time.Duration
	calls    int
	got      [][]point
}

func (s *scriptedConsumer) consume(_ context.Context, md pmetric.Metrics) error {
	s.mu.Lock()
	i := s.calls
	s.calls++
	out := "accept"
	if i < len(s.outcomes) {
		out = s.outcomes[i]
	}
	var d time.Duration
	if i < len(s.delays) {
		d = s.delays[i]
	}
	s.got = append(s.got, flatten(md))
	s.mu.Unlock()
	s.tr.add(logEntry{kind: "decode", batch: i, n: md.DataPointCount()})
	if d > 0 {
		time.Sleep(d)
	}
	s.tr.add(logEntry{kind: "consumeEnd", batch: i, out: out})
	switch out {
	case "perm":
		// whatever the cause is - a plain error, a wrapped one, a gRPC status of a "retryable" or a
		// "non-retryable" code, as an exporter behind the receiver returns them - an error marked
		// permanent by the consumer is a permanent rejection
		var cause error
		switch (i + len(s.outcomes)) % 6 {
		case 0:
			cause = errors.New("scripted permanent error")
		case 1:
			cause = status.Error(codes.ResourceExhausted, "scripted permanent error: destination over quota")
		case 2:
			cause = fmt.Errorf("export failed: %w", status.Error(codes.Unavailable, "scripted permanent error"))
		case 3:
			cause = status.Error(codes.InvalidArgument, "scripted permanent error")
		case 4:
			cause = status.Error(codes.DeadlineExceeded, "scripted permanent error")
		default:
			cause = fmt.Errorf("scripted permanent error: %w", io.ErrUnexpectedEOF)
		}
		return consumererror.NewPermanent(cause)
	case "trans":
		if (i+len(s.outcomes))%3 == 1 {
			return status.Error(codes.Unavailable, "scripted transient error")
		}
		return errors.New("scripted transient error")
	}
	return nil
}

func classifyExit(err error) string {
	switch {
	case err == nil:
		return "other:nil"
	case errors.Is(err, errScripted):
		return "resperr"
	case errors.Is(err, io.EOF):
		return "readfail"
	}
	if st, ok := status.FromError(err); ok {
		switch st.Code() {
		case codes.Unavailable:
			return "trans"
		case codes.Canceled:
			return "readfail"
		}
	}
	return "other:" + err.Error()
}

func runOnStreamCase(name string, sc *script, seed uint64) *caseOut {
	c := newCase("C16", name)
	r := rng.New(seed)
	tr := newTracer()
	fs := newFakeStream(tr)
	fs.failFrom = sc.failFrom
	fs.hold = sc.hold
	pipe := newChunkPipe()
	cons := &scriptedConsumer{tr: tr}
	for _, b := range sc.batches {
		cons.outcomes = append(cons.outcomes, b.out)
		cons.delays = append(cons.delays, b.consume)
	}
	next, _ := consumer.NewMetrics(cons.consume)

	w, err := otelstef.NewMetricsWriter(pipe, pkg.WriterOptions{})
	if err != nil {
		c.fail("harness-writer", "NewMetricsWriter: %v", err)
		return c
	}
	done := make(chan error, 1)
	go func() {
		defer func() {
			if p := recover(); p != nil {
				done <- fmt.Errorf("panic: %v", p)
			}
		}()
		done <- verifhooks.OnStream(logger, next, pipe, fs)
	}()

	// the writer side
	written := 0
	var wantTo []int
	expectEnd := false // a transient outcome or a send failure ends the loop
	var pushed [][]point
	for i, b := range sc.batches {
		if b.waitBlocked >= 0 {
			fs.waitBlocked(b.waitBlocked, 300*time.Millisecond)
		}
		if b.pre > 0 {
			time.Sleep(b.pre)
		}
		md := genMetrics(r, fmt.Sprintf("b%d", i), b.n)
		pushed = append(pushed, flatten(md))
		tree, err := sortedbymetric.OtlpToSortedTree(md)
		if err == nil {
			err = tree.ToStef(w)
		}
		if err == nil {
			err = w.Flush()
		}
		if err != nil {
			c.fail("harness-writer", "writing batch %d: %v", i, err)
			break
		}
		written++
		wantTo = append(wantTo, int(w.RecordCount()))
		if b.out == "trans" {
			expectEnd = true
			break
		}
	}
	broken := sc.failFrom >= 0
	// bounded wait until the consumer saw every batch and the responder reported everything
	quiescent := tr.waitFor(4*time.Second, func(es []logEntry) bool {
		o := observe(es)
		if len(o.batches) < written && !expectEnd && !broken {
			return false
		}
		if len(o.batches) < written {
			// loop may legitimately have ended early
			for _, s := range o.sends {
				if !s.ok {
					return true
				}
			}
			if len(o.batches) > 0 && o.batches[len(o.batches)-1].out == "trans" {
				return true
			}
			return false
		}
		return settled(o)
	})
	pipe.Close()
	exit := "blocked"
	select {
	case err := <-done:
		exit = classifyExit(err)
	case <-time.After(4 * time.Second):
		c.fail("onstream-hang", "onStream did not return within 4 s after the source ended (script %s)", sc)
	}
	tr.add(logEntry{kind: "exit", out: exit})
	if !quiescent {
		c.stat("settle-timeout", 1)
		c.note("note case %s: stream did not settle within 4 s (script %s)", name, sc)
	}
	o := finishC16(c, tr.snapshot(), oracleOpts{exactRanges: true, quiescent: quiescent && !broken, written: written})

	// lockstep of ids: the i-th batch the receiver decodes ends at the writer's RecordCount at the
	// i-th Flush, and carries exactly the points written.
	for i, b := range o.batches {
		if i < len(wantTo) && b.to != wantTo[i] {
			c.fail("id-lockstep", "batch %d: reader record count %d, writer record count at flush %d", i, b.to, wantTo[i])
		}
	}
	cons.mu.Lock()
	for i, got := range cons.got {
		if i < len(pushed) && !sameMultiset(got, pushed[i]) {
			c.fail("batch-content", "batch %d reached the consumer with different data points (%d vs %d)", i, len(got), len(pushed[i]))
		}
	}
	cons.mu.Unlock()
	if exit == "trans" != (len(o.batches) > 0 && o.batches[len(o.batches)-1].out == "trans") {
		c.fail("exit-class", "onStream returned %q, last outcome %v", exit, o.batchesStr())
	}
	if len(exit) > 6 && exit[:6] == "other:" {
		c.fail("exit-class", "onStream returned an unexpected error: %s", exit)
	}
	c.stat("cases-onstream", 1)
	return c
}

func sameMultiset(a, b []point) bool {
	if len(a) != len(b) {
		return false
	}
	m := map[string]int{}
	for _, p := range a {
		m[p.canon]++
	}
	for _, p := range b {
		m[p.canon]--
	}
	for _, v := range m {
		if v != 0 {
			return false
		}
	}
	return true
}

func onStreamJobs(want func(string) bool) []func() *caseOut {
	var jobs []func() *caseOut
	r := rng.FromEnv(1602)
	{
		sr := rng.FromEnv(1603)
		nsf := 6
		if thorough() {
			nsf = 30
		}
		for k := 0; k < nsf; k++ {
			nb := 3 + sr.Intn(4)
			target := 1 + sr.Intn(nb-1)
			seed := sr.U64()
			name := fmt.Sprintf("onstream-shortframe-%d", k)
			if want(name) {
				jobs = append(jobs, func() *caseOut { return runShortFrameCase(name, nb, target, seed) })
			}
		}
		nwr := 6
		if thorough() {
			nwr = 30
		}
		for k := 0; k < nwr; k++ {
			seed := sr.U64()
			name := fmt.Sprintf("onstream-wire-responses-%d", k)
			if want(name) {
				jobs = append(jobs, func() *caseOut { return runWireResponsesCase(name, seed) })
			}
		}
	}
	add := func(name string, sc *script) {
		seed := r.U64()
		if want(name) {
			jobs = append(jobs, func() *caseOut { return runOnStreamCase(name, sc, seed) })
		}
	}
	mult := 1
	if thorough() {
		mult = 6
	}
	// (a) two batches, the second permanently rejected: the reported range
	for k := 0; k < 6*mult; k++ {
		sc := &script{failFrom: -1, hold: map[int]time.Duration{}}
		nb := 2 + r.Intn(4)
		for i := 0; i < nb; i++ {
			out := "accept"
			if i == nb-1 || r.Intn(3) == 0 {
				out = "perm"
			}
			sc.batches = append(sc.batches, batchSpec{n: 1 + r.Intn(6), out: out, pre: aroundTick(r), waitBlocked: -1})
		}
		add(fmt.Sprintf("onstream-range-%d", k), sc)
	}
	// (b) the select race with the real loop: while the first acknowledgement is held by the
	// stream, a rejected and an accepted batch arrive
	for k := 0; k < 16*mult; k++ {
		sc := &script{failFrom: -1, hold: map[int]time.Duration{0: time.Duration(14+r.Intn(6)) * time.Millisecond}}
		sc.batches = []batchSpec{
			{n: 1 + r.Intn(5), out: "accept", waitBlocked: -1},
			{n: 1 + r.Intn(5), out: "perm", waitBlocked: 0},
			{n: 1 + r.Intn(5), out: "accept", waitBlocked: -1},
		}
		for e := r.Intn(3); e > 0; e-- {
			sc.batches = append(sc.batches, batchSpec{n: 1 + r.Intn(4), out: randomOutcome(r, false), pre: aroundTick(r), waitBlocked: -1})
		}
		add(fmt.Sprintf("onstream-race-%d", k), sc)
	}
	// (c) bursts (channel of 10 fills while a response is held)
	for k := 0; k < 4*mult; k++ {
		sc := &script{failFrom: -1, hold: map[int]time.Duration{0: time.Duration(12+r.Intn(10)) * time.Millisecond}}
		sc.batches = []batchSpec{{n: 1 + r.Intn(3), out: "accept", waitBlocked: -1}}
		burst := 3 + r.Intn(13)
		for i := 0; i < burst; i++ {
			out := "perm"
			if r.Intn(5) == 0 {
				out = "accept"
			}
			w := -1
			if i == 0 {
				w = 0
			}
			sc.batches = append(sc.batches, batchSpec{n: 1 + r.Intn(3), out: out, waitBlocked: w})
		}
		sc.batches = append(sc.batches, batchSpec{n: 2, out: "accept", pre: aroundTick(r), waitBlocked: -1})
		add(fmt.Sprintf("onstream-burst-%d", k), sc)
	}
	// (d) random: all three outcomes, consumer delays around the tick, send failures
	for k := 0; k < 30*mult; k++ {
		sc := &script{failFrom: -1, hold: map[int]time.Duration{}}
		nb := 1 + r.Intn(9)
		for i := 0; i < nb; i++ {
			b := batchSpec{n: 1 + r.Intn(8), out: randomOutcome(r, true), pre: aroundTick(r), waitBlocked: -1}
			if r.Intn(3) == 0 {
				b.consume = aroundTick(r)
			}
			sc.batches = append(sc.batches, b)
		}
		if r.Intn(4) == 0 {
			sc.failFrom = r.Intn(4)
		}
		if r.Intn(3) == 0 {
			sc.hold[r.Intn(3)] = time.Duration(5+r.Intn(20)) * time.Millisecond
		}
		add(fmt.Sprintf("onstream-random-%d", k), sc)
	}
	return jobs
}

// ---- writer/reader record counters ------------------------------------------------------------

func runLockstepCase(name string, seed uint64) *caseOut {
	c := newCase("C16", name)
	r := rng.New(seed)
	pipe := newChunkPipe()
	w, err := otelstef.NewMetricsWriter(pipe, pkg.WriterOptions{MaxUncompressedFrameByteSize: uint(64 + r.Intn(600))})
	if err != nil {
		c.fail("harness-writer", "NewMetricsWriter: %v", err)
		return c
	}
	rd, err := otelstef.NewMetricsReader(pipe)
	if err != nil {
		c.fail("harness-reader", "NewMetricsReader: %v", err)
		return c
	}
	c.emit("ls new", "ok")
	total := 0
	rounds := 3 + r.Intn(6)
	for k := 0; k < rounds; k++ {
		n := 1 + r.Intn(40)
		md := genMetrics(r, fmt.Sprintf("l%d", k), n)
		tree, err := sortedbymetric.OtlpToSortedTree(md)
		if err == nil {
			err = tree.ToStef(w)
		}
		if err == nil {
			err = w.Flush()
		}
		if err != nil {
			c.fail("harness-writer", "write: %v", err)
			return c
		}
		total += n
		if k%2 == 1 || r.Intn(3) == 0 {
			// an EMPTY data frame between two flushes (record count 0, a size table that says "root
			// column empty", no column data): well formed, the format does not forbid it, a writer
			// that flushes on a timer may produce it. It holds no record: the counters must not move.
			bw := pkg.NewBitsWriter(0)
			bw.WriteUvarintCompact(0)
			bw.Close()
			var content []byte
			content = binary.AppendUvarint(content, 0)
			content = binary.AppendUvarint(content, uint64(len(bw.Bytes())))
			content = append(content, bw.Bytes()...)
			hdr := binary.AppendUvarint([]byte{0}, uint64(len(content)))
			pipe.WriteChunk(hdr, content)
			c.stat("lockstep-empty-frames", 1)
		}
		c.emit(fmt.Sprintf("ls write %d", n), fmt.Sprintf("w=%d", w.RecordCount()))
		if int(w.RecordCount()) != total {
			c.fail("id-lockstep", "writer RecordCount %d after %d records", w.RecordCount(), total)
		}
		// read some of what is available (everything in the last round)
		toRead := r.Intn(n + 1)
		if k == rounds-1 {
			toRead = total - int(rd.RecordCount())
		}
		for i := 0; i < toRead; i++ {
			before := rd.RecordCount()
			if err := rd.Read(pkg.ReadOptions{}); err != nil {
				c.fail("id-lockstep", "Read failed with %d records outstanding: %v", total-int(before), err)
				return c
			}
			if rd.RecordCount() != before+1 {
				c.fail("id-lockstep", "reader RecordCount went %d -> %d on one Read", before, rd.RecordCount())
			}
		}
		c.emit(fmt.Sprintf("ls read %d", toRead), fmt.Sprintf("r=%d", rd.RecordCount()))
	}
	if w.RecordCount() != rd.RecordCount() {
		c.fail("id-lockstep", "after %d writes and reads: writer %d, reader %d", total, w.RecordCount(), rd.RecordCount())
	}
	c.emit("ls done", fmt.Sprintf("w=%d r=%d", w.RecordCount(), rd.RecordCount()))
	c.stat("cases-lockstep", 1)
	c.stat("lockstep-records", total)
	return c
}

func runC16(want func(string) bool) {
	jobs := responderJobs(want)
	jobs = append(jobs, onStreamJobs(want)...)
	r := rng.FromEnv(1603)
	nl := 20
	if thorough() {
		nl = 200
	}
	for k := 0; k < nl; k++ {
		name := fmt.Sprintf("lockstep-%d", k)
		seed := r.U64()
		if want(name) {
			jobs = append(jobs, func() *caseOut { return runLockstepCase(name, seed) })
		}
	}
	jobs = append(jobs, grpcOnStreamJobs(want)...)
	runCases(6, jobs)
}

// ---- a frame that announces one record more than it carries --------------------------------------
// The stream is written by the real MetricsWriter; in one data frame (not the first) the record count
// at the start of the frame content is raised by one, nothing else is touched. The decoder runs out of
// column data on the phantom record (a plain io.EOF from inside the frame). Whatever the receiver does
// with such a stream, it must not acknowledge an id beyond the records that exist: the reader's record
// counter moves BEFORE a record is decoded, so the count after a failed Read is not a decoded record.
// (The ids are judged against what the receiver decoded and handed to the consumer, not against what the
// writer wrote: some column layouts let the decoder produce the phantom record without an error.)

type tamperPipe struct {
	*chunkPipe
	chunk, target int
	tampered      bool
	recsBefore    []int // record count announced by each data frame, as written
}

func (p *tamperPipe) WriteChunk(header []byte, content []byte) error {
	c := append([]byte(nil), content...)
	if len(c) > 0 && p.chunk >= 2 { // chunk 0: fixed header, chunk 1: variable header
		if c[0] < 0x7e {
			p.recsBefore = append(p.recsBefore, int(c[0]))
			if p.chunk-2 == p.target {
				c[0]++
				p.tampered = true
			}
		}
	}
	p.chunk++
	return p.chunkPipe.WriteChunk(header, c)
}

func runShortFrameCase(name string, nb, target int, seed uint64) *caseOut {
	c := newCase("C16", name)
	r := rng.New(seed)
	tr := newTracer()
	fs := newFakeStream(tr)
	fs.failFrom = -1
	pipe := &tamperPipe{chunkPipe: newChunkPipe(), target: target}
	cons := &scriptedConsumer{tr: tr}
	next, _ := consumer.NewMetrics(cons.consume)
	w, err := otelstef.NewMetricsWriter(pipe, pkg.WriterOptions{})
	if err != nil {
		c.fail("harness-writer", "NewMetricsWriter: %v", err)
		return c
	}
	done := make(chan error, 1)
	go func() {
		defer func() {
			if p := recover(); p != nil {
				done <- fmt.Errorf("panic: %v", p)
			}
		}()
		done <- verifhooks.OnStream(logger, next, pipe.chunkPipe, fs)
	}()
	for i := 0; i < nb; i++ {
		md := genMetrics(r, fmt.Sprintf("b%d", i), 1+r.Intn(5))
		tree, err := sortedbymetric.OtlpToSortedTree(md)
		if err == nil {
			err = tree.ToStef(w)
		}
		if err == nil {
			err = w.Flush()
		}
		if err != nil {
			c.fail("harness-writer", "writing batch %d: %v", i, err)
			break
		}
	}
	total := int(w.RecordCount())
	time.Sleep(60 * time.Millisecond) // several ticks of the Responder
	pipe.Close()
	select {
	case <-done:
	case <-time.After(4 * time.Second):
		c.fail("onstream-hang", "onStream did not return within 4 s after the source ended (short-frame case)")
	}
	time.Sleep(30 * time.Millisecond)
	c.stat("cases-shortframe", 1)
	if !pipe.tampered {
		c.note("note case %s: no frame was tampered with", name)
		return c
	}
	c.note("nontrivial %x", uint64(nb)<<8|uint64(target))
	existing := 0 // records that exist up to and including the tampered frame
	for i, n := range pipe.recsBefore {
		if i <= target {
			existing += n
		}
	}
	_ = total
	// judged by what the receiver itself decoded and handed on (a decoder may make a record out of an
	// exhausted column without noticing - that is C03 / C05's business, the receiver cannot know):
	// the standard oracles - an acknowledged id is the last id of a decoded, consumed batch
	finishC16(c, tr.snapshot(), oracleOpts{exactRanges: false, quiescent: false, written: -1})
	c.stat("shortframe-records-existing", existing)
	return c
}

// ---- the responses AS THE CLIENT RECEIVES THEM ------------------------------------------------------
// A raw gRPC client (handshake by hand) sends frames written by the real MetricsWriter to the real
// receiver loop + Responder behind a real StreamServer and reads the STEFDataResponse messages off the
// wire. What the Responder hands to the stream is judged elsewhere; here the transport's own handling of
// the response message (go/grpc/server.go SendDataResponse) is in the loop: every permanently rejected
// batch must appear in exactly ONE response the client receives, with exactly its id range, and the
// acknowledgement ids the client sees never decrease.

type wireResp struct {
	ack    uint64
	ranges [][2]uint64
}

type frameCollector struct{ frames [][]byte }

func (f *frameCollector) WriteChunk(h, c []byte) error {
	f.frames = append(f.frames, append(append([]byte(nil), h...), c...))
	return nil
}

func runWireResponsesCase(name string, seed uint64) *caseOut {
	c := newCase("C16", name)
	r := rng.New(seed)
	nb := 4 + r.Intn(3)
	outcomes := make([]string, nb)
	for i := range outcomes {
		outcomes[i] = "accept"
	}
	rej := 1 + r.Intn(nb-2) // not the first, not the last: accepted batches follow
	outcomes[rej] = "perm"
	if r.Bool() && rej+2 < nb {
		outcomes[rej+2] = "perm"
	}
	rs, err := startRecvServer(func(st *streamRec) {
		st.cons.outcomes = append(st.cons.outcomes, outcomes...)
	})
	if err != nil {
		c.note("note cannot listen on loopback: %v", err)
		return c
	}
	defer rs.srv.Stop()
	conn, err := grpc.NewClient(rs.addr, grpc.WithTransportCredentials(insecure.NewCredentials()))
	if err != nil {
		c.fail("harness-grpc", "NewClient: %v", err)
		return c
	}
	defer conn.Close()
	ctx, cancel := context.WithTimeout(context.Background(), 20*time.Second)
	defer cancel()
	st, err := stef_proto.NewSTEFDestinationClient(conn).Stream(ctx)
	if err != nil {
		c.fail("harness-grpc", "Stream: %v", err)
		return c
	}
	if err := st.Send(&stef_proto.STEFClientMessage{FirstMessage: &stef_proto.STEFClientFirstMessage{RootStructName: otelstef.MetricsStructName}}); err != nil {
		c.fail("harness-grpc", "first message: %v", err)
		return c
	}
	if _, err := st.Recv(); err != nil {
		c.fail("harness-grpc", "capabilities: %v", err)
		return c
	}
	var mu sync.Mutex
	var resps []wireResp
	recvDone := make(chan struct{})
	go func() {
		defer close(recvDone)
		for {
			m, err := st.Recv()
			if err != nil {
				return
			}
			if d := m.GetResponse(); d != nil {
				wr := wireResp{ack: d.GetAckRecordId()}
				for _, x := range d.GetBadDataRecordIdRanges() {
					wr.ranges = append(wr.ranges, [2]uint64{x.GetFromId(), x.GetToId()})
				}
				mu.Lock()
				resps = append(resps, wr)
				mu.Unlock()
			}
		}
	}()
	fc := &frameCollector{}
	w, err := otelstef.NewMetricsWriter(fc, pkg.WriterOptions{})
	if err != nil {
		c.fail("harness-writer", "NewMetricsWriter: %v", err)
		return c
	}
	sent := 0
	var batchTo []uint64
	for i := 0; i < nb; i++ {
		md := genMetrics(r, fmt.Sprintf("b%d", i), 1+r.Intn(3))
		tree, err := sortedbymetric.OtlpToSortedTree(md)
		if err == nil {
			err = tree.ToStef(w)
		}
		if err == nil {
			err = w.Flush()
		}
		if err != nil {
			c.fail("harness-writer", "writing batch %d: %v", i, err)
			return c
		}
		batchTo = append(batchTo, w.RecordCount())
		for ; sent < len(fc.frames); sent++ {
			st.Send(&stef_proto.STEFClientMessage{StefBytes: fc.frames[sent], IsEndOfChunk: true})
		}
		time.Sleep(time.Duration(12+r.Intn(15)) * time.Millisecond) // a tick or two of the Responder between batches
	}
	// wait until the last accepted batch is acknowledged
	last := batchTo[nb-1]
	deadline := time.Now().Add(3 * time.Second)
	for time.Now().Before(deadline) {
		mu.Lock()
		done := len(resps) > 0 && resps[len(resps)-1].ack >= last
		mu.Unlock()
		if done {
			break
		}
		time.Sleep(5 * time.Millisecond)
	}
	time.Sleep(30 * time.Millisecond)
	st.CloseSend()
	cancel()
	<-recvDone
	mu.Lock()
	defer mu.Unlock()
	c.stat("cases-wire-responses", 1)
	c.note("nontrivial %x", uint64(nb)<<8|uint64(rej))
	desc := func() string {
		s := ""
		for _, x := range resps {
			s += fmt.Sprintf("ack=%d/%v ", x.ack, x.ranges)
		}
		return s
	}
	prev := uint64(0)
	for j, x := range resps {
		if x.ack < prev {
			c.fail("ack-regress", "client received acknowledgement id %d after %d (response %d; received: %s)", x.ack, prev, j, desc())
		}
		prev = x.ack
	}
	for i, out := range outcomes {
		from := uint64(1)
		if i > 0 {
			from = batchTo[i-1] + 1
		}
		to := batchTo[i]
		n := 0
		for _, x := range resps {
			for _, rg := range x.ranges {
				if rg[0] == from && rg[1] == to {
					n++
				}
			}
		}
		if out == "perm" && n != 1 {
			c.fail("bad-batch-reported-twice", "permanently rejected batch %d (ids %d..%d) appears in %d of the responses the CLIENT received over gRPC, want exactly once (outcomes %v; received: %s)", i, from, to, n, outcomes, desc())
		}
		if out != "perm" && n != 0 {
			c.fail("bad-range-spurious", "accepted batch %d (ids %d..%d) is reported as bad data in %d responses the client received (received: %s)", i, from, to, n, desc())
		}
	}
	return c
}
