package main

// Loopback gRPC: a real stefgrpc.StreamServer whose OnStream callback runs the real receiver loop
// (verifhooks.OnStream) with a recording wrapper around the response stream.
//   - C16 (ii-b): a real stefgrpc.Client + otelstef.MetricsWriter as the sender, scripted consumer;
//   - C19 (iii):  real exporters (verifhooks.NewExporter), concurrent PushMetrics, accepting consumer.

import (
	"context"
	"fmt"
	"net"
	"sort"
	"strings"
	"sync"
	"time"

	"go.opentelemetry.io/collector/consumer"
	"google.golang.org/grpc"
	"google.golang.org/grpc/credentials/insecure"

	stefgrpc "github.com/splunk/stef/go/grpc"
	"github.com/splunk/stef/go/grpc/stef_proto"
	"github.com/splunk/stef/go/otel/otelstef"
	"github.com/splunk/stef/go/pdata/metrics/sortedbymetric"
	"github.com/splunk/stef/otelcol/verifhooks"

	"verif/harness_otelcol/internal/rng"
)

// streamRec is everything recorded about one incoming stream.
type streamRec struct {
	tr   *tracer
	fs   *fakeStream
	cons *scriptedConsumer
	done chan struct{}
	exit string
}

type recvServer struct {
	srv     *grpc.Server
	addr    string
	mu      sync.Mutex
	streams []*streamRec
	// newStream configures the recording of the next incoming stream (script of the consumer etc.)
	newStream func(st *streamRec)
}

func startRecvServer(newStream func(st *streamRec)) (*recvServer, error) {
	lis, err := net.Listen("tcp", "127.0.0.1:0")
	if err != nil {
		return nil, err
	}
	rs := &recvServer{srv: grpc.NewServer(), addr: lis.Addr().String(), newStream: newStream}
	schema, err := otelstef.MetricsWireSchema()
	if err != nil {
		return nil, err
	}
	settings := stefgrpc.ServerSettings{
		ServerSchema: &schema,
		Callbacks: stefgrpc.Callbacks{OnStream: func(reader stefgrpc.GrpcReader, stream stefgrpc.STEFStream) error {
			st := &streamRec{tr: newTracer(), done: make(chan struct{})}
			st.fs = newFakeStream(st.tr)
			st.fs.inner = stream
			st.cons = &scriptedConsumer{tr: st.tr}
			if rs.newStream != nil {
				rs.newStream(st)
			}
			next, _ := consumer.NewMetrics(st.cons.consume)
			rs.mu.Lock()
			rs.streams = append(rs.streams, st)
			rs.mu.Unlock()
			var err error
			func() {
				defer func() {
					if p := recover(); p != nil {
						err = fmt.Errorf("panic: %v", p)
					}
				}()
				err = verifhooks.OnStream(logger, next, reader, st.fs)
			}()
			st.exit = classifyExit(err)
			st.tr.add(logEntry{kind: "exit", out: st.exit})
			close(st.done)
			return err
		}},
	}
	stef_proto.RegisterSTEFDestinationServer(rs.srv, stefgrpc.NewStreamServer(settings))
	go func() { _ = rs.srv.Serve(lis) }()
	return rs, nil
}

func (rs *recvServer) snapshotStreams() []*streamRec {
	rs.mu.Lock()
	defer rs.mu.Unlock()
	return append([]*streamRec(nil), rs.streams...)
}

// ---- C16 (ii-b): the receiver loop behind a real gRPC stream ---------------------------------

func runGrpcOnStreamCase(name string, sc *script, seed uint64) *caseOut {
	c := newCase("C16", name)
	r := rng.New(seed)
	rs, err := startRecvServer(func(st *streamRec) {
		for _, b := range sc.batches {
			st.cons.outcomes = append(st.cons.outcomes, b.out)
			st.cons.delays = append(st.cons.delays, b.consume)
		}
		st.fs.hold = sc.hold
	})
	if err != nil {
		c.note("note cannot listen on loopback: %v", err)
		return c
	}
	defer rs.srv.Stop()
	conn, err := grpc.NewClient(rs.addr, grpc.WithTransportCredentials(insecure.NewCredentials()))
	if err != nil {
		c.fail("harness-grpc", "NewClient: %v", err)
		return c
	}
	defer conn.Close()
	schema, _ := otelstef.MetricsWireSchema()
	var ackMu sync.Mutex
	var clientAcks []int
	client, err := stefgrpc.NewClient(stefgrpc.ClientSettings{
		GrpcClient:   stef_proto.NewSTEFDestinationClient(conn),
		ClientSchema: stefgrpc.ClientSchema{WireSchema: &schema, RootStructName: otelstef.MetricsStructName},
		Callbacks: stefgrpc.ClientCallbacks{OnAck: func(id uint64) error {
			ackMu.Lock()
			clientAcks = append(clientAcks, int(id))
			ackMu.Unlock()
			return nil
		}},
	})
	if err != nil {
		c.fail("harness-grpc", "stefgrpc.NewClient: %v", err)
		return c
	}
	cw, opts, err := client.Connect(context.Background())
	if err != nil {
		c.fail("harness-grpc", "Connect: %v", err)
		return c
	}
	w, err := otelstef.NewMetricsWriter(cw, opts)
	if err != nil {
		c.fail("harness-grpc", "NewMetricsWriter: %v", err)
		return c
	}
	written := 0
	var wantTo []int
	expectEnd := false
	for i, b := range sc.batches {
		if b.pre > 0 {
			time.Sleep(b.pre)
		}
		md := genMetrics(r, fmt.Sprintf("b%d", i), b.n)
		tree, err := sortedbymetric.OtlpToSortedTree(md)
		if err == nil {
			err = tree.ToStef(w)
		}
		if err == nil {
			err = w.Flush()
		}
		if err != nil {
			// the receiver may already have closed the stream (transient outcome)
			c.note("note case %s: write of batch %d failed: %v", name, i, err)
			break
		}
		written++
		wantTo = append(wantTo, int(w.RecordCount()))
		if b.out == "trans" {
			expectEnd = true
			break
		}
	}
	// wait for the stream to appear and to settle
	var st *streamRec
	deadline := time.Now().Add(4 * time.Second)
	for st == nil && time.Now().Before(deadline) {
		if ss := rs.snapshotStreams(); len(ss) > 0 {
			st = ss[0]
		} else {
			time.Sleep(time.Millisecond)
		}
	}
	if st == nil {
		c.fail("onstream-missing", "the server never saw the stream")
		return c
	}
	quiescent := st.tr.waitFor(4*time.Second, func(es []logEntry) bool {
		o := observe(es)
		if len(o.batches) < written {
			return expectEnd && len(o.batches) > 0 && o.batches[len(o.batches)-1].out == "trans"
		}
		return settled(o)
	})
	// every acknowledgement sent by the receiver reaches the client, in order
	if quiescent {
		o := observe(st.tr.snapshot())
		var sent []int
		for _, s := range o.sends {
			if s.ok {
				sent = append(sent, s.ack)
			}
		}
		ok := false
		for t := 0; t < 2000 && !ok; t++ {
			ackMu.Lock()
			ok = len(clientAcks) >= len(sent)
			ackMu.Unlock()
			if !ok && !expectEnd {
				time.Sleep(time.Millisecond)
			} else if !ok {
				break
			}
		}
		ackMu.Lock()
		if ok && fmt.Sprint(clientAcks[:len(sent)]) != fmt.Sprint(sent) {
			c.fail("ack-transport", "receiver sent acks %v, client callback saw %v", sent, clientAcks)
		}
		if !ok && !expectEnd {
			c.fail("ack-transport", "receiver sent acks %v, client callback saw only %v after 2 s", sent, clientAcks)
		}
		ackMu.Unlock()
	}
	ctx, cancel := context.WithTimeout(context.Background(), 3*time.Second)
	_ = client.Disconnect(ctx)
	cancel()
	select {
	case <-st.done:
	case <-time.After(4 * time.Second):
		c.fail("onstream-hang", "onStream did not return within 4 s after the client disconnected")
		st.tr.add(logEntry{kind: "exit", out: "blocked"})
	}
	if !quiescent {
		c.stat("settle-timeout", 1)
		c.note("note case %s: stream did not settle within 4 s (script %s)", name, sc)
	}
	o := finishC16(c, st.tr.snapshot(), oracleOpts{exactRanges: true, quiescent: quiescent, written: written})
	for i, b := range o.batches {
		if i < len(wantTo) && b.to != wantTo[i] {
			c.fail("id-lockstep", "batch %d: reader record count %d, writer record count at flush %d", i, b.to, wantTo[i])
		}
	}
	if strings.HasPrefix(st.exit, "other:") {
		c.fail("exit-class", "onStream returned an unexpected error: %s", st.exit)
	}
	c.stat("cases-onstream-grpc", 1)
	return c
}

func grpcOnStreamJobs(want func(string) bool) []func() *caseOut {
	var jobs []func() *caseOut
	r := rng.FromEnv(1604)
	n := 10
	if thorough() {
		n = 60
	}
	for k := 0; k < n; k++ {
		sc := &script{failFrom: -1, hold: map[int]time.Duration{}}
		nb := 2 + r.Intn(7)
		for i := 0; i < nb; i++ {
			b := batchSpec{n: 1 + r.Intn(8), out: randomOutcome(r, i > 1), pre: aroundTick(r), waitBlocked: -1}
			if r.Intn(3) == 0 {
				b.consume = aroundTick(r)
			}
			sc.batches = append(sc.batches, b)
		}
		if r.Intn(3) == 0 {
			sc.hold[r.Intn(2)] = time.Duration(11+r.Intn(10)) * time.Millisecond
		}
		name := fmt.Sprintf("grpc-onstream-%d", k)
		seed := r.U64()
		if want(name) {
			jobs = append(jobs, func() *caseOut { return runGrpcOnStreamCase(name, sc, seed) })
		}
	}
	return jobs
}

// ---- C19: exporter(s) -> receiver -> consumer -----------------------------------------------------

type pipeSpec struct {
	exporters   int
	compression string
	goroutines  int // per exporter
	pushes      int // per goroutine
	maxPoints   int
	pause       func(r *rng.R) time.Duration
	stale       bool // some pushes carry a staleness marker: a number data point without value, flag NoRecordedValue
	// one push in the middle is LARGE: largePoints points with a pad attribute of largePad bytes each,
	// more than one frame of the writer, so that the writer sends frames (and the receiver
	// acknowledges them) while PushMetrics is still writing the batch
	largePoints, largePad int
	largeBytes            bool // the pad is a bytes attribute (not dictionary encoded)
	// rejectFrom > 0: the consumer rejects permanently every batch of a stream from this index on
	// (rejectAlternate: only every second one of those)
	rejectFrom      int
	rejectAlternate bool
	// cancel: goroutine 0 keeps the exporter busy with large pushes; the other goroutines push small
	// batches whose context is cancelled a few milliseconds after the call starts. A push that
	// returns an error is RETRIED with a fresh context, as a collector pipeline does: an export
	// that reports failure must not have been delivered, or the retry delivers it twice.
	cancel bool
}

type pushRec struct {
	tag    string
	points []point
}

func pushTag(vid string) string {
	if i := strings.LastIndex(vid, "-"); i >= 0 {
		return vid[:i]
	}
	return vid
}

func runPipelineCase(name string, sp pipeSpec, seed uint64) *caseOut {
	c := newCase("C19", name)
	var cfgStream func(st *streamRec)
	if sp.cancel {
		// a slow consumer: the receiver stops reading while it works on a batch, gRPC flow control
		// then holds the exporter's large writes (and its write lock) for a while
		cfgStream = func(st *streamRec) {
			for i := 0; i < 400; i++ {
				st.cons.delays = append(st.cons.delays, 30*time.Millisecond)
			}
		}
	}
	if sp.rejectFrom > 0 {
		cfgStream = func(st *streamRec) {
			for i := 0; i < 64; i++ {
				out := "accept"
				if i >= sp.rejectFrom && (!sp.rejectAlternate || (i-sp.rejectFrom)%2 == 0) {
					out = "perm"
				}
				st.cons.outcomes = append(st.cons.outcomes, out)
			}
		}
	}
	rs, err := startRecvServer(cfgStream)
	if err != nil {
		c.note("note cannot listen on loopback: %v", err)
		return c
	}
	defer rs.srv.Stop()

	exps := make([]*verifhooks.Exporter, sp.exporters)
	for e := range exps {
		exps[e] = verifhooks.NewExporter(logger, rs.addr, sp.compression)
		if err := exps[e].Start(context.Background()); err != nil {
			c.fail("exporter-start", "exporter %d: %v", e, err)
			return c
		}
	}
	var mu sync.Mutex
	pushed := map[string]*pushRec{}       // by push tag
	perExp := make([]int, sp.exporters)   // accepted data points per exporter
	perStale := make([]int, sp.exporters) // of which staleness markers
	var wg sync.WaitGroup
	seedR := rng.New(seed)
	for e := 0; e < sp.exporters; e++ {
		for g := 0; g < sp.goroutines; g++ {
			wg.Add(1)
			gr := rng.New(seedR.U64())
			go func(e, g int, r *rng.R) {
				defer wg.Done()
				npush := sp.pushes
				if sp.cancel && g != 0 {
					npush *= 12 // many small pushes, so that some wait for the lock when their context ends
				}
				for p := 0; p < npush; p++ {
					tag := fmt.Sprintf("e%d-g%d-p%d", e, g, p)
					md := genMetrics(r, tag, 1+r.Intn(sp.maxPoints))
					if sp.largePoints > 0 && p == sp.pushes/2 {
						md = genMetricsPadKind(r, tag, sp.largePoints, sp.largePad, sp.largeBytes)
					}
					nstale := 0
					if sp.stale && r.Intn(2) == 0 {
						addStalePoint(md, tag)
						nstale = 1
					}
					rec := &pushRec{tag: tag, points: flatten(md)}
					if sp.cancel && g == 0 {
						md = genMetricsPad(r, tag, 12000+r.Intn(4000), 700)
						rec = &pushRec{tag: tag, points: flatten(md)}
					}
					var err error
					push := func(ctx context.Context) {
						defer func() {
							if x := recover(); x != nil {
								err = fmt.Errorf("panic: %v", x)
							}
						}()
						err = exps[e].PushMetrics(ctx, md)
					}
					if sp.cancel && g != 0 {
						ctx, cancelFn := context.WithCancel(context.Background())
						d := time.Duration(r.Intn(8000)) * time.Microsecond
						timer := time.AfterFunc(d, cancelFn)
						push(ctx)
						if ctx.Err() != nil {
							mu.Lock()
							c.stat("push-context-cancelled-during-call", 1)
							mu.Unlock()
						}
						timer.Stop()
						cancelFn()
						for try := 0; err != nil && try < 3; try++ {
							mu.Lock()
							c.stat("push-retried-after-error", 1)
							mu.Unlock()
							push(context.Background())
						}
					} else {
						push(context.Background())
					}
					if err != nil {
						// not accepted by the exporter: outside the property
						mu.Lock()
						c.note("note case %s: PushMetrics %s returned %v", name, tag, err)
						c.stat("push-rejected", 1)
						mu.Unlock()
						continue
					}
					mu.Lock()
					pushed[tag] = rec
					perExp[e] += len(rec.points)
					perStale[e] += nstale
					mu.Unlock()
					if d := sp.pause(r); d > 0 {
						time.Sleep(d)
					}
				}
			}(e, g, gr)
		}
	}
	wg.Wait()
	// PushMetrics writes its records before it returns: the record ids are final here
	for e, x := range exps {
		s, _, _ := x.AckState()
		if int(s) != perExp[e] && !(perStale[e] > 0 && int(s) == perExp[e]-perStale[e]) {
			c.fail("id-lockstep", "exporter %d: lastSentRecordId %d after %d accepted data points", e, s, perExp[e])
		}
	}
	// every delivered batch is eventually acknowledged back to the exporter: bounded wait until
	// each exporter has seen an ack covering everything it sent
	deadline := time.Now().Add(10 * time.Second)
	allAcked := false
	for !allAcked && time.Now().Before(deadline) {
		allAcked = true
		for _, x := range exps {
			sent, acked, _ := x.AckState()
			if acked < sent {
				allAcked = false
			}
		}
		if !allAcked {
			time.Sleep(2 * time.Millisecond)
		}
	}
	type ackState struct{ sent, acked, pending int }
	final := make([]ackState, sp.exporters)
	for e, x := range exps {
		s, a, p := x.AckState()
		final[e] = ackState{int(s), int(a), p}
	}
	streams := rs.snapshotStreams()
	// delivered points, per stream, in order
	type streamData struct {
		exp     int
		batches [][]point
		obs     *streamObs
	}
	var sds []streamData
	delivered := map[string]int{}   // canon -> count
	deliveredID := map[string]int{} // vid -> count
	canonOf := map[string]string{}  // vid -> canon as delivered
	for _, st := range streams {
		st.cons.mu.Lock()
		got := append([][]point(nil), st.cons.got...)
		st.cons.mu.Unlock()
		sd := streamData{exp: -1, batches: got, obs: observe(st.tr.snapshot())}
		for _, b := range got {
			for _, p := range b {
				delivered[p.canon]++
				deliveredID[p.id]++
				canonOf[p.id] = p.canon
				if sd.exp < 0 {
					fmt.Sscanf(p.id, "e%d-", &sd.exp)
				}
			}
		}
		sds = append(sds, sd)
	}
	sort.Slice(sds, func(i, j int) bool { return sds[i].exp < sds[j].exp })

	// 1. exactly once and unchanged
	npushed := 0
	missing, changed, dup, staleMissing := 0, 0, 0, 0
	var firstMissing, firstChanged, firstDup string
	for _, rec := range pushed {
		for _, p := range rec.points {
			npushed++
			n := deliveredID[p.id]
			switch {
			case n == 0 && strings.HasSuffix(p.id, "-stale"):
				staleMissing++
			case n == 0:
				missing++
				if firstMissing == "" {
					firstMissing = p.id
				}
			case n > 1:
				dup++
				if firstDup == "" {
					firstDup = p.id
				}
			case canonOf[p.id] != p.canon:
				changed++
				if firstChanged == "" {
					firstChanged = fmt.Sprintf("%s pushed {%s} delivered {%s}", p.id, p.canon, canonOf[p.id])
				}
			}
			delivered[p.canon]--
		}
	}
	extra := 0
	for _, v := range delivered {
		if v > 0 {
			extra += v
		}
	}
	if missing > 0 {
		c.fail("delivery-missing", "%d of %d accepted data points never reached the consumer (first %s); acked=%v", missing, npushed, firstMissing, allAcked)
	}
	if staleMissing > 0 {
		c.fail("stale-point-dropped", "%d accepted number data points without a value (flag NoRecordedValue, staleness markers) never reached the consumer: PushMetrics returned nil, no record was written for them", staleMissing)
	}
	if dup > 0 {
		c.fail("delivery-duplicate", "%d data points delivered more than once (first %s)", dup, firstDup)
	}
	if changed > 0 {
		c.fail("delivery-changed", "%d data points delivered with different content: %s", changed, firstChanged)
	}
	if extra > 0 && missing == 0 && dup == 0 && changed == 0 {
		c.fail("delivery-extra", "%d data points delivered that were never pushed", extra)
	}
	// 2. acknowledgements
	if !allAcked {
		for e := range exps {
			if final[e].acked < final[e].sent {
				c.fail("ack-missing", "exporter %d: last ack %d < last sent record id %d after 10 s (pending map %d)", e, final[e].acked, final[e].sent, final[e].pending)
			}
		}
	}
	for _, sd := range sds {
		if sd.exp < 0 || sd.exp >= len(final) {
			continue
		}
		for i, b := range sd.obs.batches {
			if b.out == "accept" && b.to > final[sd.exp].acked {
				c.fail("ack-missing", "exporter %d: delivered batch %d (ids %d..%d) never acknowledged (last ack %d)", sd.exp, i, b.from+1, b.to, final[sd.exp].acked)
			}
		}
		checkC16sub(c, sd.obs)
	}
	// 3. per stream: pushes are serialised, the trace is a run of the pipeline model
	nontrivial := false
	h := uint64(1469598103934665603)
	for _, sd := range sds {
		if sd.exp < 0 || sd.exp >= len(final) {
			continue
		}
		var order []string // push tags in stream order
		seen := map[string]int{}
		last := ""
		inter := false
		for _, b := range sd.batches {
			for _, p := range b {
				t := pushTag(p.id)
				if t != last {
					if seen[t] > 0 {
						inter = true
					}
					order = append(order, t)
					last = t
				}
				seen[t]++
			}
		}
		if inter {
			c.fail("push-interleaved", "exporter %d: records of one PushMetrics call are not contiguous in the stream", sd.exp)
			continue
		}
		for _, t := range order {
			if rec := pushed[t]; rec != nil && seen[t] != len(rec.points) && missing == 0 && dup == 0 && staleMissing == 0 {
				c.fail("push-split", "push %s: %d points pushed, %d in the stream", t, len(rec.points), seen[t])
			}
		}
		if sp.rejectFrom > 0 {
			// the pipeline model (Stef/Pipeline.lean) has no rejecting consumer: these cases are
			// judged by the oracles above only
			continue
		}
		// model run: pushes in stream order, frames as the receiver saw them, acks as it sent them
		c.emit("pl new", "ok")
		sentAcks := map[int]bool{}
		for _, s := range sd.obs.sends {
			if s.ok && len(s.ranges) == 0 {
				sentAcks[s.ack] = true
			}
		}
		modelWritten, pi, modelSent := 0, 0, 0
		modelDelivered := 0
		for i, b := range sd.batches {
			to := sd.obs.batches[i].to
			inFrame := 0
			for modelWritten < to && pi < len(order) {
				n := seen[order[pi]]
				modelWritten += n
				modelSent = modelWritten
				c.emit(fmt.Sprintf("pl push %d", n), fmt.Sprintf("ok sent=%d", modelSent))
				pi++
				inFrame++
			}
			if inFrame >= 2 {
				nontrivial = true
			}
			c.emit(fmt.Sprintf("pl emit %d", len(b)), "ok")
			c.emit("pl deliver", fmt.Sprintf("ok decoded=%d", to))
			modelDelivered += len(b)
			c.emit("pl accept", fmt.Sprintf("ok delivered=%d na=%d", modelDelivered, to))
			if sentAcks[to] {
				c.emit("pl tick", fmt.Sprintf("ok ack=%d", to))
				c.emit("pl ackrecv", fmt.Sprintf("ok acked=%d", to))
			}
			h = fnv(h, fmt.Sprintf("%d:%d:%d;", inFrame, len(b), b01(sentAcks[to])))
		}
		// the exporter's own bookkeeping at quiescence, observed through AckState()
		if allAcked && missing == 0 {
			f := final[sd.exp]
			c.emit("pl state", fmt.Sprintf("sent=%d acked=%d pending=%d delivered=%d", f.sent, f.acked, f.pending, modelDelivered))
			if f.pending != 0 {
				c.stat("pending-after-all-acked", 1)
			}
		}
		c.stat("streams", 1)
		c.stat("frames", len(sd.batches))
		c.stat("pushes", len(order))
	}
	if sp.goroutines > 1 {
		nontrivial = true
	}
	if nontrivial {
		c.note("nontrivial %x", h)
	}
	c.stat("points-pushed", npushed)
	c.stat("cases-pipeline", 1)
	c.stat("compression-"+sp.compression, 1)
	c.stat(fmt.Sprintf("exporters-%d", sp.exporters), 1)
	c.note("sample case=%s exporters=%d comp=%s goroutines=%d pushes=%d points=%d streams=%d final=%v",
		name, sp.exporters, sp.compression, sp.goroutines, sp.pushes, npushed, len(sds), final)
	for _, x := range exps {
		_ = x.Shutdown(context.Background())
	}
	return c
}

// checkC16sub: the acknowledgement clauses of C16 on a pipeline stream (consumer accepts everything,
// so only ack-ahead / ack-regress can show up); reported under C19 signatures.
func checkC16sub(c *caseOut, o *streamObs) {
	prev := -1
	for j, s := range o.sends {
		if !s.ok {
			continue
		}
		if s.ack < prev {
			c.fail("ack-regress", "stream response %d acknowledges %d after %d", j, s.ack, prev)
		}
		prev = s.ack
		for i, b := range o.batches {
			if b.from >= s.ack {
				break
			}
			if b.consumeSeq < 0 || b.consumeSeq > s.seq {
				c.fail("ack-ahead", "response %d acknowledges id %d before the consumer returned for batch %d (ids %d..%d)", j, s.ack, i, b.from+1, b.to)
			}
		}
	}
}

func runC19(want func(string) bool) {
	r := rng.FromEnv(1901)
	var jobs []func() *caseOut
	add := func(name string, sp pipeSpec) {
		seed := r.U64()
		if want(name) {
			jobs = append(jobs, func() *caseOut { return runPipelineCase(name, sp, seed) })
		}
	}
	short := func(r *rng.R) time.Duration { return time.Duration(r.Intn(9000)) * time.Microsecond }
	aroundFlush := func(r *rng.R) time.Duration {
		switch r.Intn(4) {
		case 0:
			return 0
		case 1:
			return time.Duration(r.Intn(15000)) * time.Microsecond
		case 2:
			return time.Duration(90000+r.Intn(20000)) * time.Microsecond // around the 100 ms flusher
		}
		return time.Duration(r.Intn(40000)) * time.Microsecond
	}
	mult := 1
	if thorough() {
		mult = 5
	}
	for k := 0; k < 6*mult; k++ {
		comp := []string{"none", "zstd"}[k%2]
		add(fmt.Sprintf("pipe-single-%d", k), pipeSpec{exporters: 1, compression: comp, goroutines: 1, pushes: 4 + r.Intn(5), maxPoints: 12, pause: aroundFlush})
	}
	for k := 0; k < 8*mult; k++ {
		comp := []string{"none", "zstd"}[k%2]
		add(fmt.Sprintf("pipe-concurrent-%d", k), pipeSpec{exporters: 1, compression: comp, goroutines: 2 + r.Intn(5), pushes: 15 + r.Intn(25), maxPoints: 20, pause: short})
	}
	for k := 0; k < 2*mult; k++ {
		comp := []string{"none", "zstd"}[k%2]
		add(fmt.Sprintf("pipe-stale-%d", k), pipeSpec{exporters: 1, compression: comp, goroutines: 2, pushes: 4 + r.Intn(5), maxPoints: 6, pause: short, stale: true})
	}
	for k := 0; k < 8*mult; k++ {
		comp := []string{"none", "zstd"}[k%2]
		add(fmt.Sprintf("pipe-multi-%d", k), pipeSpec{exporters: 2 + r.Intn(2), compression: comp, goroutines: 1 + r.Intn(4), pushes: 3 + r.Intn(8), maxPoints: 16, pause: aroundFlush})
	}
	for k := 0; k < 2*mult; k++ {
		comp := []string{"none", "zstd"}[k%2]
		add(fmt.Sprintf("pipe-cancel-%d", k), pipeSpec{exporters: 1, compression: comp, goroutines: 3, pushes: 5, maxPoints: 4, pause: short, cancel: true})
	}
	for k := 0; k < 2*mult; k++ {
		comp := []string{"none", "zstd"}[k%2]
		add(fmt.Sprintf("pipe-large-%d", k), pipeSpec{exporters: 1, compression: comp, goroutines: 1, pushes: 5, maxPoints: 8, pause: aroundFlush,
			largePoints: 30000 + r.Intn(5000), largePad: 700 + r.Intn(300)})
	}
	for k := 0; k < 2*mult; k++ {
		// the same with MANY SMALL points (distinct short BYTES attribute values, which are not
		// dictionary encoded: the frame grows, not the dictionaries, whose limit would end it first): full frames whose size
		// is as close to the writer's frame size limit as a frame gets - the limit is soft, the
		// record that crosses it is small here - so the slack between that limit and what ONE gRPC
		// message may carry (the receiver's server takes 4 MiB) is what decides delivery
		// (between one and two full frames: the push that fills the first frame is accepted, the
		// remainder waits for the flusher)
		comp := []string{"none", "zstd"}[k%2]
		add(fmt.Sprintf("pipe-manysmall-%d", k), pipeSpec{exporters: 1, compression: comp, goroutines: 1, pushes: 3, maxPoints: 8, pause: aroundFlush,
			largePoints: 50000 + r.Intn(20000), largePad: 40 + r.Intn(30), largeBytes: true})
	}
	for k := 0; k < 4*mult; k++ {
		// the consumer behind the receiver rejects batches permanently (from the rejectFrom-th batch of
		// a stream on, or every second one): a rejected batch is reported as bad data, and that
		// response also carries the acknowledgement id - the batches delivered before it must still
		// be acknowledged to the exporter, and its pending list must drain
		comp := []string{"none", "zstd"}[k%2]
		add(fmt.Sprintf("pipe-reject-%d", k), pipeSpec{exporters: 1, compression: comp, goroutines: 1, pushes: 3 + r.Intn(4), maxPoints: 6,
			pause:      func(r *rng.R) time.Duration { return time.Duration(115000+r.Intn(30000)) * time.Microsecond }, // one frame per push
			rejectFrom: 1 + r.Intn(3), rejectAlternate: k%4 >= 2})
	}
	// the Responder's part of "every delivered batch is eventually acknowledged", against a scripted
	// stream: an accepted batch is handed over (ScheduleAck) exactly while the previous response is
	// held by the stream, then nothing more happens - its acknowledgement must still go out
	for k := 0; k < 6*mult; k++ {
		sc := &script{failFrom: -1, hold: map[int]time.Duration{0: time.Duration(12+r.Intn(25)) * time.Millisecond}}
		sc.batches = []batchSpec{
			{n: 1 + r.Intn(9), out: "accept", waitBlocked: -1, pre: time.Duration(3+r.Intn(20)) * time.Millisecond},
			{n: 1 + r.Intn(9), out: "accept", waitBlocked: 0},
		}
		if k%3 == 2 {
			sc.hold[1] = time.Duration(5+r.Intn(20)) * time.Millisecond
			sc.batches = append(sc.batches, batchSpec{n: 1 + r.Intn(9), out: "accept", waitBlocked: 1})
		}
		name := fmt.Sprintf("resp-live-%d", k)
		if want(name) {
			jobs = append(jobs, func() *caseOut { return runResponderCaseFor("C19", name, sc) })
		}
	}
	runCases(4, jobs)
}
