package main

// Scenario family (i): the real Responder (NewResponder / Run / ScheduleAck /
// ScheduleBadDataResponse / LastError / Stop) against a scripted STEFStream. The harness plays the
// receiver loop exactly as onStream does (check LastError, "decode" n records, consumer outcome,
// ScheduleAck(to) / ScheduleBadDataResponse{from+1,to} / leave on a transient error).

import (
	"fmt"
	"time"

	"github.com/splunk/stef/otelcol/verifhooks"

	"verif/harness_otelcol/internal/rng"
)

type batchSpec struct {
	n           int
	out         string        // accept | perm | trans
	pre         time.Duration // pause before the batch arrives
	consume     time.Duration // time the consumer takes
	waitBlocked int           // wait until send #k is held by the stream before this batch (-1: no)
}

type script struct {
	batches  []batchSpec
	failFrom int
	hold     map[int]time.Duration
	// stopEarly: the stream ends (the receiver loop leaves and stops the Responder) right after the
	// last batch, while the Responder may still hold queued reports: only safety is judged
	stopEarly bool
}

func (s *script) String() string {
	r := ""
	for i, b := range s.batches {
		if i > 0 {
			r += " "
		}
		r += fmt.Sprintf("%d%c", b.n, b.out[0])
		if b.pre > 0 {
			r += fmt.Sprintf("+%dus", b.pre.Microseconds())
		}
		if b.waitBlocked >= 0 {
			r += fmt.Sprintf("@%d", b.waitBlocked)
		}
	}
	if s.stopEarly {
		r += " stop-early"
	}
	return fmt.Sprintf("batches=[%s] failFrom=%d hold=%v", r, s.failFrom, s.hold)
}

func runResponderCase(name string, sc *script) *caseOut {
	return runResponderCaseFor("C16", name, sc)
}

func runResponderCaseFor(prop, name string, sc *script) *caseOut {
	c := newCase(prop, name)
	tr := newTracer()
	fs := newFakeStream(tr)
	fs.failFrom = sc.failFrom
	fs.hold = sc.hold
	resp := verifhooks.NewResponder(logger, fs)
	runDone := make(chan struct{})
	go func() {
		defer func() {
			if r := recover(); r != nil {
				c.fail("responder-panic", "Responder.Run panicked: %v", r)
			}
			close(runDone)
		}()
		resp.Run()
	}()

	count := 0
	exit := ""
	schedDone := make(chan string, 1)
	go func() {
		ex := ""
		defer func() { schedDone <- ex }()
		for i, b := range sc.batches {
			if resp.LastError() != nil {
				ex = "resperr"
				return
			}
			if b.waitBlocked >= 0 {
				fs.waitBlocked(b.waitBlocked, 300*time.Millisecond)
			}
			if b.pre > 0 {
				time.Sleep(b.pre)
			}
			from, to := count, count+b.n
			count = to
			tr.add(logEntry{kind: "decode", batch: i, n: b.n})
			if b.consume > 0 {
				time.Sleep(b.consume)
			}
			tr.add(logEntry{kind: "consumeEnd", batch: i, out: b.out})
			switch b.out {
			case "accept":
				resp.ScheduleAck(uint64(to))
			case "perm":
				// as onStream does since fix 3f3aa6e: the inclusive range of exactly the batch's records
				resp.ScheduleBadDataResponse(verifhooks.BadData{FromID: uint64(from + 1), ToID: uint64(to)})
			default:
				ex = "trans"
				return
			}
		}
	}()
	blockedInSched := false
	select {
	case exit = <-schedDone:
	case <-time.After(5 * time.Second):
		// ScheduleBadDataResponse never returned: the channel is full and the Responder is not draining
		blockedInSched = true
		exit = "blocked"
		c.fail("schedule-bad-data-hang", "ScheduleBadDataResponse blocked for 5 s (script %s)", sc)
	}
	broken := sc.failFrom >= 0
	quiescent := false
	if !blockedInSched && sc.stopEarly {
		if exit == "" {
			exit = "readfail"
		}
	} else if !blockedInSched {
		// bounded wait for the responder to report everything it was given
		quiescent = tr.waitFor(3*time.Second, func(es []logEntry) bool {
			o := observe(es)
			return settled(o)
		})
		if !quiescent && !broken {
			// liveness: the Responder polls every 10 ms; a report or an acknowledgement that has not
			// been sent 12 s after the last batch (no send is held that long) will never be sent
			quiescent = tr.waitFor(9*time.Second, func(es []logEntry) bool { return settled(observe(es)) })
			if !quiescent {
				o := observe(tr.snapshot())
				maxAck := 0
				for _, sd := range o.sends {
					if sd.ack > maxAck {
						maxAck = sd.ack
					}
				}
				c.fail("response-never-sent", "12 s after the last batch was handed to the Responder (ScheduleAck / ScheduleBadDataResponse returned, no send failed, the stream is open) it has sent %d responses, highest acknowledgement %d of %d records: the last accepted batch is never acknowledged or a rejected one never reported (script %s)", len(o.sends), maxAck, count, sc)
			}
		}
		if exit == "" {
			if resp.LastError() != nil {
				exit = "resperr"
			} else {
				exit = "readfail" // the harness ends the stream: the loop's next read fails
			}
		}
	}
	resp.Stop()
	select {
	case <-runDone:
		tr.add(logEntry{kind: "runStopped"})
	case <-time.After(3 * time.Second):
		c.fail("responder-hang", "Responder.Run did not return within 3 s after Stop (script %s)", sc)
	}
	tr.add(logEntry{kind: "exit", out: exit})
	if !quiescent && !broken && !blockedInSched && !sc.stopEarly {
		c.note("note case %s: responder did not settle within 3 s", name)
		c.stat("settle-timeout", 1)
	}
	o := finishC16(c, tr.snapshot(), oracleOpts{exactRanges: false, quiescent: quiescent && !broken, written: -1})
	_ = o
	c.stat("cases-responder", 1)
	return c
}

// settled: every permanently rejected batch reported and the last accepted id acknowledged, or a
// send failed (nothing more can be expected from a broken stream).
func settled(o *streamObs) bool {
	for _, s := range o.sends {
		if !s.ok {
			return true
		}
	}
	if n := len(o.batches); n > 0 && o.batches[n-1].out == "trans" {
		return true // the loop has left; the Responder is being stopped
	}
	reported := map[int]bool{}
	maxAck := 0
	for _, s := range o.sends {
		for _, r := range s.ranges {
			reported[r.to] = true
		}
		if s.ack > maxAck {
			maxAck = s.ack
		}
	}
	want := 0
	for _, b := range o.batches {
		switch b.out {
		case "perm":
			if !reported[b.to] {
				return false
			}
			want = b.to
		case "accept":
			want = b.to
		case "":
			return false
		}
	}
	return maxAck >= want || want == 0
}

func aroundTick(r *rng.R) time.Duration {
	switch r.Intn(6) {
	case 0:
		return 0
	case 1:
		return time.Duration(r.Intn(3000)) * time.Microsecond
	case 2:
		return time.Duration(8000+r.Intn(4000)) * time.Microsecond // around one 10 ms tick
	case 3:
		return time.Duration(9500+r.Intn(1000)) * time.Microsecond
	case 4:
		return time.Duration(18000+r.Intn(5000)) * time.Microsecond
	}
	return time.Duration(r.Intn(500)) * time.Microsecond
}

func randomOutcome(r *rng.R, transOK bool) string {
	x := r.Intn(100)
	switch {
	case x < 55:
		return "accept"
	case x < 95 || !transOK:
		return "perm"
	}
	return "trans"
}

func responderJobs(want func(string) bool) []func() *caseOut {
	var jobs []func() *caseOut
	add := func(name string, sc *script) {
		if want(name) {
			jobs = append(jobs, func() *caseOut { return runResponderCase(name, sc) })
		}
	}
	mult := 1
	if thorough() {
		mult = 6
	}
	r := rng.FromEnv(1601)
	// (a) the select race of Responder.Run: while a response is held by the stream, a permanently
	// rejected batch and then an accepted one arrive; when the send returns, the bad-data channel
	// and the ticker are both ready.
	for k := 0; k < 24*mult; k++ {
		n1, n2, n3 := 1+r.Intn(5), 1+r.Intn(5), 1+r.Intn(5)
		sc := &script{failFrom: -1, hold: map[int]time.Duration{0: time.Duration(13+r.Intn(6)) * time.Millisecond}}
		sc.batches = []batchSpec{
			{n: n1, out: "accept", waitBlocked: -1},
			{n: n2, out: "perm", waitBlocked: 0},
			{n: n3, out: "accept", waitBlocked: -1},
		}
		for e := r.Intn(3); e > 0; e-- {
			sc.batches = append(sc.batches, batchSpec{n: 1 + r.Intn(4), out: randomOutcome(r, false), pre: aroundTick(r), waitBlocked: -1})
		}
		add(fmt.Sprintf("resp-race-%d", k), sc)
	}
	// (d) two responses in a row are held by the stream: the first acknowledgement and then the
	// response that reports a rejected batch, which the Responder sends from its tick branch when the
	// ticker and the bad-data channel were both ready after the first hold. While the second response is
	// held another batch is rejected and one more accepted: the acknowledgement of the last batch must
	// not pass the report of the rejected one.
	for k := 0; k < 24*mult; k++ {
		h0 := time.Duration(12+r.Intn(6)) * time.Millisecond
		h1 := time.Duration(8+r.Intn(12)) * time.Millisecond
		sc := &script{failFrom: -1, hold: map[int]time.Duration{0: h0, 1: h1}}
		sc.batches = []batchSpec{
			{n: 1 + r.Intn(4), out: "accept", waitBlocked: -1},
			{n: 1 + r.Intn(4), out: "perm", waitBlocked: 0},
			{n: 1 + r.Intn(4), out: "perm", waitBlocked: 1},
			{n: 1 + r.Intn(4), out: "accept", waitBlocked: -1},
		}
		for e := r.Intn(3); e > 0; e-- {
			sc.batches = append(sc.batches, batchSpec{n: 1 + r.Intn(4), out: randomOutcome(r, false), pre: aroundTick(r), waitBlocked: -1})
		}
		add(fmt.Sprintf("resp-heldbad-%d", k), sc)
	}
	// (e) the stream ends while the Responder is busy: while a response is held by the stream a batch
	// is rejected permanently and a later one accepted, then the loop leaves at once (read failure)
	// and stops the Responder. When the held send returns, the stop signal, the bad-data channel and
	// the ticker are all ready: whatever the Responder still sends on its way out must not
	// acknowledge past the rejected batch that it has not reported.
	for k := 0; k < 32*mult; k++ {
		sc := &script{failFrom: -1, stopEarly: true, hold: map[int]time.Duration{0: time.Duration(11+r.Intn(8)) * time.Millisecond}}
		sc.batches = []batchSpec{
			{n: 1 + r.Intn(4), out: "accept", waitBlocked: -1},
			{n: 1 + r.Intn(4), out: "perm", waitBlocked: 0},
			{n: 1 + r.Intn(4), out: "accept", waitBlocked: -1},
		}
		if r.Bool() {
			sc.batches = append(sc.batches, batchSpec{n: 1 + r.Intn(3), out: randomOutcome(r, false), waitBlocked: -1})
		}
		add(fmt.Sprintf("resp-stopbusy-%d", k), sc)
	}
	// (b) bursts of permanent errors while a response is held: the channel (capacity 10) fills,
	// ScheduleBadDataResponse blocks, composeBadDataResponse drains several ranges at once.
	for k := 0; k < 8*mult; k++ {
		sc := &script{failFrom: -1, hold: map[int]time.Duration{0: time.Duration(12+r.Intn(10)) * time.Millisecond}}
		sc.batches = []batchSpec{{n: 1 + r.Intn(3), out: "accept", waitBlocked: -1}}
		burst := 2 + r.Intn(14)
		for i := 0; i < burst; i++ {
			out := "perm"
			if r.Intn(5) == 0 {
				out = "accept"
			}
			w := -1
			if i == 0 {
				w = 0
			}
			sc.batches = append(sc.batches, batchSpec{n: 1 + r.Intn(3), out: out, waitBlocked: w})
		}
		sc.batches = append(sc.batches, batchSpec{n: 2, out: "accept", pre: aroundTick(r), waitBlocked: -1})
		add(fmt.Sprintf("resp-burst-%d", k), sc)
	}
	// (c) random scripts with delays around the tick, optional transient end, optional send failure
	for k := 0; k < 40*mult; k++ {
		sc := &script{failFrom: -1, hold: map[int]time.Duration{}}
		nb := 1 + r.Intn(9)
		for i := 0; i < nb; i++ {
			b := batchSpec{n: 1 + r.Intn(6), out: randomOutcome(r, true), pre: aroundTick(r), waitBlocked: -1}
			if r.Intn(4) == 0 {
				b.consume = aroundTick(r)
			}
			sc.batches = append(sc.batches, b)
		}
		if r.Intn(4) == 0 {
			sc.failFrom = r.Intn(4)
		}
		if r.Intn(3) == 0 {
			sc.hold[r.Intn(3)] = time.Duration(5+r.Intn(20)) * time.Millisecond
		}
		add(fmt.Sprintf("resp-random-%d", k), sc)
	}
	return jobs
}
