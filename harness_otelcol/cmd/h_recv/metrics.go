package main

// Generation of pmetric.Metrics batches and the harness's own canonical text form of a data point
// (resource, scope, metric identity, attributes sorted by key, timestamps, value as bit pattern).
// The canonical form does not use any comparison or conversion code of the repository.

import (
	"fmt"
	"math"
	"sort"
	"strings"

	"go.opentelemetry.io/collector/pdata/pcommon"
	"go.opentelemetry.io/collector/pdata/pmetric"

	"verif/harness_otelcol/internal/rng"
)

func canonValue(v pcommon.Value) string {
	switch v.Type() {
	case pcommon.ValueTypeStr:
		return fmt.Sprintf("s:%q", v.Str())
	case pcommon.ValueTypeInt:
		return fmt.Sprintf("i:%d", v.Int())
	case pcommon.ValueTypeBool:
		return fmt.Sprintf("b:%v", v.Bool())
	case pcommon.ValueTypeDouble:
		return fmt.Sprintf("d:%016x", math.Float64bits(v.Double()))
	case pcommon.ValueTypeBytes:
		return fmt.Sprintf("x:%x", v.Bytes().AsRaw())
	case pcommon.ValueTypeEmpty:
		return "empty"
	case pcommon.ValueTypeMap:
		return "m:" + canonMap(v.Map())
	case pcommon.ValueTypeSlice:
		p := []string{}
		for i := 0; i < v.Slice().Len(); i++ {
			p = append(p, canonValue(v.Slice().At(i)))
		}
		return "a:[" + strings.Join(p, ",") + "]"
	}
	return "?"
}

func canonMap(m pcommon.Map) string {
	var p []string
	m.Range(func(k string, v pcommon.Value) bool {
		p = append(p, fmt.Sprintf("%q=%s", k, canonValue(v)))
		return true
	})
	sort.Strings(p)
	return "{" + strings.Join(p, ",") + "}"
}

func canonExemplars(es pmetric.ExemplarSlice) string {
	p := []string{}
	for i := 0; i < es.Len(); i++ {
		e := es.At(i)
		val := "empty"
		switch e.ValueType() {
		case pmetric.ExemplarValueTypeInt:
			val = fmt.Sprintf("i:%d", e.IntValue())
		case pmetric.ExemplarValueTypeDouble:
			val = fmt.Sprintf("d:%016x", math.Float64bits(e.DoubleValue()))
		}
		p = append(p, fmt.Sprintf("{ts=%d val=%s span=%x trace=%x filtered=%s}", e.Timestamp(), val, [8]byte(e.SpanID()), [16]byte(e.TraceID()), canonMap(e.FilteredAttributes())))
	}
	return "[" + strings.Join(p, ",") + "]"
}

type point struct {
	id    string // value of the "vid" attribute (unique per generated point)
	canon string
}

// flatten lists the data points of md in document order with their canonical text.
func flatten(md pmetric.Metrics) []point {
	var res []point
	rms := md.ResourceMetrics()
	for i := 0; i < rms.Len(); i++ {
		rm := rms.At(i)
		rs := fmt.Sprintf("res%s url=%q dropped=%d", canonMap(rm.Resource().Attributes()), rm.SchemaUrl(), rm.Resource().DroppedAttributesCount())
		for j := 0; j < rm.ScopeMetrics().Len(); j++ {
			sm := rm.ScopeMetrics().At(j)
			sc := sm.Scope()
			ss := fmt.Sprintf("scope name=%q ver=%q attrs=%s url=%q dropped=%d", sc.Name(), sc.Version(), canonMap(sc.Attributes()), sm.SchemaUrl(), sc.DroppedAttributesCount())
			for k := 0; k < sm.Metrics().Len(); k++ {
				m := sm.Metrics().At(k)
				ms := fmt.Sprintf("metric name=%q desc=%q unit=%q type=%s meta=%s", m.Name(), m.Description(), m.Unit(), m.Type(), canonMap(m.Metadata()))
				add := func(attrs pcommon.Map, body string) {
					id := ""
					if v, ok := attrs.Get("vid"); ok {
						id = v.Str()
					}
					res = append(res, point{id: id, canon: rs + " | " + ss + " | " + ms + " | attrs=" + canonMap(attrs) + " " + body})
				}
				num := func(dps pmetric.NumberDataPointSlice, extra string) {
					for l := 0; l < dps.Len(); l++ {
						dp := dps.At(l)
						val := "empty"
						switch dp.ValueType() {
						case pmetric.NumberDataPointValueTypeInt:
							val = fmt.Sprintf("i:%d", dp.IntValue())
						case pmetric.NumberDataPointValueTypeDouble:
							val = fmt.Sprintf("d:%016x", math.Float64bits(dp.DoubleValue()))
						}
						add(dp.Attributes(), fmt.Sprintf("%s start=%d ts=%d val=%s flags=%d exemplars=%s", extra, dp.StartTimestamp(), dp.Timestamp(), val, dp.Flags(), canonExemplars(dp.Exemplars())))
					}
				}
				switch m.Type() {
				case pmetric.MetricTypeGauge:
					num(m.Gauge().DataPoints(), "gauge")
				case pmetric.MetricTypeSum:
					num(m.Sum().DataPoints(), fmt.Sprintf("sum mono=%v temp=%s", m.Sum().IsMonotonic(), m.Sum().AggregationTemporality()))
				case pmetric.MetricTypeHistogram:
					dps := m.Histogram().DataPoints()
					for l := 0; l < dps.Len(); l++ {
						dp := dps.At(l)
						b := fmt.Sprintf("hist temp=%s start=%d ts=%d count=%d", m.Histogram().AggregationTemporality(), dp.StartTimestamp(), dp.Timestamp(), dp.Count())
						if dp.HasSum() {
							b += fmt.Sprintf(" sum=%016x", math.Float64bits(dp.Sum()))
						}
						if dp.HasMin() {
							b += fmt.Sprintf(" min=%016x", math.Float64bits(dp.Min()))
						}
						if dp.HasMax() {
							b += fmt.Sprintf(" max=%016x", math.Float64bits(dp.Max()))
						}
						b += fmt.Sprintf(" buckets=%v bounds=", dp.BucketCounts().AsRaw())
						for _, x := range dp.ExplicitBounds().AsRaw() {
							b += fmt.Sprintf("%016x,", math.Float64bits(x))
						}
						b += fmt.Sprintf(" flags=%d", dp.Flags())
						add(dp.Attributes(), b)
					}
				default:
					// other types are not generated
					res = append(res, point{id: "", canon: ms + " unsupported-type"})
				}
			}
		}
	}
	return res
}

// genMetrics builds a batch with exactly n data points. Every point carries a unique "vid"
// attribute "<tag>-<index>"; resources, scopes and metric identities repeat across batches so that
// the exporter's sorted tree merges and reorders them. Values stay inside what the converters are
// claimed to carry (C17 owns the conversion itself): no nested attribute maps, no -0.0/NaN.
func genMetrics(r *rng.R, tag string, n int) pmetric.Metrics {
	return genMetricsPad(r, tag, n, 0)
}

// genMetricsPad: as genMetrics; with pad > 0 every data point carries a distinct attribute value of
// pad bytes, so that a moderate number of points fills more than one frame of the writer.
func genMetricsPad(r *rng.R, tag string, n, pad int) pmetric.Metrics {
	return genMetricsPadKind(r, tag, n, pad, false)
}

// genMetricsPadKind: with asBytes the pad is a BYTES attribute: bytes values are not dictionary
// encoded, so a large batch grows the writer's frame (up to its frame size limit) and not its
// dictionaries (whose limit would end the frame first).
func genMetricsPadKind(r *rng.R, tag string, n, pad int, asBytes bool) pmetric.Metrics {
	md := pmetric.NewMetrics()
	left := n
	idx := 0
	for left > 0 {
		rm := md.ResourceMetrics().AppendEmpty()
		rid := r.Intn(3)
		rm.Resource().Attributes().PutStr("service.name", fmt.Sprintf("svc-%d", rid))
		rm.Resource().Attributes().PutInt("shard", int64(rid*7))
		if rid == 2 {
			rm.Resource().Attributes().PutBool("canary", true)
		}
		nsm := 1 + r.Intn(2)
		for j := 0; j < nsm && left > 0; j++ {
			sm := rm.ScopeMetrics().AppendEmpty()
			sid := r.Intn(2)
			sm.Scope().SetName(fmt.Sprintf("lib-%d", sid))
			sm.Scope().SetVersion(fmt.Sprintf("1.%d", sid))
			if sid == 1 {
				sm.Scope().Attributes().PutStr("lang", "go")
			}
			nm := 1 + r.Intn(3)
			for k := 0; k < nm && left > 0; k++ {
				m := sm.Metrics().AppendEmpty()
				mid := r.Intn(5)
				m.SetName(fmt.Sprintf("metric.%d", mid))
				m.SetDescription(fmt.Sprintf("description of %d", mid))
				m.SetUnit([]string{"1", "ms", "By", "", "s"}[mid])
				np := 1 + r.Intn(4)
				if np > left {
					np = left
				}
				left -= np
				if mid == 4 && pad == 0 && r.Intn(3) == 0 {
					// a histogram whose points do not all have the same explicit bounds (valid OTLP:
					// bounds belong to the point; STEF keeps them with the metric)
					m.SetName("metric.hist")
					h := m.SetEmptyHistogram()
					h.SetAggregationTemporality(pmetric.AggregationTemporalityDelta)
					for l := 0; l < np; l++ {
						dp := h.DataPoints().AppendEmpty()
						dp.Attributes().PutStr("vid", fmt.Sprintf("%s-%d", tag, idx))
						idx++
						bounds := [][]float64{{10, 100}, {5, 10, 50, 100}, {1}, nil, {}}[r.Intn(5)]
						var total uint64
						if bounds == nil {
							// a histogram point with count and sum only: no buckets, no bounds (valid OTLP)
							total = uint64(1 + r.Intn(50))
						} else {
							// ({}: one bucket and no bounds)
							dp.ExplicitBounds().FromRaw(bounds)
							counts := make([]uint64, len(bounds)+1)
							for i := range counts {
								counts[i] = uint64(r.Intn(9))
								total += counts[i]
							}
							dp.BucketCounts().FromRaw(counts)
						}
						dp.SetCount(total)
						dp.SetSum(float64(r.Intn(1000)) / 8)
						dp.SetStartTimestamp(pcommon.Timestamp(1700000000000000000 + uint64(r.Intn(1000))))
						dp.SetTimestamp(pcommon.Timestamp(1700000001000000000 + uint64(r.Intn(100000))))
					}
					continue
				}
				var dps pmetric.NumberDataPointSlice
				switch mid % 3 {
				case 0:
					dps = m.SetEmptyGauge().DataPoints()
				case 1:
					s := m.SetEmptySum()
					s.SetIsMonotonic(true)
					s.SetAggregationTemporality(pmetric.AggregationTemporalityCumulative)
					dps = s.DataPoints()
				default:
					s := m.SetEmptySum()
					s.SetIsMonotonic(false)
					s.SetAggregationTemporality(pmetric.AggregationTemporalityDelta)
					dps = s.DataPoints()
				}
				for l := 0; l < np; l++ {
					dp := dps.AppendEmpty()
					dp.Attributes().PutStr("vid", fmt.Sprintf("%s-%d", tag, idx))
					if pad > 0 && asBytes {
						b := []byte(fmt.Sprintf("%s-%d-", tag, idx))
						for x := 0; x < pad; x++ {
							b = append(b, byte(r.U64())) // incompressible
						}
						dp.Attributes().PutEmptyBytes("padb").FromRaw(b)
					} else if pad > 0 {
						dp.Attributes().PutStr("pad", fmt.Sprintf("%s-%d-", tag, idx)+strings.Repeat(string(rune('a'+idx%26)), pad))
					}
					idx++
					if r.Bool() {
						dp.Attributes().PutStr("host", fmt.Sprintf("h%d", r.Intn(4)))
					}
					if r.Intn(3) == 0 {
						dp.Attributes().PutInt("cpu", int64(r.Intn(8)))
					}
					dp.SetStartTimestamp(pcommon.Timestamp(1700000000000000000 + uint64(r.Intn(1000))))
					dp.SetTimestamp(pcommon.Timestamp(1700000001000000000 + uint64(r.Intn(100000))))
					if mid%2 == 0 {
						dp.SetIntValue(int64(r.Intn(1000000)) - 500000)
					} else {
						dp.SetDoubleValue(float64(r.Intn(1000000))/64.0 + 0.5)
					}
					if pad == 0 && r.Intn(4) == 0 {
						// exemplars with filtered attributes of their own (the converters keep scratch
						// attribute lists: a point must not end up under its exemplar's)
						for x := 1 + r.Intn(2); x > 0; x-- {
							e := dp.Exemplars().AppendEmpty()
							e.SetTimestamp(pcommon.Timestamp(1700000001000000000 + uint64(r.Intn(100000))))
							if r.Bool() {
								e.SetIntValue(int64(r.Intn(1000)))
							} else {
								e.SetDoubleValue(float64(r.Intn(1000))/8 + 0.25)
							}
							e.SetSpanID(pcommon.SpanID([8]byte{1, 2, 3, 4, 5, 6, 7, byte(1 + r.Intn(200))}))
							e.SetTraceID(pcommon.TraceID([16]byte{9, 8, 7, 6, 5, 4, 3, 2, 1, 0, 1, 2, 3, 4, 5, byte(1 + r.Intn(200))}))
							if r.Intn(3) != 0 {
								e.FilteredAttributes().PutStr("user", fmt.Sprintf("u%d", r.Intn(5)))
							}
							if r.Intn(3) == 0 {
								e.FilteredAttributes().PutInt("shard", int64(r.Intn(9)))
							}
						}
					}
				}
			}
		}
	}
	return md
}

// addStalePoint appends a gauge with one number data point that has NO value and the flag
// NoRecordedValue (the OTLP staleness marker). STEF can carry it (PointValueTypeNone).
func addStalePoint(md pmetric.Metrics, tag string) {
	rm := md.ResourceMetrics().AppendEmpty()
	rm.Resource().Attributes().PutStr("service.name", "svc-stale")
	sm := rm.ScopeMetrics().AppendEmpty()
	sm.Scope().SetName("lib-0")
	m := sm.Metrics().AppendEmpty()
	m.SetName("metric.stale")
	dp := m.SetEmptyGauge().DataPoints().AppendEmpty()
	dp.Attributes().PutStr("vid", tag+"-stale")
	dp.SetTimestamp(pcommon.Timestamp(1700000002000000000))
	dp.SetFlags(pmetric.DefaultDataPointFlags.WithNoRecordedValue(true))
}
