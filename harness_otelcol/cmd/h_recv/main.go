// h_recv drives the real STEF receiver loop (onStream), its Responder and the real STEF exporter of
// /repo/otelcol through the build-tag-verif hooks of otelcol/verifhooks (properties C16 and C19).
//
//	h_recv c16 [prefix]   Responder-only scenarios, the real onStream loop over an in-memory pipe and
//	                      over loopback gRPC, writer/reader record-count lockstep
//	h_recv c19 [prefix]   real exporter(s) -> loopback gRPC -> real receiver loop(s) -> consumer
//
// Output protocol: see /verif/AGENTS.md. Each case records an event trace from the real code; the
// trace is (1) linearised into a run of the Lean LTS (Stef/Receiver.lean, Stef/Pipeline.lean) and
// printed as op lines which the Lean driver must accept one by one, and (2) evaluated directly
// against the property (PROP-FAIL lines), independently of the model.
package main

import (
	"bufio"
	"fmt"
	"os"
	"sort"
	"strings"
	"sync"

	"go.uber.org/zap"
)

var out = bufio.NewWriterSize(os.Stdout, 1<<20)

// caseOut buffers everything one case prints, so that cases may run concurrently and still be
// printed in their fixed order.
type caseOut struct {
	name  string
	prop  string
	lines []string
	seen  map[string]bool
	stats map[string]int
}

func newCase(prop, name string) *caseOut {
	c := &caseOut{name: name, prop: prop, seen: map[string]bool{}, stats: map[string]int{}}
	c.lines = append(c.lines, "# case "+name)
	return c
}

func (c *caseOut) emit(op, res string)     { c.lines = append(c.lines, op+"\t"+res) }
func (c *caseOut) note(f string, a ...any) { c.lines = append(c.lines, "# "+fmt.Sprintf(f, a...)) }
func (c *caseOut) stat(k string, n int)    { c.stats[k] += n }

// fail records a failure of the property itself, one line per signature per case.
func (c *caseOut) fail(sig string, format string, a ...any) {
	c.stats["propfail-"+sig]++
	if c.seen[sig] {
		return
	}
	c.seen[sig] = true
	c.lines = append(c.lines, fmt.Sprintf("PROP-FAIL %s %s case=%s %s", c.prop, sig, c.name, fmt.Sprintf(format, a...)))
}

var stats = map[string]int{}
var nSamples = 0

func (c *caseOut) print() {
	for _, l := range c.lines {
		if strings.HasPrefix(l, "# sample ") {
			if nSamples >= 10 {
				continue
			}
			nSamples++
		}
		fmt.Fprintln(out, l)
	}
	for k, v := range c.stats {
		stats[k] += v
	}
}

// runCases runs the jobs on `par` workers and prints the results in job order.
func runCases(par int, jobs []func() *caseOut) {
	res := make([]*caseOut, len(jobs))
	var wg sync.WaitGroup
	sem := make(chan struct{}, par)
	for i := range jobs {
		wg.Add(1)
		sem <- struct{}{}
		go func(i int) {
			defer wg.Done()
			defer func() { <-sem }()
			res[i] = jobs[i]()
		}(i)
	}
	wg.Wait()
	for _, c := range res {
		if c != nil {
			c.print()
		}
	}
}

func thorough() bool { return os.Getenv("VERIF_TIER") == "thorough" }

var logger = zap.NewNop()

func fnv(h uint64, s string) uint64 {
	for i := 0; i < len(s); i++ {
		h = (h ^ uint64(s[i])) * 1099511628211
	}
	return h
}

func main() {
	defer func() {
		keys := make([]string, 0, len(stats))
		for k := range stats {
			keys = append(keys, k)
		}
		sort.Strings(keys)
		for _, k := range keys {
			fmt.Fprintf(out, "# stat %s %d\n", k, stats[k])
		}
		out.Flush()
	}()
	mode := "all"
	if len(os.Args) > 1 {
		mode = os.Args[1]
	}
	only := ""
	if len(os.Args) > 2 {
		only = os.Args[2]
	}
	want := func(name string) bool { return only == "" || strings.HasPrefix(name, only) }
	switch mode {
	case "c16":
		runC16(want)
	case "c19":
		runC19(want)
	default:
		runC16(want)
		runC19(want)
	}
}
